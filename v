#!/bin/sh
# ./v check C07 quick|thorough     ./v replay C07 replays/C07-xxxx.json
exec /venv/bin/python "$(dirname "$0")/vlib/main.py" "$@"
