/* C28 driver: executes a plan of first calls into CFFI-embedded libraries from
   pthreads, owning *when* each library's init code may continue (gates).
   usage: c28_driver "<plan>"   env: C28_LIB_A, C28_LIB_B
   plan steps (';'-separated):
     S t L f arg   start: thread t calls function f (0/1) of library L (A/B) with int arg
     W L [k]       wait (<= 5 s) until L's init code has reached its gate k (0 = start of the init
                   code, 1 = after its recursive call; default 0) or has finished/failed
     R L [k]       release L's gate k (the init code continues / will not stop there)
     J t           join thread t's current call (<= 60 s, else TIMEOUT)
     P ms          pause
   The event log is printed on stdout at the end, one event per line, in real-time order. */
#define _GNU_SOURCE
#include <stdio.h>
#include <stdlib.h>
#include <string.h>
#include <pthread.h>
#include <dlfcn.h>
#include <unistd.h>
#include <time.h>
#include <errno.h>
#include <sys/syscall.h>

#define MAXT 4
#define MAXLOG 4096

static pthread_mutex_t logm = PTHREAD_MUTEX_INITIALIZER;
static pthread_cond_t logc = PTHREAD_COND_INITIALIZER;
static char *logv[MAXLOG];
static int logn = 0;

/* two gates per library: gate 2*lib = at the start of the init code, gate 2*lib+1 = after the
   (optional) recursive call made by the init code, before it finishes */
static int released[4] = {0, 0, 0, 0};
static int at_gate[4] = {0, 0, 0, 0};
static int init_seen[2] = {0, 0};     /* init code entered at least once */
static int init_over[2] = {0, 0};     /* init code exited (ok or raise) */

static __thread int my_tid = -1;      /* plan thread number, -1 = controller/other */

void drv_event(const char *s)
{
    char buf[256];
    pthread_mutex_lock(&logm);
    snprintf(buf, sizeof(buf), "%s tid=%d", s, my_tid);
    if (logn < MAXLOG)
        logv[logn++] = strdup(buf);
    if (strncmp(s, "init_enter ", 11) == 0)
        init_seen[s[11] == 'b'] = 1;
    if (strncmp(s, "init_exit ", 10) == 0 || strncmp(s, "init_raise ", 11) == 0)
        init_over[s[strncmp(s, "init_exit ", 10) == 0 ? 10 : 11] == 'b'] = 1;
    pthread_cond_broadcast(&logc);
    pthread_mutex_unlock(&logm);
}

void drv_gate(int gate)
{
    pthread_mutex_lock(&logm);
    at_gate[gate] = 1;
    pthread_cond_broadcast(&logc);
    while (!released[gate])
        pthread_cond_wait(&logc, &logm);
    at_gate[gate] = 0;
    pthread_mutex_unlock(&logm);
}

static void *libh[2];
typedef int (*fn_t)(int);
static fn_t fns[2][2];

struct worker {
    pthread_t th;
    pthread_mutex_t m;
    pthread_cond_t c;
    int has_cmd, busy, quit;
    int lib, fn, arg;
} W[MAXT];

static void *worker_main(void *p)
{
    struct worker *w = (struct worker *)p;
    my_tid = (int)(w - W);
    for (;;) {
        int lib, fn, arg, res;
        char buf[128];
        pthread_mutex_lock(&w->m);
        while (!w->has_cmd && !w->quit)
            pthread_cond_wait(&w->c, &w->m);
        if (w->quit && !w->has_cmd) { pthread_mutex_unlock(&w->m); return NULL; }
        lib = w->lib; fn = w->fn; arg = w->arg;
        w->has_cmd = 0;
        pthread_mutex_unlock(&w->m);
        snprintf(buf, sizeof(buf), "call_begin %c f%d %d", "ab"[lib], fn, arg);
        drv_event(buf);
        res = fns[lib][fn](arg);
        snprintf(buf, sizeof(buf), "call_ret %c f%d %d %d", "ab"[lib], fn, arg, res);
        drv_event(buf);
        pthread_mutex_lock(&w->m);
        w->busy = 0;
        pthread_cond_broadcast(&w->c);
        pthread_mutex_unlock(&w->m);
    }
}

static int timedwait(pthread_cond_t *c, pthread_mutex_t *m, double deadline_s)
{
    struct timespec ts;
    ts.tv_sec = (time_t)deadline_s;
    ts.tv_nsec = (long)((deadline_s - (double)ts.tv_sec) * 1e9);
    return pthread_cond_timedwait(c, m, &ts);
}

static double now(void)
{
    struct timespec ts;
    clock_gettime(CLOCK_REALTIME, &ts);
    return ts.tv_sec + ts.tv_nsec / 1e9;
}

static int join_worker(int t, double secs)
{
    struct worker *w = &W[t];
    double dl = now() + secs;
    int ok = 1;
    pthread_mutex_lock(&w->m);
    while (w->busy) {
        if (timedwait(&w->c, &w->m, dl) == ETIMEDOUT && w->busy) { ok = 0; break; }
    }
    pthread_mutex_unlock(&w->m);
    return ok;
}

int main(int argc, char **argv)
{
    char *plan, *step, *save;
    int i, rc = 0;
    const char *names[2] = {"C28_LIB_A", "C28_LIB_B"};
    const char *pre[2] = {"a", "b"};
    if (argc < 2) return 2;
    for (i = 0; i < 2; i++) {
        char sym[32];
        libh[i] = dlopen(getenv(names[i]), RTLD_NOW | RTLD_GLOBAL);
        if (!libh[i]) { fprintf(stderr, "dlopen: %s\n", dlerror()); return 2; }
        snprintf(sym, sizeof(sym), "%s_f0", pre[i]); fns[i][0] = (fn_t)dlsym(libh[i], sym);
        snprintf(sym, sizeof(sym), "%s_f1", pre[i]); fns[i][1] = (fn_t)dlsym(libh[i], sym);
        if (!fns[i][0] || !fns[i][1]) { fprintf(stderr, "dlsym failed\n"); return 2; }
    }
    for (i = 0; i < MAXT; i++) {
        pthread_mutex_init(&W[i].m, NULL);
        pthread_cond_init(&W[i].c, NULL);
        pthread_create(&W[i].th, NULL, worker_main, &W[i]);
    }
    plan = strdup(argv[1]);
    for (step = strtok_r(plan, ";", &save); step; step = strtok_r(NULL, ";", &save)) {
        char op = step[0];
        if (op == 'S') {
            int t, f, arg; char L;
            if (sscanf(step, "S %d %c %d %d", &t, &L, &f, &arg) != 4) return 2;
            if (!join_worker(t, 60)) { drv_event("TIMEOUT join-before-start"); rc = 3; break; }
            pthread_mutex_lock(&W[t].m);
            W[t].lib = (L == 'B'); W[t].fn = f; W[t].arg = arg;
            W[t].has_cmd = 1; W[t].busy = 1;
            pthread_cond_broadcast(&W[t].c);
            pthread_mutex_unlock(&W[t].m);
        }
        else if (op == 'W') {
            int lib = (step[2] == 'B');
            int gate = 2 * lib + (step[3] == ' ' && step[4] == '1');
            double dl = now() + 5.0;
            pthread_mutex_lock(&logm);
            while (!at_gate[gate] && !init_over[lib]) {
                if (timedwait(&logc, &logm, dl) == ETIMEDOUT) break;
            }
            pthread_mutex_unlock(&logm);
        }
        else if (op == 'R') {
            int lib = (step[2] == 'B');
            int gate = 2 * lib + (step[3] == ' ' && step[4] == '1');
            pthread_mutex_lock(&logm);
            released[gate] = 1;
            pthread_cond_broadcast(&logc);
            pthread_mutex_unlock(&logm);
        }
        else if (op == 'J') {
            int t = atoi(step + 2);
            if (!join_worker(t, 60)) { drv_event("TIMEOUT join"); rc = 3; break; }
        }
        else if (op == 'P') {
            usleep(1000 * atoi(step + 2));
        }
    }
    /* epilogue: open every gate, every call must terminate */
    pthread_mutex_lock(&logm);
    released[0] = released[1] = released[2] = released[3] = 1;
    pthread_cond_broadcast(&logc);
    pthread_mutex_unlock(&logm);
    for (i = 0; i < MAXT; i++)
        if (!join_worker(i, 60)) { drv_event("TIMEOUT final-join"); rc = 3; }
    pthread_mutex_lock(&logm);
    for (i = 0; i < logn; i++)
        printf("%s\n", logv[i]);
    pthread_mutex_unlock(&logm);
    fflush(stdout);
    _exit(rc);
}
