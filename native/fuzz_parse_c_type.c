/* libFuzzer + ASan target for src/c/parse_c_type.c (property C30).
   Built by vlib/fuzz30.py with -I$REPO/src/c so that the file under test is the
   one in the working tree.  The input is copied into an exact-size heap buffer
   (len+1 bytes, NUL-terminated) so that reading past the string traps; the
   output array is likewise exact-size.  In-target oracle:
     - on error: error_location <= strlen(input), error_message != NULL
     - on success: result index inside the output array
   Known findings are excluded by construction: see KNOWN_* env handling. */
#include <stdint.h>
#include <stdio.h>
#include "parse_c_type.c"

static const char *get_common_type(const char *search, size_t search_len) {
    (void)search; (void)search_len;
    return NULL;
}

static struct _cffi_struct_union_s structs[] = {
    {"bar_s", 0, 0, 0, 0, 0, 0}, {"foo", 1, 0, 0, 0, 0, 0}, {"foo_", 2, 0, 0, 0, 0, 0},
    {"foo_s", 3, _CFFI_F_UNION, 0, 0, 0, 0}, {"foo_s1", 4, 0, 0, 0, 0, 0},
    {"foo_s12", 5, 0, 0, 0, 0, 0}, {"s1", 6, 0, 0, 0, 0, 0},
};
static struct _cffi_enum_s enums[] = {
    {"e1", 0, 0, 0}, {"ebar_s", 1, 0, 0}, {"efoo", 2, 0, 0}, {"efoo_", 3, 0, 0},
};
static struct _cffi_typename_s typenames[] = {
    {"arr_t", 0}, {"fn_t", 1}, {"foo_t", 2}, {"id", 3}, {"id0", 4}, {"id05", 5},
    {"id05b", 6}, {"tail", 7},
};
static struct _cffi_global_s globals[] = {
    {"FIVE", (void *)0, _CFFI_OP(_CFFI_OP_CONSTANT_INT, 0), (void *)0},
    {"NEG", (void *)0, _CFFI_OP(_CFFI_OP_CONSTANT_INT, 0), (void *)0},
    {"TEN", (void *)0, _CFFI_OP(_CFFI_OP_CONSTANT_INT, 0), (void *)0},
    {"ZERO", (void *)0, _CFFI_OP(_CFFI_OP_CONSTANT_INT, 0), (void *)0},
};
static int fetch_const(unsigned long long *out) { *out = 5; return 0; }
static int fetch_neg(unsigned long long *out) { *out = (unsigned long long)-7; return 1; }
static int fetch_ten(unsigned long long *out) { *out = 10; return 0; }
static int fetch_zero(unsigned long long *out) { *out = 0; return 0; }

static struct _cffi_type_context_s ctx;

int LLVMFuzzerInitialize(int *argc, char ***argv) {
    (void)argc; (void)argv;
    memset(&ctx, 0, sizeof(ctx));
    globals[0].address = (void *)fetch_const;
    globals[1].address = (void *)fetch_neg;
    globals[2].address = (void *)fetch_ten;
    globals[3].address = (void *)fetch_zero;
    ctx.struct_unions = structs;
    ctx.num_struct_unions = sizeof(structs) / sizeof(structs[0]);
    ctx.enums = enums;
    ctx.num_enums = sizeof(enums) / sizeof(enums[0]);
    ctx.typenames = typenames;
    ctx.num_typenames = sizeof(typenames) / sizeof(typenames[0]);
    ctx.globals = globals;
    ctx.num_globals = sizeof(globals) / sizeof(globals[0]);
    return 0;
}

#define MAX_OUTPUT_SIZE 64

int LLVMFuzzerTestOneInput(const uint8_t *data, size_t size) {
    /* the first input byte selects the size of the (exact-size) output array, so that
       every "complexity limit" boundary is within reach of short inputs */
    unsigned int OUTPUT_SIZE;
    if (size < 1)
        return 0;
    OUTPUT_SIZE = 1 + data[0] % MAX_OUTPUT_SIZE;
    data++; size--;
    struct _cffi_parse_info_s info;
    char *input;
    _cffi_opcode_t *output;
    int res;
    size_t n;

    if (size > 400)
        return 0;
    if (memchr(data, 0, size) != NULL)
        return 0;          /* a C string cannot contain NUL */
    input = (char *)malloc(size + 1);
    memcpy(input, data, size);
    input[size] = 0;
    output = (_cffi_opcode_t *)malloc(OUTPUT_SIZE * sizeof(_cffi_opcode_t));
    memset(output, 0, OUTPUT_SIZE * sizeof(_cffi_opcode_t));
    memset(&info, 0, sizeof(info));
    info.ctx = &ctx;
    info.output = output;
    info.output_size = OUTPUT_SIZE;
    info.error_location = 0;
    info.error_message = NULL;

    res = parse_c_type(&info, input);
    n = strlen(input);
    if (res < 0) {
        if (info.error_message == NULL) {
            fprintf(stderr, "ORACLE: failure without error_message\n");
            abort();
        }
        if (info.error_location > n) {
            fprintf(stderr, "ORACLE: error_location %zu beyond the string (len %zu)\n",
                    info.error_location, n);
            abort();
        }
    }
    else if ((unsigned int)res >= OUTPUT_SIZE) {
        fprintf(stderr, "ORACLE: result index %d outside the output array\n", res);
        abort();
    }
    free(output);
    free(input);
    return 0;
}
