/* C36 driver: foreign (non-Python) pthreads that invoke function pointers on
   command, so the harness owns the global order of (thread, call | exit). */
#include <pthread.h>
#include <stdlib.h>
#include <string.h>

typedef int (*cb_t)(int, int);
/* resolved from the running interpreter when the library is loaded */
extern int PyGILState_Ensure(void);
extern void PyGILState_Release(int);

struct fth {
    pthread_t th;
    pthread_mutex_t m;
    pthread_cond_t c;
    int cmd;            /* 0 none, 1 call, 2 exit, 3 call with the GIL held by the thread's own code */
    int busy;
    cb_t fn;
    int a, b, result;
    unsigned long ident;
};

#define MAXF 64
static struct fth F[MAXF];
static int nf = 0;

static void *fth_main(void *p)
{
    struct fth *f = (struct fth *)p;
    f->ident = (unsigned long)pthread_self();
    for (;;) {
        int cmd;
        pthread_mutex_lock(&f->m);
        while (f->cmd == 0)
            pthread_cond_wait(&f->c, &f->m);
        cmd = f->cmd;
        pthread_mutex_unlock(&f->m);
        if (cmd == 2)
            return NULL;
        if (cmd == 3) {
            /* the thread's own C code holds the GIL around the callback */
            int st = PyGILState_Ensure();
            f->result = f->fn(f->a, f->b);
            PyGILState_Release(st);
        }
        else
            f->result = f->fn(f->a, f->b);
        pthread_mutex_lock(&f->m);
        f->cmd = 0;
        f->busy = 0;
        pthread_cond_broadcast(&f->c);
        pthread_mutex_unlock(&f->m);
    }
}

int drv_spawn(void)
{
    struct fth *f;
    if (nf >= MAXF) return -1;
    f = &F[nf];
    memset(f, 0, sizeof(*f));
    pthread_mutex_init(&f->m, NULL);
    pthread_cond_init(&f->c, NULL);
    if (pthread_create(&f->th, NULL, fth_main, f) != 0) return -1;
    return nf++;
}

void drv_call_async(int id, void *fn, int a, int b)
{
    struct fth *f = &F[id];
    pthread_mutex_lock(&f->m);
    while (f->busy)
        pthread_cond_wait(&f->c, &f->m);
    f->fn = (cb_t)fn; f->a = a; f->b = b;
    f->busy = 1; f->cmd = 1;
    pthread_cond_broadcast(&f->c);
    pthread_mutex_unlock(&f->m);
}

void drv_call_gil_async(int id, void *fn, int a, int b)
{
    struct fth *f = &F[id];
    pthread_mutex_lock(&f->m);
    while (f->busy)
        pthread_cond_wait(&f->c, &f->m);
    f->fn = (cb_t)fn; f->a = a; f->b = b;
    f->busy = 1; f->cmd = 3;
    pthread_cond_broadcast(&f->c);
    pthread_mutex_unlock(&f->m);
}

int drv_wait(int id)
{
    struct fth *f = &F[id];
    int r;
    pthread_mutex_lock(&f->m);
    while (f->busy)
        pthread_cond_wait(&f->c, &f->m);
    r = f->result;
    pthread_mutex_unlock(&f->m);
    return r;
}

int drv_call(int id, void *fn, int a, int b)
{
    drv_call_async(id, fn, a, b);
    return drv_wait(id);
}

void drv_exit(int id)
{
    struct fth *f = &F[id];
    pthread_mutex_lock(&f->m);
    while (f->busy)
        pthread_cond_wait(&f->c, &f->m);
    f->cmd = 2;
    pthread_cond_broadcast(&f->c);
    pthread_mutex_unlock(&f->m);
    pthread_join(f->th, NULL);
}

/* direct call in the calling (Python) thread */
int drv_direct(void *fn, int a, int b) { return ((cb_t)fn)(a, b); }
