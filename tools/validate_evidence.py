#!/usr/bin/env python3
"""python3-vt tools/validate_evidence.py  -- evidence/*.json against /root/.vp/EVIDENCE.schema.json, MANIFEST too"""
import json, glob, sys, jsonschema
s = json.load(open('/root/.vp/EVIDENCE.schema.json'))
bad = 0
for f in sorted(glob.glob('/verif/evidence/C*.json')):
    e = json.load(open(f))
    try:
        jsonschema.validate(e, s)
    except Exception as ex:
        bad += 1
        print(f, str(ex)[:300])
    if e.get('violations'):
        print(f, 'has', len(e['violations']), 'violations')
        bad += 1
    c = e['coverage']
    if c['distinct_nontrivial'] < 2 or not c['samples']:
        print(f, 'weak coverage numbers', c['evaluations'], c['distinct_nontrivial'])
        bad += 1
jsonschema.validate(json.load(open('/verif/MANIFEST.json')), json.load(open('/root/.vp/MANIFEST.schema.json')))
print('evidence files with problems:', bad)
sys.exit(1 if bad else 0)
