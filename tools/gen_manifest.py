#!/venv/bin/python
"""Regenerates MANIFEST.json from the check modules' metadata."""
import sys, os, json, glob, importlib
V = os.path.dirname(os.path.dirname(os.path.abspath(__file__)))
sys.path.insert(0, V)
os.chdir(V)

props = [json.loads(l) for l in open('properties.jsonl')]
checks, na = [], []
PENDING = json.load(open('tools/not_applicable.json')) if os.path.exists('tools/not_applicable.json') else {}
REGISTERED = set(json.load(open('tools/registered.json')))
for p in props:
    pid = p['id']
    fs = glob.glob('checks/%s_*.py' % pid.lower())
    if not fs or pid not in REGISTERED:
        na.append({'property_id': pid, 'reason': PENDING.get(pid, 'no check registered yet for this property (machinery under construction)')})
        continue
    src = open(fs[0]).read()
    ns = {}
    # metadata are plain assignments at module top: evaluate only those
    import ast
    tree = ast.parse(src)
    for node in tree.body:
        if isinstance(node, ast.Assign) and len(node.targets) == 1 and isinstance(node.targets[0], ast.Name):
            name = node.targets[0].id
            if name in ('ID', 'LEVEL', 'RULE', 'TECHNIQUE', 'LEVEL_TEXT', 'LEVEL_NOTE', 'DESIGN_REF', 'NO_THOROUGH'):
                ns[name] = ast.literal_eval(node.value)
    assert ns['ID'] == pid, fs[0]
    c = {
        'property_id': pid,
        'quick_cmd': './v check %s quick' % pid,
        'thorough_cmd': './v check %s thorough' % pid,
        'evidence_file': 'evidence/%s.json' % pid,
        'replay_cmd_template': './v replay %s {path}' % pid,
        'engine': 'vlib',
        'level_claimed': {'category': ns.get('LEVEL', 'exploration'),
                          'text': ns.get('LEVEL_TEXT') or ns['RULE'],
                          'design_ref': ns.get('DESIGN_REF', 'DESIGN.md section 4, ' + pid)},
        'level_note': ns.get('LEVEL_NOTE', 'Trusted: gcc 12 / x86-64 as reference where a compiler oracle is used; the reference models in the check module; Hypothesis for generation and shrinking. Finds violations, cannot establish absence.'),
        'technique': ns.get('TECHNIQUE', 'property-based testing (Hypothesis) against an explicit oracle'),
    }
    checks.append(c)

m = {
    'version': 1,
    'setup_cmd': '/venv/bin/python vlib/setup.py',
    'hooks': {
        'guard': 'PYTHON_CFFI_CFFI_VERIF',
        'enable': 'none needed: no hook commits exist; checks set PYTHON_CFFI_CFFI_VERIF=1 in the environment of every process anyway and rebuild _cffi_backend from /repo working tree into /verif/.build',
        'baseline_off_cmd': 'cd /repo && /venv/bin/python setup.py -q build_ext --inplace && /venv/bin/python -m pytest -ra -q -p no:cacheprovider --timeout=900 --continue-on-collection-errors',
        'source_commits': [],
        'add_only': True,
    },
    'engines': [{'name': 'vlib', 'path': 'vlib/', 'serves_properties': [c['property_id'] for c in checks],
                 'kind_free_text': 'Hypothesis-driven sharded property runner with crash containment, corpus replay, known-finding handling, gcc oracle helpers; atheris/libFuzzer drivers for C30'}],
    'checks': checks,
    'not_applicable': na,
    'notes': 'All checks rebuild _cffi_backend from /repo working tree (vlib/build.py) and import cffi from /repo/src. Exit 0 held / 1 VIOLATION / 2 harness error. See DESIGN.md.',
}
json.dump(m, open('MANIFEST.json', 'w'), indent=1)
print('checks: %d, not_applicable: %d' % (len(checks), len(na)))
try:
    import jsonschema
    jsonschema.validate(m, json.load(open('/root/.vp/MANIFEST.schema.json')))
    print('manifest validates')
except ImportError:
    pass
