#!/usr/bin/env python3
"""round-3 prompt: seed_prompt3.py <ID> <PID>; like seed_prompt.py plus the summaries of the earlier seeds
of the same property, so that the new change is different in kind"""
import sys, json, subprocess, os, glob
sid, pid = sys.argv[1], sys.argv[2]
base = subprocess.check_output([sys.executable, os.path.join(os.path.dirname(__file__), 'seed_prompt.py'), sid, pid],
                               text=True)
earlier = []
for m in sorted(glob.glob('/verif/seeded/*/meta.json')):
    d = json.load(open(m))
    if d.get('property') == pid:
        earlier.append('* ' + d['summary'].strip().replace('\n', ' ')[:400])
print(base)
if earlier:
    print("Earlier changes already made for this property by other people (yours must be DIFFERENT IN KIND: a "
          "different mechanism at a different code site, needing a different kind of input/sequence to manifest; "
          "look at parts of the implementation behind the property that these do not touch):")
    print('\n'.join(earlier))
