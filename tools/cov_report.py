#!/usr/bin/env python3
"""Development aid: what do the generators never reach?

  VERIF_COV=/var/tmp/cov VERIF_REPO=/repo ./v check CNN quick     (for every check; see vlib/cov/sitecustomize.py)
  /venv/bin/python tools/cov_report.py /var/tmp/cov [c|py] [name-filter...]

Prints, for every function of the backend C sources (gcov) / of src/cffi/*.py (coverage.py) that was entered
at least once, the source lines that no check executed.  Not part of any registered check; coverage is used
to find generator gaps, not as evidence.
"""
import sys, os, glob, json, gzip, subprocess, re

VERIF = os.path.dirname(os.path.dirname(os.path.abspath(__file__)))


def c_report(covdir, filters):
    builds = sorted(glob.glob(os.path.join(VERIF, '.build', 'backend-cov-*')), key=os.path.getmtime)
    b = builds[-1]
    gcda = [g for g in glob.glob(os.path.join(b, '*_cffi_backend.gcda'))]
    if not gcda:
        sys.exit('no gcda in ' + b)
    out = os.path.join(covdir, 'gcov')
    os.makedirs(out, exist_ok=True)
    subprocess.check_call(['gcov', '-j', '-o', b, gcda[0]], cwd=out, stdout=subprocess.DEVNULL)
    js = glob.glob(os.path.join(out, '*.gcov.json.gz'))
    data = json.load(gzip.open(js[0]))
    for f in data['files']:
        path = f['file']
        if '/src/c/' not in path and '/src/cffi/' not in path:
            continue
        try:
            src = open(path, errors='replace').read().split('\n')
        except OSError:
            continue
        lines = {}
        for l in f['lines']:
            lines[l['line_number']] = max(lines.get(l['line_number'], 0), l['count'])
        for fn in sorted(f['functions'], key=lambda x: x['start_line']):
            name = fn['name']
            if filters and not any(x in name for x in filters):
                continue
            rng = [n for n in lines if fn['start_line'] <= n <= fn['end_line']]
            miss = sorted(n for n in rng if lines[n] == 0)
            if not rng:
                continue
            if fn['execution_count'] == 0:
                print('%s:%d %s  NEVER ENTERED (%d lines)' % (os.path.basename(path), fn['start_line'], name, len(rng)))
                continue
            if not miss:
                continue
            print('%s:%d %s  %d/%d lines missed' % (os.path.basename(path), fn['start_line'], name, len(miss), len(rng)))
            for n in miss:
                print('    %5d  %s' % (n, src[n - 1].rstrip()[:140]))


def py_report(covdir, filters):
    import coverage
    cov = coverage.Coverage(data_file=os.path.join(covdir, 'py', '.coverage'))
    cov.combine(keep=True)
    cov.save()
    data = cov.get_data()
    import ast
    for path in sorted(data.measured_files()):
        if filters and not any(x in path for x in filters if x.endswith('.py')) and any(x.endswith('.py') for x in filters):
            continue
        try:
            _, stmts, excl, missing, _ = cov.analysis2(path)
        except Exception as e:
            print(path, e)
            continue
        missing = set(missing)
        src = open(path).read()
        lines = src.split('\n')
        tree = ast.parse(src)
        funcs = []
        for node in ast.walk(tree):
            if isinstance(node, (ast.FunctionDef, ast.AsyncFunctionDef)):
                funcs.append((node.lineno, node.end_lineno, node.name))
        funcs.sort()
        nfilters = [x for x in filters if not x.endswith('.py')]
        for a, b, name in funcs:
            if nfilters and not any(x in name for x in nfilters):
                continue
            body = [n for n in stmts if a < n <= b]
            miss = [n for n in body if n in missing]
            if not body or not miss:
                continue
            if len(miss) == len(body):
                print('%s:%d %s  NEVER ENTERED (%d stmts)' % (os.path.basename(path), a, name, len(body)))
                continue
            print('%s:%d %s  %d/%d stmts missed' % (os.path.basename(path), a, name, len(miss), len(body)))
            for n in miss:
                print('    %5d  %s' % (n, lines[n - 1].rstrip()[:140]))


if __name__ == '__main__':
    covdir = sys.argv[1]
    kind = sys.argv[2] if len(sys.argv) > 2 else 'c'
    (c_report if kind == 'c' else py_report)(covdir, sys.argv[3:])
