#!/usr/bin/env python3
"""seed_verify.py <sid> <PID> [--tests 'pytest args'] [--tier quick|thorough] [--checks C01,C02]
Confirms a seeded change (from /var/tmp/seed-<sid>/SEED or /verif/seeded/<sid>) in a fresh
worktree: demo passes without / fails with the change, (optionally) tests pass, and runs
the /verif check(s) against it.  Records the outcome in /verif/seeded/<sid>/meta.json."""
import sys, os, json, subprocess, shutil, time, argparse
ap = argparse.ArgumentParser()
ap.add_argument('sid'); ap.add_argument('pid')
ap.add_argument('--tests', default=None)
ap.add_argument('--tier', default='quick')
ap.add_argument('--checks', default=None)
ap.add_argument('--seeds', default='1')
a = ap.parse_args()
V = '/verif'
src = '/var/tmp/seed-%s/SEED' % a.sid
dst = os.path.join(V, 'seeded', a.sid)
os.makedirs(dst, exist_ok=True)
if os.path.isdir(src):
    for f in ('patch.diff', 'demo.py', 'meta.json'):
        if os.path.exists(os.path.join(src, f)):
            shutil.copy(os.path.join(src, f), os.path.join(dst, f))
wt = '/var/tmp/seedv-%s' % a.sid
subprocess.call(['git', '-C', '/repo', 'worktree', 'remove', '--force', wt], stderr=subprocess.DEVNULL)
subprocess.check_call(['git', '-C', '/repo', 'worktree', 'add', '--detach', wt, 'HEAD', '-q'])
env = dict(os.environ, PYTHONPATH=wt + '/src', PYTHONDONTWRITEBYTECODE='1')
res = {'repo_head': subprocess.check_output(['git', '-C', '/repo', 'rev-parse', '--short', 'HEAD'], text=True).strip()}

def build():
    r = subprocess.run(['/venv/bin/python', 'setup.py', '-q', 'build_ext', '--inplace'], cwd=wt, env=env,
                       capture_output=True, text=True)
    shutil.rmtree(wt + '/build', ignore_errors=True)
    return r.returncode

def demo():
    r = subprocess.run(['/venv/bin/python', os.path.join(dst, 'demo.py')], cwd='/var/tmp', env=env,
                       capture_output=True, text=True, timeout=900)
    return r.returncode, (r.stdout + r.stderr)[-600:]
try:
    res['build_clean'] = build()
    res['demo_without_change'] = demo()
    r = subprocess.run(['git', '-C', wt, 'apply', os.path.join(dst, 'patch.diff')], capture_output=True, text=True)
    res['patch_applies'] = (r.returncode == 0, r.stderr[-300:])
    res['build_changed'] = build()
    res['demo_with_change'] = demo()
    if a.tests:
        t0 = time.time()
        r = subprocess.run('/venv/bin/python -m pytest -q -p no:cacheprovider --timeout=900 ' + a.tests, shell=True,
                           cwd=wt, env=env, capture_output=True, text=True)
        tail = [l for l in r.stdout.splitlines() if ' passed' in l or ' failed' in l or ' error' in l][-3:]
        res['tests'] = {'cmd': a.tests, 'rc': r.returncode, 'summary': tail, 'wall_s': round(time.time() - t0)}
    res['checks'] = {}
    for pid in (a.checks.split(',') if a.checks else [a.pid]):
        for seed in a.seeds.split(','):
            t0 = time.time()
            e2 = dict(os.environ, VERIF_REPO=wt, VERIF_SEED=seed)
            r = subprocess.run(['./v', 'check', pid, a.tier], cwd=V, env=e2, capture_output=True, text=True)
            lines = [l for l in r.stdout.splitlines() if l.startswith(('VIOLATION', '  ', 'HARNESS', pid))]
            res['checks']['%s seed=%s %s' % (pid, seed, a.tier)] = {'rc': r.returncode, 'out': lines[:4],
                                                                   'wall_s': round(time.time() - t0)}
finally:
    subprocess.call(['git', '-C', '/repo', 'worktree', 'remove', '--force', wt])
    for d in os.listdir('/verif/.build'):
        pass
mp = os.path.join(dst, 'meta.json')
try:
    meta = json.load(open(mp))
except Exception:
    meta = {}
meta.setdefault('property', a.pid)
meta.setdefault('lead_verification', []).append(res)
json.dump(meta, open(mp, 'w'), indent=1)
print(json.dumps(res, indent=1))
