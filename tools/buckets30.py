"""dev tool: enumerate C30 failure buckets (collect, do not stop at first)."""
import sys, os, collections
sys.path.insert(0, '/verif')
import hypothesis
from hypothesis import given, settings, HealthCheck
from vlib.core import Ctx
from checks import c30_error_types as m
import tempfile
tmp = tempfile.mkdtemp()
ctx = Ctx('C30', 'quick', 1, 0, 1, tmp, {})
ctx.state = {}
buckets = collections.OrderedDict()
n = int(sys.argv[1]) if len(sys.argv) > 1 else 3000
@hypothesis.seed(int(sys.argv[2]) if len(sys.argv) > 2 else 1)
@settings(max_examples=n, database=None, deadline=None, suppress_health_check=list(HealthCheck))
@given(m.strategy(ctx))
def t(case):
    text, entry = case['text'], case['entry']
    if m.too_deep(text): return
    fs = []
    r = m.run_inline(entry, text)
    if r: fs.append(r)
    if entry == 'typeof' and '\x00' not in text:
        fs += m.run_compiled(text, ctx)
    for b, msg in fs:
        if b not in buckets or len(text) < len(buckets[b][1]):
            buckets[b] = (entry, text, msg, buckets.get(b, (0,0,0,0))[3] + 1 if b in buckets else 1)
        else:
            e = buckets[b]; buckets[b] = (e[0], e[1], e[2], e[3] + 1)
t()
for b, (entry, text, msg, cnt) in buckets.items():
    print('%5d %-60s %s(%r) -> %s' % (cnt, b, entry, text, msg))
