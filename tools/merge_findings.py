#!/usr/bin/env python3
"""merge_findings.py C12 C34 ... : fold the 'known' entries of known_findings.d/<ID>.json into
known_findings.json and delete the proposal file."""
import sys, json, os
V = '/verif'
kf = json.load(open(V + '/known_findings.json'))
for pid in sys.argv[1:]:
    p = '%s/known_findings.d/%s.json' % (V, pid)
    if not os.path.exists(p):
        continue
    for e in json.load(open(p))['findings']:
        if e.get('status') != 'known':
            continue
        kf['findings'] = [x for x in kf['findings'] if not (x.get('status') == 'known' and x['property'] == e['property'] and x.get('tag') == e['tag'])]
        kf['findings'].append(e)
    os.unlink(p)
json.dump(kf, open(V + '/known_findings.json', 'w'), indent=1)
print(sorted(set((x['property'], x['status']) for x in kf['findings'])))
