#!/bin/bash
# usage: tools/thorough_batch.sh SEED C02 C06 ...   (run from the /verif checkout or a vp-run snapshot)
cd "$(dirname "$0")/.."
bash -c "$(python3 -c 'import json;print(json.load(open("MANIFEST.json"))["setup_cmd"])')" >/dev/null 2>&1
seed=$1; shift
pwd
for c in "$@"; do VERIF_SEED=$seed ./v check $c thorough 2>&1 | tail -3; done
