#!/usr/bin/env python3
"""prints the prompt for a seeded-change agent: seed_prompt.py <ID> <PID>; creates the worktree"""
import sys, json, subprocess, os
sid, pid = sys.argv[1], sys.argv[2]
wt = '/var/tmp/seed-%s' % sid
if not os.path.exists(wt):
    subprocess.check_call(['git', '-C', '/repo', 'worktree', 'add', '--detach', wt, 'HEAD', '-q'])
    os.makedirs(wt + '/SEED', exist_ok=True)
for l in open('/verif/properties.jsonl'):
    p = json.loads(l)
    if p['id'] == pid:
        break
t = open('/verif/tools/SEEDED_AGENT_PROMPT.md').read()
print(t.format(WT=wt, ID=sid, PID=pid, TITLE=p['title'], STATEMENT=p['statement'], QUANT=p['quantifier']['text']))
