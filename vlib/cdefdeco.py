"""Token-level decoration of cdef text for the metamorphic check C31.  [agent E]

lines:  list of (text, is_define) as produced by cdefgen.decl_lines() (plus extras)
tokens: tokenize(text, is_define) -> list of token strings; the original text is
        equivalent to ' '.join(tokens).
gaps:   for a line with n tokens there are n+1 gaps (0 = start of line, n = end of
        line); gap_kind() classifies a gap, decorate() renders lines with a plan of
        insertions.

Insertion kinds (all of them are 'white space' for a C compiler):
  'ws'  white-space characters
  'c'   /* one-line comment */
  'cm'  /* comment containing newlines */
  'l'   // comment up to the end of line   (ends the physical line)
  'lc'  // comment continued with backslash-newline
  'bs'  backslash-newline                   (only inside #define lines)
  'ld'  \\n# N "file"\\n  line directive      (never inside #define lines)
"""
import re

_TOK = re.compile(r'''
    "[^"\n]*"                        # extern "Python"
  | [A-Za-z_][A-Za-z_0-9]*
  | 0[xX][0-9a-fA-F]+[uUlL]* | [0-9]+[uUlL]*
  | \.\.\.
  | [^\sA-Za-z_0-9]
''', re.X)
_DEFINE = re.compile(r'^#define\s+([A-Za-z_][A-Za-z_0-9]*)\s+(\S.*?)\s*$')


def tokenize(text, is_define=False):
    if is_define:
        m = _DEFINE.match(text)
        if not m:
            raise ValueError('not a "#define NAME VALUE" line: %r' % text)
        # the value of a cdef #define is one NUMBER token (sign included) or '...'
        return ['#', 'define', m.group(1), m.group(2)]
    toks = _TOK.findall(text)
    if ''.join(toks) != re.sub(r'\s+', '', text):
        raise ValueError('tokenizer lost characters: %r' % text)
    return toks


# ---- gaps

def gap_kind(tokens, is_define, g):
    """'start' | 'end' | 'inner' for ordinary lines;
    'dstart' | 'd#' (between # and define) | 'dname' (define..NAME) | 'dvalue' (NAME..value)
    | 'dend' for #define lines"""
    n = len(tokens)
    if is_define:
        return ['dstart', 'd#', 'dname', 'dvalue', 'dend'][g]
    if g == 0:
        return 'start'
    if g == n:
        return 'end'
    return 'inner'


_ALL_STD = ('typedef int int8_t, uint8_t, int16_t, uint16_t, int32_t, uint32_t, int64_t, uint64_t, size_t, '
            'ssize_t, intptr_t, uintptr_t, wchar_t, _Bool;')
COMMENT_WORDS = ['x', 'int', ' ', '  ', '\t', '*', '/', '//', '/*', '/**', '**', '#define X 1', '#', '...',
                 '[...]', '= ...', '"', "'", '""', ';', '{', '}', '(', ')', ',', '\\', '\\\\', 'extern "Python"',
                 '# 5 "x.h"', '#line 3', 'typedef', 'struct s { int a; };', '__stdcall', 'unsigned', '@', '$',
                 'long comment text here', '\xe9', '*\\', '/ *', '* /',
                 # comments that look like declarations of the standard type names the cdef may use
                 _ALL_STD, _ALL_STD, 'typedef unsigned char uint8_t;', 'as large as a size_t', 'was: uint16_t,',
                 'typedef struct s s_t; size_t;', 'int32_t x, y; wchar_t w;']
FILENAMES = ['f.h', '<built-in>', 'a//b.h', 'a/*b.h', 'x*/y.h', '/*', '*/', '//', 'dir/sub/file.h', ' ', '',
             '#define X 1', '...', "it's", 'a b.h', '/* c */', 'f.h // x', '\\\\', 'extern', '[...]']
WS_CHARS = [' ', '\t', '\n', '  ', ' \t ', '\n\n', '\n \n', '\f', '\v', '\r\n', '\r']
DEFINE_WS = [' ', '\t', '  ', ' \t ', '\t\t']
ODD_WS = ('\f', '\v', '\r\n', '\r')


def _comment_text(a, b, multiline, for_line_comment=False):
    ws = [COMMENT_WORDS[a % len(COMMENT_WORDS)], COMMENT_WORDS[b % len(COMMENT_WORDS)],
          COMMENT_WORDS[(a * 7 + b * 3) % len(COMMENT_WORDS)]]
    k = 1 + (a + b) % 3
    sep = '\n' if multiline else ' '
    txt = sep.join(ws[:k]) if k > 1 or not multiline else ws[0] + '\n' + ws[1]
    if for_line_comment:
        txt = txt.replace('\n', ' ')
        while txt.endswith('\\'):
            txt = txt[:-1] + '|'
    else:
        txt = txt.replace('*/', '* /')
    return txt


def render_insertion(kind, a, b):
    """text of one insertion"""
    if kind == 'ws':
        return WS_CHARS[a % len(WS_CHARS)]
    if kind == 'dws':
        return DEFINE_WS[a % len(DEFINE_WS)]
    if kind == 'c':
        return '/*' + _comment_text(a, b, False) + '*/'
    if kind == 'cm':
        return '/*' + _comment_text(a, b, True) + '*/'
    if kind == 'l':
        return '//' + _comment_text(a, b, False, True) + '\n'
    if kind == 'lc':
        return ('//' + _comment_text(a, b, False, True) + '\\\n'
                + _comment_text(b, a, False, True) + '\n')
    if kind == 'bs':
        return '\\\n' + DEFINE_WS[a % len(DEFINE_WS)] * (b % 2)
    if kind == 'ld':
        indent = ['', '', ' ', '\t', '   '][a % 5]
        mid = [' ', ' ', '  ', '\t'][b % 4]
        flags = ['', '', '', ' 1', ' 2', ' 1 3', ' 3 4'][(a + b) % 7]
        return '\n%s#%s%d%s"%s"%s\n' % (indent, mid, 1 + (a * 31 + b) % 9999, mid,
                                         FILENAMES[(a // 5 + b) % len(FILENAMES)], flags)
    raise ValueError(kind)


ALLOWED = {
    'start':  ('ws', 'c', 'cm', 'l', 'lc', 'ld'),
    'inner':  ('ws', 'c', 'cm', 'l', 'lc', 'ld'),
    'end':    ('ws', 'c', 'cm', 'l', 'lc', 'ld'),
    'dstart': ('ws', 'c', 'cm', 'l', 'lc', 'ld'),
    'd#':     ('dws', 'c', 'cm', 'bs'),
    'dname':  ('dws', 'c', 'cm', 'bs'),
    'dvalue': ('dws', 'c', 'cm', 'bs'),
    'dend':   ('dws', 'c', 'cm', 'bs', 'l'),     # 'l' only as the last thing on the line
}
KINDS = ('ws', 'c', 'cm', 'l', 'lc', 'bs', 'ld')
_SEPARATES = ('ws', 'dws', 'c', 'cm', 'l', 'lc', 'ld')


def effective_kind(kind, gk):
    """map a requested insertion kind to one that is legal C at this kind of gap"""
    if kind in ALLOWED[gk]:
        return kind
    if kind == 'ws':
        return 'dws'
    if kind in ('l', 'lc'):
        return 'c'
    if kind == 'ld':
        return 'c'
    if kind == 'bs':
        return 'ws'
    raise ValueError((kind, gk))


def all_gaps(lines):
    """[(line index, gap index, gap kind)] over all lines, in text order"""
    out = []
    for i, (text, is_define) in enumerate(lines):
        toks = tokenize(text, is_define)
        for g in range(len(toks) + 1):
            out.append((i, g, gap_kind(toks, is_define, g)))
    return out


def decorate(lines, insertions):
    """lines: [(text, is_define)]; insertions: {(line, gap): [(kind, a, b), ...]} with kinds
    already legal for the gap.  -> decorated cdef text"""
    out = []
    for i, (text, is_define) in enumerate(lines):
        toks = tokenize(text, is_define)
        parts = []
        for g in range(len(toks) + 1):
            ins = insertions.get((i, g), [])
            if is_define and g == len(toks):
                # a '//' comment must be the last thing on a #define line
                ins = [x for x in ins if x[0] != 'l'] + [x for x in ins if x[0] == 'l'][:1]
            s = ''.join(render_insertion(k, a, b) for k, a, b in ins)
            if 0 < g < len(toks) and not any(k in _SEPARATES and render_insertion(k, a, b) != ''
                                             for k, a, b in ins):
                s += ' '          # nothing (or only backslash-newline) separates the two tokens
            parts.append(s)
            if g < len(toks):
                parts.append(toks[g])
        line = ''.join(parts)
        if is_define:
            # the directive ends at the first newline that is not spliced away: always add one,
            # unless a '//' comment (which carries its own) closes the line
            last = insertions.get((i, len(toks)), [])
            if not (last and any(x[0] == 'l' for x in last)):
                line += '\n'
        elif not line.endswith('\n'):
            line += '\n'
        out.append(line)
    return ''.join(out)
