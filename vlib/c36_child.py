"""Child process of check C36: executes one plan (JSON on argv[1]) and prints a
JSON report.  Separate process per plan: a broken thread-state logic crashes."""
import sys, os, json, gc, threading, weakref, ctypes


def main():
    plan = json.loads(sys.argv[1])
    drvpath = sys.argv[2]
    # low-level backend API only: no pycparser import, the child starts fast
    import _cffi_backend as B
    BInt = B.new_primitive_type('int')
    BVoid = B.new_void_type()
    BVoidP = B.new_pointer_type(BVoid)
    BCb = B.new_function_type((BInt, BInt), BInt)
    L = B.load_library(drvpath, 0)

    class Drv(object):
        drv_spawn = L.load_function(B.new_function_type((), BInt), 'drv_spawn')
        drv_call_async = L.load_function(B.new_function_type((BInt, BVoidP, BInt, BInt), BVoid), 'drv_call_async')
        drv_call_gil_async = L.load_function(B.new_function_type((BInt, BVoidP, BInt, BInt), BVoid), 'drv_call_gil_async')
        drv_wait = L.load_function(B.new_function_type((BInt,), BInt), 'drv_wait')
        drv_call = L.load_function(B.new_function_type((BInt, BVoidP, BInt, BInt), BInt), 'drv_call')
        drv_exit = L.load_function(B.new_function_type((BInt,), BVoid), 'drv_exit')
        drv_direct = L.load_function(B.new_function_type((BVoidP, BInt, BInt), BInt), 'drv_direct')
    drv = Drv

    class FFI(object):
        @staticmethod
        def callback(sig, fn):
            return B.callback(BCb, fn)
    ffi = FFI
    tl = threading.local()
    report = {'calls': [], 'errors': [], 'dead_after': None}
    sentinels = {}          # foreign thread no -> weakref to the object stored in its thread-local

    class Sentinel(object):
        pass

    def make_cb(k):
        def body(fno, callno):
            # everything observed inside the callback
            ident = threading.get_ident()
            prev = getattr(tl, 'value', None)
            frames_ok = ident in sys._current_frames()
            if prev is None:
                s = Sentinel()
                tl.sentinel = s
                sentinels.setdefault(fno, []).append(weakref.ref(s))
            tl.value = (fno, callno)
            cur = threading.current_thread()
            report['calls'].append({'fno': fno, 'callno': callno, 'ident': ident, 'prev': prev,
                                    'frames_ok': frames_ok, 'cb': k, 'thread_name': cur.name})
            return fno * 1000 + callno * 7 + k
        return body
    cbs = []
    for k in range(plan.get('ncbs', 3)):
        cbs.append(ffi.callback('int(int, int)', make_cb(k)))
    extra = []
    threads = {}            # fno -> driver id
    callno = {}
    pending = {}            # fno -> expected result of async call
    for step in plan['steps']:
        op = step[0]
        if op == 'spawn':
            threads[step[1]] = drv.drv_spawn()
            callno[step[1]] = 0
        elif op == 'gcall':
            # callback entered while the foreign thread's own C code already holds the GIL
            fno, k = step[1], step[2] % len(cbs)
            if fno not in threads or callno.get(fno, 0) == 0:
                continue
            if fno in pending:
                r = drv.drv_wait(threads[fno])
                if r != pending.pop(fno):
                    report['errors'].append('async result mismatch thread %d' % fno)
            expect = fno * 1000 + callno[fno] * 7 + k
            drv.drv_call_gil_async(threads[fno], B.cast(BVoidP, cbs[k]), fno, callno[fno])
            r = drv.drv_wait(threads[fno])
            if r != expect:
                report['errors'].append('gil-held call result %r != %r (thread %d)' % (r, expect, fno))
            callno[fno] += 1
        elif op in ('call', 'acall'):
            fno, k = step[1], step[2] % len(cbs)
            if fno not in threads:
                continue
            if fno in pending:
                r = drv.drv_wait(threads[fno])
                if r != pending.pop(fno):
                    report['errors'].append('async result mismatch thread %d' % fno)
            expect = fno * 1000 + callno[fno] * 7 + k
            if op == 'call':
                r = drv.drv_call(threads[fno], B.cast(BVoidP, cbs[k]), fno, callno[fno])
                if r != expect:
                    report['errors'].append('call result %r != %r (thread %d)' % (r, expect, fno))
            else:
                drv.drv_call_async(threads[fno], B.cast(BVoidP, cbs[k]), fno, callno[fno])
                pending[fno] = expect
            callno[fno] += 1
        elif op == 'exit':
            fno = step[1]
            if fno in threads:
                if fno in pending:
                    r = drv.drv_wait(threads[fno])
                    if r != pending.pop(fno):
                        report['errors'].append('async result mismatch thread %d' % fno)
                drv.drv_exit(threads.pop(fno))
        elif op == 'gc':
            gc.collect()
        elif op == 'pythread':
            # a Python-created thread calling the callback through C in its own thread
            res = []
            def run():
                res.append(drv.drv_direct(B.cast(BVoidP, cbs[0]), 900 + step[1], 0))
            t = threading.Thread(target=run)
            t.start(); t.join()
            if res != [(900 + step[1]) * 1000]:
                report['errors'].append('python-thread direct call result %r' % (res,))
        elif op == 'newcb':
            extra.append(ffi.callback('int(int, int)', make_cb(50 + len(extra))))
            if len(extra) > 3:
                extra.pop(0)
        elif op == 'main_call':
            r = drv.drv_direct(B.cast(BVoidP, cbs[0]), 800, step[1])
            if r != 800 * 1000 + step[1] * 7:
                report['errors'].append('main-thread direct call result %r' % (r,))
    for fno in list(pending):
        r = drv.drv_wait(threads[fno])
        if r != pending.pop(fno):
            report['errors'].append('async result mismatch thread %d' % fno)
    exited = [f for f in callno if f not in threads]
    for fno in list(threads):
        pass
    # leak check: once every exited thread's state is reclaimed (which happens when a new
    # foreign thread makes its first callback), the objects held in their thread-locals die
    if plan.get('leak_check', True) and exited:
        t = drv.drv_spawn()
        drv.drv_call(t, B.cast(BVoidP, cbs[0]), 700, 0)
        gc.collect()
        alive = []
        for fno in exited:
            for w in sentinels.get(fno, []):
                if w() is not None:
                    alive.append(fno)
        report['dead_after'] = {'exited': len(exited), 'alive': sorted(set(alive))}
        drv.drv_exit(t)
    for fno in list(threads):
        drv.drv_exit(threads.pop(fno))
    report['nthreads_enumerate'] = len(threading.enumerate())
    sys.stdout.write('C36REPORT ' + json.dumps(report) + '\n')
    sys.stdout.flush()


if __name__ == '__main__':
    main()
    os._exit(0)
