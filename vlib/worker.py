"""One shard of a Hypothesis-driven check, run in its own process.

usage: python -m vlib.worker ID tier seed shard nshards n_examples out tmpdir
"""
import sys, os, json, time, traceback, importlib, unittest


T_PROCESS_START = time.time()


def load_check(prop_id):
    import glob
    from . import env
    pat = os.path.join(env.VERIF, 'checks', prop_id.lower() + '_*.py')
    fs = glob.glob(pat) + glob.glob(os.path.join(env.VERIF, 'checks', prop_id.lower() + '.py'))
    if not fs:
        raise SystemExit('no check module for %s' % prop_id)
    name = os.path.basename(fs[0])[:-3]
    return importlib.import_module('checks.' + name)


def exc_to_violation(e, case):
    """Uncaught exception inside prop(): see DESIGN 2.2 -- reported as a
    violation ('unexpected exception'), except for HarnessError."""
    from .core import Violation
    tb = traceback.format_exc()
    return Violation('unexpected %s: %s' % (type(e).__name__, str(e)[:300]),
                     traceback=tb[-3000:])


def main(argv):
    prop_id, tier, seed, shard, nshards, n_examples, out, tmp = argv
    seed = int(seed); shard = int(shard); nshards = int(nshards)
    n_examples = int(n_examples)
    from .core import Ctx, Violation, HarnessError, jdump
    from . import findings
    import hypothesis
    from hypothesis import given, settings, HealthCheck, Phase, Verbosity
    mod = load_check(prop_id)
    ctx = Ctx(prop_id, tier, seed, shard, nshards, tmp, findings.known_for(prop_id))
    result = {'violation': None, 'error': None}
    journal = os.path.join(tmp, 'journal-%d.json' % shard) if getattr(mod, 'CRASHY', False) else None
    time_cap = getattr(mod, 'TIME', {}).get(tier)
    shrink_cap = 30.0 if tier == 'quick' else 240.0
    st = {'fail': None, 'first_fail_t': None, 'timed_out': 0}

    try:
        if hasattr(mod, 'setup'):
            ctx.state = mod.setup(ctx)
        strat = mod.strategy(ctx)
        t_start = T_PROCESS_START

        @hypothesis.seed(seed * 1000 + shard)
        @settings(max_examples=n_examples, database=None, deadline=None,
                  derandomize=False, report_multiple_bugs=False,
                  suppress_health_check=list(HealthCheck),
                  phases=[Phase.generate, Phase.shrink],
                  verbosity=Verbosity.quiet,
                  stateful_step_count=getattr(mod, 'STEPS', {}).get(tier, 50))
        @given(strat)
        def test(case):
            now = time.time()
            if st['first_fail_t'] is not None:
                if now - st['first_fail_t'] > shrink_cap:
                    return           # stop shrinking: keep smallest seen so far
            elif time_cap is not None and now - t_start > time_cap:
                # stop the whole shard now (Hypothesis re-raises skip exceptions at once):
                # a wall-clock cap means fewer cases, never a failure
                st['timed_out'] = 1
                raise unittest.SkipTest('time cap')
            if journal:
                with open(journal, 'w') as f:
                    f.write(jdump(case))
            ctx._noted = False
            ev0 = ctx.evaluations
            try:
                mod.prop(case, ctx)
            except Violation as v:
                viol = v
            except HarnessError:
                raise
            except (hypothesis.errors.HypothesisException,
                    hypothesis.errors.UnsatisfiedAssumption):
                raise
            except BaseException as e:
                if isinstance(e, (KeyboardInterrupt, SystemExit, MemoryError)):
                    raise
                viol = exc_to_violation(e, case)
            else:
                if st['first_fail_t'] is None:
                    ctx.cases += 1
                    if not ctx._noted:
                        ctx.note(case, True)
                    ctx.sample(case)
                else:
                    ctx.evaluations = ev0
                return
            if st['first_fail_t'] is None:
                st['first_fail_t'] = time.time()
            st['fail'] = {'case': case, 'message': viol.msg, 'detail': viol.detail}
            raise viol

        try:
            test()
        except unittest.SkipTest:
            pass
        except Violation:
            pass
        except HarnessError:
            raise
        except hypothesis.errors.Flaky as e:
            # the failure did not reproduce on re-execution; still report the
            # recorded failing case (the replay decides)
            if st['fail'] is None:
                raise
        if st['fail'] is not None:
            result['violation'] = st['fail']
        ctx.extra['shards_time_capped'] = st['timed_out']
    except BaseException as e:
        if isinstance(e, KeyboardInterrupt):
            raise
        result['error'] = traceback.format_exc()[-6000:]
    result['ctx'] = ctx.dump()
    with open(out + '.tmp', 'w') as f:
        json.dump(result, f, default=repr)
    os.rename(out + '.tmp', out)
    try:
        if hasattr(mod, 'teardown'):
            mod.teardown(ctx)
    except Exception:
        pass
    sys.stdout.flush()
    os._exit(0)


if __name__ == '__main__':
    main(sys.argv[1:])
