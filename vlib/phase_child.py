"""Parent-side phases (pinned cases of known findings, corpus replay, pre()) run in a
child process of their own, so that code under test that takes the interpreter down
is reported as a violation of the journalled case instead of killing the runner.

usage: python -m vlib.phase_child ID tier seed out tmp
"""
import sys, os, json, glob, traceback


def main(argv):
    prop_id, tier, seed, out, tmp = argv
    seed = int(seed)
    from . import env, findings
    from .core import Ctx, Violation, HarnessError, jdump
    from .worker import load_check, exc_to_violation
    mod = load_check(prop_id)
    known = findings.known_for(prop_id)
    ctx = Ctx(prop_id, tier, seed, -1, 1, tmp, known)
    journal = os.path.join(tmp, 'journal-phase.json')
    res = {'known_lines': [], 'violation': None, 'error': None}

    def note(case, source):
        with open(journal, 'w') as f:
            f.write(jdump({'case': case, 'source': source}))
    ctx.journal = lambda case: note(case, 'pre')

    def run_prop(case):
        try:
            mod.prop(case, ctx)
        except Violation as v:
            return {'message': v.msg, 'detail': v.detail}
        except HarnessError:
            raise
        except Exception as e:
            v = exc_to_violation(e, case)
            return {'message': v.msg, 'detail': v.detail}
        return None
    try:
        if hasattr(mod, 'setup'):
            ctx.state = mod.setup(ctx)
        ctx.replaying_known = True
        for tag, e in sorted(known.items()):
            still = False
            for case in e.get('cases', []):
                note(case, 'known:' + tag)
                if run_prop(case) is not None:
                    still = True
            if still or not e.get('cases'):
                res['known_lines'].append('KNOWN-FINDING: property=%s %s' % (prop_id, e['what']))
        ctx.replaying_known = False
        ctx.evaluations = 0; ctx.keys.clear(); ctx.classes.clear()
        ctx.first_samples = []; ctx.big_samples = []
        corpus = [] if os.environ.get('VERIF_NO_CORPUS') else \
            sorted(glob.glob(os.path.join(env.VERIF, 'corpus', prop_id, '*.json')))
        for p in corpus:
            with open(p) as f:
                payload = json.load(f)
            case = payload['case'] if isinstance(payload, dict) and 'case' in payload else payload
            note(case, 'corpus:' + os.path.basename(p))
            ctx._noted = False
            r = run_prop(case)
            ctx.event('corpus_replayed')
            if r is not None:
                res['violation'] = {'case': case, 'message': r['message'], 'detail': r['detail'],
                                    'source': 'corpus:' + os.path.basename(p)}
                break
        if res['violation'] is None and hasattr(mod, 'pre') and not getattr(mod, 'PRE_IN_PARENT', False):
            note({'phase': 'pre'}, 'pre')
            try:
                mod.pre(ctx)
            except Violation as v:
                res['violation'] = {'case': v.detail.get('case'), 'message': v.msg, 'detail': v.detail,
                                    'source': 'pre'}
    except BaseException as e:
        if isinstance(e, KeyboardInterrupt):
            raise
        res['error'] = traceback.format_exc()[-6000:]
    res['ctx'] = ctx.dump()
    with open(out + '.tmp', 'w') as f:
        json.dump(res, f, default=repr)
    os.rename(out + '.tmp', out)
    try:
        if hasattr(mod, 'teardown'):
            mod.teardown(ctx)
    except Exception:
        pass
    sys.stdout.flush()
    os._exit(0)


if __name__ == '__main__':
    main(sys.argv[1:])
