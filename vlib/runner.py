"""Parent driver:  python -m vlib.runner check ID tier | replay ID path

Runs (1) pinned reproducers of known findings, (2) the committed corpus,
(3) the check's pre() phase (exhaustive enumerations etc.), (4) the sharded
Hypothesis phase, then writes evidence and exits 0 / 1 (VIOLATION) / 2 (harness).
"""
import sys, os, json, time, glob, subprocess, shutil, tempfile, traceback, signal
from . import env, build, findings, evidence
from .core import Ctx, Violation, HarnessError, jdump, h64
from .worker import load_check, exc_to_violation


def save_replay(prop_id, payload):
    d = os.path.join(env.VERIF, 'replays')
    os.makedirs(d, exist_ok=True)
    name = '%s-%016x.json' % (prop_id, h64(jdump(payload.get('case'))))
    p = os.path.join(d, name)
    with open(p, 'w') as f:
        json.dump(payload, f, indent=1, default=repr)
        f.write('\n')
    return os.path.relpath(p, env.VERIF)


def run_prop(mod, case, ctx):
    """-> None or dict(message, detail)"""
    try:
        mod.prop(case, ctx)
    except Violation as v:
        return {'message': v.msg, 'detail': v.detail}
    except HarnessError:
        raise
    except Exception as e:
        v = exc_to_violation(e, case)
        return {'message': v.msg, 'detail': v.detail}
    return None


def report_violation(prop_id, case, message, detail, tier, seed, source):
    path = save_replay(prop_id, {'property': prop_id, 'case': case,
                                 'message': message, 'detail': detail,
                                 'tier': tier, 'seed': seed, 'source': source})
    print('VIOLATION property=%s replay=%s' % (prop_id, path))
    print('  %s' % message[:1000])
    sys.stdout.flush()


def spawn_shards(mod, prop_id, tier, seed, total, tmp, asan):
    per_shard_min = getattr(mod, 'MIN_PER_SHARD', 10)
    nshards = max(1, min(getattr(mod, 'MAX_SHARDS', 16), total // per_shard_min or 1))
    per = (total + nshards - 1) // nshards
    bdir = build.backend(asan=asan)
    cenv = env.child_env(bdir, asan=asan, extra=getattr(mod, 'WORKER_ENV', None))
    procs = []
    for sh in range(nshards):
        out = os.path.join(tmp, 'shard-%d.json' % sh)
        errp = os.path.join(tmp, 'shard-%d.err' % sh)
        p = subprocess.Popen([env.PY, '-m', 'vlib.worker', prop_id, tier, str(seed),
                              str(sh), str(nshards), str(per), out, tmp],
                             cwd=env.VERIF, env=cenv, stdout=open(errp + '.out', 'w'),
                             stderr=open(errp, 'w'))
        procs.append((sh, p, out, errp))
    return procs


def collect(procs, tmp):
    """Wait for shards; stop everything at the first violation.
    -> (list of result dicts, violation or None, error or None)"""
    results, violation, error = [], None, None
    pending = list(procs)
    while pending:
        time.sleep(0.05)
        for item in list(pending):
            sh, p, out, errp = item
            rc = p.poll()
            if rc is None:
                continue
            pending.remove(item)
            if os.path.exists(out):
                with open(out) as f:
                    r = json.load(f)
                results.append(r)
                if r.get('violation') and violation is None:
                    violation = r['violation']
                if r.get('error') and error is None:
                    error = 'shard %d: %s' % (sh, r['error'])
            else:
                errtxt = ''
                try:
                    with open(errp) as f:
                        errtxt = f.read()[-4000:]
                except OSError:
                    pass
                jp = os.path.join(tmp, 'journal-%d.json' % sh)
                if os.path.exists(jp) and (rc < 0 or 'AddressSanitizer' in errtxt or rc in (134, 139)):
                    with open(jp) as f:
                        case = json.load(f)
                    if violation is None:
                        violation = {'case': case, 'detail': {'stderr': errtxt, 'returncode': rc},
                                     'message': 'worker process died (rc=%s) while executing this case%s' % (
                                         rc, ': AddressSanitizer report' if 'AddressSanitizer' in errtxt else '')}
                elif error is None:
                    error = 'shard %d died rc=%s without result\n%s' % (sh, rc, errtxt)
        if violation is not None or error is not None:
            for sh, p, out, errp in pending:
                try:
                    p.kill()
                except OSError:
                    pass
            for sh, p, out, errp in pending:
                p.wait()
            pending = []
    return results, violation, error


def check(prop_id, tier, seed):
    t0 = time.time()
    mod = load_check(prop_id)
    known = findings.known_for(prop_id)
    tmp = tempfile.mkdtemp(prefix='verif-%s-' % prop_id)
    ctx = Ctx(prop_id, tier, seed, -1, 1, tmp, known)
    nviol = 0
    try:
        in_parent = getattr(mod, 'PRE_IN_PARENT', False)
        if in_parent and hasattr(mod, 'setup'):
            ctx.state = mod.setup(ctx)
        # (1)-(3) pinned reproducers of known findings, committed corpus, pre(): in a child
        # process, so that a crash of the code under test is a violation, not a dead runner
        out = os.path.join(tmp, 'phase.json')
        errp = os.path.join(tmp, 'phase.err')
        cenv = env.child_env(build.backend(False), extra=getattr(mod, 'WORKER_ENV', None))
        with open(errp, 'w') as ef, open(errp + '.out', 'w') as of:
            pc = subprocess.run([env.PY, '-m', 'vlib.phase_child', prop_id, tier, str(seed), out, tmp],
                                cwd=env.VERIF, env=cenv, stdout=of, stderr=ef)
        if os.path.exists(out):
            with open(out) as f:
                pr = json.load(f)
            for line in pr['known_lines']:
                print(line)
            ctx.merge(pr['ctx'])
            if pr.get('error'):
                raise HarnessError('phase child: ' + pr['error'])
            if pr.get('violation'):
                v = pr['violation']
                report_violation(prop_id, v['case'], v['message'], v.get('detail'), tier, seed, v['source'])
                nviol += 1
        else:
            with open(errp) as f:
                errtxt = f.read()[-4000:]
            jp = os.path.join(tmp, 'journal-phase.json')
            if os.path.exists(jp) and (pc.returncode < 0 or pc.returncode in (134, 139) or 'AddressSanitizer' in errtxt):
                with open(jp) as f:
                    j = json.load(f)
                report_violation(prop_id, j['case'], 'process died (rc=%s) while executing this case (%s)' % (
                    pc.returncode, j['source']), {'stderr': errtxt, 'returncode': pc.returncode}, tier, seed, j['source'])
                nviol += 1
            else:
                raise HarnessError('phase child died rc=%s without result\n%s' % (pc.returncode, errtxt))
        if nviol == 0 and in_parent and hasattr(mod, 'pre'):
            try:
                mod.pre(ctx)
            except Violation as v:
                report_violation(prop_id, v.detail.get('case'), v.msg, v.detail, tier, seed, 'pre')
                nviol += 1
        # (4) sharded hypothesis phase
        if nviol == 0 and hasattr(mod, 'strategy'):
            total = mod.BUDGET[tier]
            asan = tier in getattr(mod, 'ASAN_TIERS', ())
            procs = spawn_shards(mod, prop_id, tier, seed, total, tmp, asan)
            results, violation, error = collect(procs, tmp)
            for r in results:
                ctx.merge(r['ctx'])
            if violation is not None:
                report_violation(prop_id, violation['case'], violation['message'],
                                 violation.get('detail'), tier, seed, 'generated')
                nviol += 1
            elif error is not None:
                raise HarnessError(error)
        if hasattr(mod, 'post') and nviol == 0:
            try:
                mod.post(ctx)
            except Violation as v:
                report_violation(prop_id, v.detail.get('case'), v.msg, v.detail, tier, seed, 'post')
                nviol += 1
        evidence.write(mod, ctx, tier, seed, time.time() - t0, nviol)
        print('%s %s seed=%d: evaluations=%d distinct_nontrivial=%d cases=%d wall=%.1fs %s' % (
            prop_id, tier, seed, ctx.evaluations, len(ctx.keys), ctx.cases,
            time.time() - t0, 'VIOLATED' if nviol else 'ok'))
        return 1 if nviol else 0
    finally:
        try:
            if hasattr(mod, 'teardown'):
                mod.teardown(ctx)
        except Exception:
            pass
        shutil.rmtree(tmp, ignore_errors=True)


def replay(prop_id, path):
    mod = load_check(prop_id)
    with open(path) as f:
        payload = json.load(f)
    case = payload['case'] if isinstance(payload, dict) and 'case' in payload else payload
    tmp = tempfile.mkdtemp(prefix='verif-%s-' % prop_id)
    try:
        ctx = Ctx(prop_id, 'quick', 0, -1, 1, tmp, {})
        ctx.replaying_known = True
        if hasattr(mod, 'setup'):
            ctx.state = mod.setup(ctx)
        r = run_prop(mod, case, ctx)
        if r is None:
            print('replay: property held on this case')
            return 0
        print('VIOLATION property=%s replay=%s' % (prop_id, path))
        print('  ' + r['message'])
        for k, v in (r['detail'] or {}).items():
            print('  %s: %s' % (k, str(v)[:2000]))
        return 1
    finally:
        shutil.rmtree(tmp, ignore_errors=True)


def main(argv):
    try:
        if argv[0] == 'check':
            prop_id = argv[1]
            tier = os.environ.get('VERIF_TIER') or (argv[2] if len(argv) > 2 else 'quick')
            if tier not in ('quick', 'thorough'):
                tier = 'quick'
            seed = int(os.environ.get('VERIF_SEED') or 1)
            return check(prop_id, tier, seed)
        elif argv[0] == 'replay':
            return replay(argv[1], argv[2])
        else:
            print('usage: v check ID [quick|thorough] | v replay ID path')
            return 2
    except HarnessError as e:
        print('HARNESS-ERROR: %s' % e)
        return 2
    except build.BuildError as e:
        print('HARNESS-ERROR (build): %s' % e)
        return 2
    except Exception:
        print('HARNESS-ERROR: ' + traceback.format_exc())
        return 2


if __name__ == '__main__':
    sys.exit(main(sys.argv[1:]))
