"""Ctx / Violation / counters shared by parent runner and shard workers."""
import json, hashlib, os, collections, time


class Violation(Exception):
    def __init__(self, msg, **detail):
        Exception.__init__(self, msg)
        self.msg = msg
        self.detail = detail


class HarnessError(Exception):
    """Something wrong with the checking machinery (never a violation)."""


def jdump(x):
    return json.dumps(x, sort_keys=True, default=repr, ensure_ascii=True)


def h64(x):
    if not isinstance(x, (str, bytes)):
        x = jdump(x)
    if isinstance(x, str):
        x = x.encode('utf-8', 'surrogatepass')
    return int.from_bytes(hashlib.blake2b(x, digest_size=8).digest(), 'big')


class Ctx(object):
    MAX_KEYS = 3000000

    def __init__(self, prop_id, tier, seed, shard=-1, nshards=1, tmp=None,
                 known=None):
        self.prop_id = prop_id
        self.tier = tier
        self.seed = seed
        self.shard = shard
        self.nshards = nshards
        self.tmp = tmp
        self.known = dict(known or {})       # tag -> finding entry (status known)
        self.replaying_known = False
        self.evaluations = 0
        self.cases = 0
        self.keys = set()
        self.classes = collections.Counter()
        self.skipped_known = collections.Counter()
        self.first_samples = []
        self.big_samples = []                # (size, text)
        self.extra = {}                      # free-form coverage additions
        self._noted = False
        self.state = None                    # per-worker state from setup()
        self.t0 = time.time()

    # ---- counting ----
    def note(self, key, nontrivial=True, cls=None, n=1):
        self._noted = True
        self.evaluations += n
        if nontrivial and len(self.keys) < self.MAX_KEYS:
            self.keys.add(h64(key))
        if cls is not None:
            if isinstance(cls, str):
                self.classes[cls] += n
            else:
                for c in cls:
                    self.classes[c] += n

    def event(self, cls, n=1):
        self.classes[cls] += n

    def sample(self, case):
        s = jdump(case)
        if len(s) > 3000:
            s = s[:3000] + '...<truncated %d chars>' % (len(s) - 3000)
        if len(self.first_samples) < 4:
            self.first_samples.append(s)
            return
        self.big_samples.append((len(s), s))
        self.big_samples.sort(key=lambda t: -t[0])
        del self.big_samples[3:]

    # ---- known findings ----
    def skip_known(self, tag):
        """True iff `tag` names a listed known finding: the caller then leaves
        that sub-case out (it is counted), so that the search goes on behind it.
        During the replay of pinned reproducers nothing is skipped."""
        if self.replaying_known:
            return False
        if tag in self.known:
            self.skipped_known[tag] += 1
            return True
        return False

    def fail(self, msg, **detail):
        raise Violation(msg, **detail)

    # ---- (de)serialisation of counters for shard -> parent ----
    def dump(self):
        return {
            'evaluations': self.evaluations, 'cases': self.cases,
            'keys': list(self.keys), 'classes': dict(self.classes),
            'skipped_known': dict(self.skipped_known),
            'first_samples': self.first_samples,
            'big_samples': self.big_samples, 'extra': self.extra,
        }

    def merge(self, d):
        self.evaluations += d['evaluations']
        self.cases += d['cases']
        self.keys.update(d['keys'])
        self.classes.update(d['classes'])
        self.skipped_known.update(d['skipped_known'])
        for s in d['first_samples']:
            if len(self.first_samples) < 4:
                self.first_samples.append(s)
        self.big_samples += [tuple(x) for x in d['big_samples']]
        self.big_samples.sort(key=lambda t: -t[0])
        del self.big_samples[3:]
        for k, v in d.get('extra', {}).items():
            if isinstance(v, (int, float)) and isinstance(self.extra.get(k, 0), (int, float)):
                self.extra[k] = self.extra.get(k, 0) + v
            else:
                self.extra.setdefault(k, v)

    def samples(self):
        out = []
        for s in self.first_samples + [s for _, s in self.big_samples]:
            try:
                out.append(json.loads(s))
            except ValueError:
                out.append(s)
        return out
