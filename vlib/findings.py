"""known_findings.json: committed list of genuine defects (known / fixed)."""
import json, os
from . import env

PATH = os.path.join(env.VERIF, 'known_findings.json')


def load():
    out = []
    if os.path.exists(PATH):
        with open(PATH) as f:
            out += json.load(f)['findings']
    # per-property proposal files (merged into known_findings.json before release)
    import glob
    for p in sorted(glob.glob(os.path.join(env.VERIF, 'known_findings.d', '*.json'))):
        with open(p) as f:
            out += json.load(f)['findings']
    return out


def known_for(prop_id):
    """tag -> entry for entries with status 'known' of this property."""
    return {e['tag']: e for e in load()
            if e['property'] == prop_id and e['status'] == 'known'}
