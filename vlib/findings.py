"""known_findings.json: committed list of genuine defects (known / fixed)."""
import json, os
from . import env

PATH = os.path.join(env.VERIF, 'known_findings.json')


def load():
    if not os.path.exists(PATH):
        return []
    with open(PATH) as f:
        return json.load(f)['findings']


def known_for(prop_id):
    """tag -> entry for entries with status 'known' of this property."""
    return {e['tag']: e for e in load()
            if e['property'] == prop_id and e['status'] == 'known'}
