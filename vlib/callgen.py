"""callgen: random C function signatures with deterministic bodies (C13, C14).

Everything is a JSON-serialisable list/dict so that a Hypothesis case can be
replayed from its JSON form.

types
  ['i', cname]            integer primitive (incl. _Bool)
  ['c', cname]            char, wchar_t, char16_t, char32_t
  ['f', cname]            float, double
  ['s', k]                struct s<k> by value
  ['p', elem, n, mode]    pointer parameter; the body touches elements 0..n-1;
                          mode 'r' (read) or 'w' (read, then write);
                          elem = scalar type, ['s', k] or ['v'] (void, read as bytes)
  ['fp', h]               pointer to helper signature h (see HELPER_SIGS)
  ['v']                   void (result only)
struct field types: scalar types, ['s', j] with j < k, ['a', n, scalar],
  ['q', cname] (pointer field, never dereferenced)

module spec
  {'structs': [[fieldtype, ...], ...],
   'funcs': [{'ret': T, 'args': [T, ...], 'va': bool, 'errno': [mode, value],
              'retsel': int}, ...]}
  A variadic function gets an extra last fixed parameter 'const char *fmt'
  describing the variadic part actually passed (one letter per argument).

argument values (built separately for every FFI, see build_value)
  ['int', v] ['bool', b] ['fb', bits64] (python float) ['bytes', hex] ['str', [codepoints]]
  ['none'] ['NULL'] ['cast', ctype, v|['fb', bits]] ['arr', elem_cname, [init, ...]]
  ['list', [v, ...]] ['tuple', [v, ...]] ['dict', [[name, v], ...]]
  ['struct', k, init] (cdata struct by value)  ['structptr', k, init]
  ['fn', name] (lib.<name>)  ['fnaddr', name] (ffi.addressof(lib, name))
"""
import struct as _struct
from hypothesis import strategies as st
from . import gen

# name -> (bits, signed)
INTS = {
    'signed char': (8, True), 'unsigned char': (8, False), 'short': (16, True),
    'unsigned short': (16, False), 'int': (32, True), 'unsigned int': (32, False),
    'long': (64, True), 'unsigned long': (64, False), 'long long': (64, True),
    'unsigned long long': (64, False), '_Bool': (1, False),
    'int8_t': (8, True), 'uint8_t': (8, False), 'int16_t': (16, True), 'uint16_t': (16, False),
    'int32_t': (32, True), 'uint32_t': (32, False), 'int64_t': (64, True), 'uint64_t': (64, False),
    'size_t': (64, False), 'ssize_t': (64, True), 'intptr_t': (64, True), 'uintptr_t': (64, False),
}
INT_NAMES = sorted(INTS)
# weights: the base C types more often than the stdint aliases
INT_PICK = ([n for n in INT_NAMES if '_t' not in n] * 3) + [n for n in INT_NAMES if '_t' in n]
CHARS = {'char': 1, 'wchar_t': 4, 'char16_t': 2, 'char32_t': 4}
CHAR_NAMES = ['char', 'wchar_t', 'char16_t', 'char32_t']
FLOATS = {'float': 4, 'double': 8}

# helper function-pointer signatures present in every module: (ret, args, [function names])
HELPER_SIGS = [
    ('int', ['int'], ['h0a', 'h0b']),
    ('long', ['long', 'short'], ['h1a', 'h1b']),
    ('double', ['double', 'float'], ['h2a', 'h2b']),
]

PRELUDE = r'''
#include <stddef.h>
#include <stdint.h>
#include <string.h>
#include <errno.h>
#include <stdarg.h>
#include <sys/types.h>
#include <wchar.h>
#include <uchar.h>
typedef unsigned long long cg_u64;
static cg_u64 cg_mix(cg_u64 acc, cg_u64 v) { acc ^= v; acc *= 0x100000001b3ULL; acc ^= acc >> 29; return acc + 0x9e3779b97f4a7c15ULL; }
static cg_u64 cg_mixd(cg_u64 acc, double d) { cg_u64 b; memcpy(&b, &d, 8); return cg_mix(acc, b); }
static double cg_dbl(cg_u64 v) { return (double)((long long)(v % 4001) - 2000) / 8; }
static float cg_f32(unsigned int b) { float f; memcpy(&f, &b, 4); return f; }
static double cg_f64(cg_u64 b) { double d; memcpy(&d, &b, 8); return d; }
int h0a(int x) { return x * 3 + 1; }
int h0b(int x) { return 7 - x; }
long h1a(long x, short y) { return x * 5 + y; }
long h1b(long x, short y) { return x - 2 * (long)y; }
double h2a(double x, float y) { return x / 2 + y; }
double h2b(double x, float y) { return x * y - 1; }
'''
HELPER_CDEF = '''
int h0a(int); int h0b(int);
long h1a(long, short); long h1b(long, short);
double h2a(double, float); double h2b(double, float);
'''


def allow_big_examples(factor=8):
    """One Hypothesis example here is a whole module plus dozens of call tuples;
    with the default entropy cap (8 KiB) most generation attempts overrun and
    are thrown away.  Raises the cap (an internal knob; silently skipped if the
    installed Hypothesis has no such attribute)."""
    try:
        from hypothesis.internal.conjecture import engine
        if getattr(engine, '_callgen_orig_buffer_size', None) is None:
            engine._callgen_orig_buffer_size = engine.BUFFER_SIZE
        engine.BUFFER_SIZE = engine._callgen_orig_buffer_size * factor
    except Exception:
        pass


def int_range(name):
    bits, signed = INTS[name]
    return gen.int_range(bits, signed)


def is_scalar(t):
    return t[0] in ('i', 'c', 'f')


def cname(t):
    k = t[0]
    if k in ('i', 'c', 'f', 'q'):
        return t[1] if k != 'q' else t[1] + ' *'
    if k == 's':
        return 'struct s%d' % t[1]
    if k == 'v':
        return 'void'
    if k == 'p':
        if t[1][0] == 'a':           # pointer to array: T(*)[N]
            return '%s(*)[%d]' % (cname(t[1][2]), t[1][1])
        return cname(t[1]) + ' *'
    if k == 'a':
        return '%s[%d]' % (cname(t[2]), t[1])
    if k == 'fp':
        r, a, _ = HELPER_SIGS[t[1]]
        return '%s(*)(%s)' % (r, ', '.join(a))
    raise ValueError(t)


def declare(t, name):
    if t[0] == 'fp':
        r, a, _ = HELPER_SIGS[t[1]]
        return '%s (*%s)(%s)' % (r, name, ', '.join(a))
    if t[0] == 'p' and t[1][0] == 'a':
        return '%s (*%s)[%d]' % (cname(t[1][2]), name, t[1][1])
    if t[0] == 'a':
        dims, it = '', t
        while it[0] == 'a':          # arrays of arrays: T name[n][m]
            dims += '[%d]' % it[1]
            it = it[2]
        return '%s %s%s' % (cname(it), name, dims)
    return ('%s %s' % (cname(t), name)).rstrip()


def sizeof_scalar(t):
    if t[0] == 'i':
        return max(1, INTS[t[1]][0] // 8)
    if t[0] == 'c':
        return CHARS[t[1]]
    if t[0] == 'f':
        return FLOATS[t[1]]
    raise ValueError(t)


# ------------------------------------------------------------------ strategies

def scalar_types():
    return _SCALAR_TYPES


def _make_scalar_types():
    return st.one_of(
        st.sampled_from(INT_PICK).map(lambda n: ['i', n]),
        st.sampled_from(INT_PICK).map(lambda n: ['i', n]),
        st.sampled_from(CHAR_NAMES).map(lambda n: ['c', n]),
        st.sampled_from(['float', 'double']).map(lambda n: ['f', n]),
    )


_SCALAR_TYPES = _make_scalar_types()
_ptcache = {}


def param_types(nstructs, allow_fp=True):
    r = _ptcache.get((nstructs, allow_fp))
    if r is None:
        r = _ptcache[(nstructs, allow_fp)] = _param_types(nstructs, allow_fp)
    return r


@st.composite
def struct_defs(draw, k):
    """field list of struct s<k>; may nest s<j>, j < k"""
    fields = []
    if draw(st.integers(0, 3)) == 0:
        # "register-class" structs: at most 16 bytes, float/double/int scalars and 1-D / 2-D
        # arrays of them -- the shapes for which the x86-64 ABI mixes SSE and INTEGER eightbytes
        budget = 16
        for _ in range(draw(st.integers(1, 3))):
            it = draw(st.sampled_from([['f', 'float'], ['f', 'float'], ['f', 'double'], ['i', 'int'],
                                       ['i', 'short'], ['i', 'signed char'], ['i', 'long']]))
            size = FLOATS[it[1]] if it[0] == 'f' else INTS[it[1]][0] // 8
            shape = draw(st.sampled_from(['scalar', '1d', '2d', '2d']))
            cap = budget // size
            if cap < 1:
                break
            if shape == 'scalar' or cap < 2:
                fields.append(it)
                budget -= size
            elif shape == '1d':
                n = draw(st.integers(1, min(4, cap)))
                fields.append(['a', n, it])
                budget -= n * size
            else:
                n1 = draw(st.integers(1, min(3, cap)))
                n2 = draw(st.integers(1, min(3, max(1, cap // n1))))
                fields.append(['a', n1, ['a', n2, it]])
                budget -= n1 * n2 * size
            budget -= budget % 4      # crude allowance for alignment padding
        if fields:
            return fields
    for _ in range(draw(st.integers(1, 6))):
        c = draw(st.integers(0, 9))
        if c <= 5:
            fields.append(draw(scalar_types()))
        elif c == 6 and k > 0:
            fields.append(['s', draw(st.integers(0, k - 1))])
        elif c == 7 and draw(st.booleans()):
            # two-dimensional array (small: structs of <= 16 bytes travel in registers)
            fields.append(['a', draw(st.integers(1, 3)), ['a', draw(st.integers(1, 3)), draw(scalar_types())]])
        elif c in (7, 8):
            fields.append(['a', draw(st.integers(1, 4)), draw(scalar_types())])
        else:
            fields.append(['q', draw(st.sampled_from(['void', 'int', 'char', 'double']))])
    return fields


_NS = [1, 1, 2, 3, 3, 5, 40, 130, 170]


@st.composite
def _param_types(draw, nstructs, allow_fp=True):
    c = draw(st.integers(0, 13))
    if c <= 6:
        return draw(scalar_types())
    if c <= 8 and nstructs:
        return ['s', draw(st.integers(0, nstructs - 1))]
    if c <= 11:
        e = draw(st.integers(0, 7))
        if e <= 4:
            elem = draw(scalar_types())
        elif e == 5:
            elem = ['v']
        elif nstructs:
            elem = ['s', draw(st.integers(0, nstructs - 1))]
        else:
            elem = draw(scalar_types())
        n = draw(st.sampled_from(_NS))
        mode = draw(st.sampled_from(['r', 'w']))
        if allow_fp and is_scalar(elem) and draw(st.integers(0, 3)) == 0:
            # pointer to array parameter 'T a[][N]' (rows may be given as ragged lists)
            return ['p', ['a', draw(st.integers(2, 5)), elem], min(n, 5), mode]
        return ['p', elem, n, mode]
    if c == 12 and allow_fp:
        return ['fp', draw(st.integers(0, len(HELPER_SIGS) - 1))]
    return draw(scalar_types())


@st.composite
def func_defs(draw, nstructs, allow_va=True, allow_fp=True, max_args=6, many_args=False):
    nargs = draw(st.integers(0, max_args))
    if many_args and draw(st.integers(0, 5)) == 0:
        nargs = draw(st.integers(7, 13))          # more than the registers hold: the rest goes on the stack
    args = [draw(param_types(nstructs, allow_fp)) for _ in range(nargs)]
    va = allow_va and draw(st.integers(0, 6)) == 6
    c = draw(st.integers(0, 9))
    if c == 9:
        ret = ['v']
    elif c <= 5:
        ret = draw(scalar_types())
    elif c <= 7 and nstructs:
        ret = ['s', draw(st.integers(0, nstructs - 1))]
    elif c == 8:
        ptrs = [a for a in args if a[0] == 'p' and a[1][0] != 'a']     # (no functions returning pointers to arrays)
        if ptrs:
            ret = ['p', draw(st.sampled_from(ptrs))[1]]
        else:
            ret = ['p', draw(scalar_types())]
    else:
        ret = draw(scalar_types())
    if va and not args:
        args = [draw(scalar_types())]
    errno = [draw(st.integers(0, 2)), draw(st.sampled_from([0, 1, 2, 11, 34, 4095, 65536, 2**31 - 1, -1, -2**31]))]
    return {'ret': ret, 'args': args, 'va': va, 'errno': errno, 'retsel': draw(st.integers(0, 7))}


@st.composite
def modules(draw, min_funcs=8, max_funcs=20, allow_va=True, allow_fp=True, max_structs=3, many_args=False):
    ns = draw(st.integers(0, max_structs))
    structs = [draw(struct_defs(k)) for k in range(ns)]
    funcs = [draw(func_defs(ns, allow_va, allow_fp, many_args=many_args))
             for _ in range(draw(st.integers(min_funcs, max_funcs)))]
    return {'structs': structs, 'funcs': funcs}


# ------------------------------------------------------------------ rendering

def struct_decl(k, fields):
    return 'struct s%d { %s };' % (k, ' '.join(declare(t, 'm%d' % j) + ';' for j, t in enumerate(fields)))


def func_params(f):
    ps = [t if t[0] != 'p' else ['p', t[1]] for t in f['args']]
    return ps


def func_proto(i, f, names=False):
    parts = []
    for j, t in enumerate(f['args']):
        parts.append(declare(t if t[0] != 'p' else ['p', t[1]], 'a%d' % j if names else ''))
    if f.get('va'):
        parts.append('const char *fmt' if names else 'const char *')
        parts.append('...')
    return '%s(%s)' % (declare(f['ret'] if f['ret'][0] != 'p' else ['p', f['ret'][1]], 'f%d' % i),
                       ', '.join(parts) or 'void')


def cdef_text(mod):
    out = [struct_decl(k, fs) for k, fs in enumerate(mod['structs'])]
    out.append(HELPER_CDEF)
    for i, f in enumerate(mod['funcs']):
        out.append(func_proto(i, f) + ';')
    return '\n'.join(out) + '\n'


def _fold_scalar(t, expr):
    """C statement folding scalar expression into acc"""
    if t[0] == 'f':
        return 'acc = cg_mixd(acc, (double)(%s));' % expr
    return 'acc = cg_mix(acc, (cg_u64)(long long)(%s));' % expr


def _gen_scalar(t, seed, ret=False):
    """C expression of type t computed from the cg_u64 expression seed (ret: as a function result,
    where 32-bit character types also take values that are not code points, bit 31 included: every call
    path has to refuse those the same way)"""
    if t[0] == 'f':
        return '(%s)cg_dbl(%s)' % (t[1], seed)
    if t[0] == 'c':
        if t[1] == 'char':
            return '(char)(%s)' % seed
        if t[1] == 'char16_t':
            return '(char16_t)((%s) %% 0x10000)' % seed
        if ret:
            return '((%s) %% 5 == 0 ? (%s)((%s) >> 7) : (%s)((%s) %% 0x110000))' % (seed, t[1], seed, t[1], seed)
        return '(%s)((%s) %% 0x110000)' % (t[1], seed)
    if t[1] == '_Bool':
        return '(_Bool)(((%s) >> 3) & 1)' % seed
    return '(%s)(%s)' % (t[1], seed)


def struct_helpers(k, fields):
    """fold_s<k> / fill_s<k>"""
    fo = ['static cg_u64 fold_s%d(cg_u64 acc, const struct s%d *p) { int i; (void)i;' % (k, k)]
    fi = ['static void fill_s%d(struct s%d *p, cg_u64 v) { int i; (void)i;' % (k, k)]
    for j, t in enumerate(fields):
        m = 'p->m%d' % j
        if is_scalar(t):
            fo.append(_fold_scalar(t, m))
            fi.append('%s = %s;' % (m, _gen_scalar(t, 'cg_mix(v, %d)' % j)))
        elif t[0] == 's':
            fo.append('acc = fold_s%d(acc, &%s);' % (t[1], m))
            fi.append('fill_s%d(&%s, cg_mix(v, %d));' % (t[1], m, j))
        elif t[0] == 'a' and t[2][0] == 'a':
            # two-dimensional array field
            n1, n2, it = t[1], t[2][1], t[2][2]
            fo.append('for (i = 0; i < %d; i++) { %s }' % (
                n1 * n2, _fold_scalar(it, '%s[i / %d][i %% %d]' % (m, n2, n2))))
            fi.append('for (i = 0; i < %d; i++) %s[i / %d][i %% %d] = %s;' % (
                n1 * n2, m, n2, n2, _gen_scalar(it, 'cg_mix(v, %d + i)' % (100 * j + 100))))
        elif t[0] == 'a':
            fo.append('for (i = 0; i < %d; i++) { %s }' % (t[1], _fold_scalar(t[2], m + '[i]')))
            fi.append('for (i = 0; i < %d; i++) %s[i] = %s;' % (
                t[1], m, _gen_scalar(t[2], 'cg_mix(v, %d + i)' % (100 * j + 100))))
        elif t[0] == 'q':
            fo.append('acc = cg_mix(acc, (cg_u64)(uintptr_t)%s);' % m)
            fi.append('%s = (%s *)(uintptr_t)(cg_mix(v, %d) & 0xffff0);' % (m, t[1], j))
        else:
            raise ValueError(t)
    fo.append('return acc; }')
    fi.append('}')
    return ' '.join(fo) + '\n' + ' '.join(fi) + '\n'


def va_letter(ctype_name, structs_n=0):
    """fmt letter for a cdata of primitive type ctype_name in the variadic part"""
    if ctype_name in FLOATS:
        return 'd'
    if ctype_name in CHARS:
        return 'i'
    bits, signed = INTS[ctype_name]
    if bits < 32:
        return 'i'
    if bits == 32:
        return 'i' if signed else 'u'
    return 'l' if signed else 'L'


def func_body(i, f, nstructs):
    b = ['{ cg_u64 acc = %dULL; int i; (void)i;' % (1000003 * (i + 1))]
    for j, t in enumerate(f['args']):
        a = 'a%d' % j
        if is_scalar(t):
            b.append(_fold_scalar(t, a))
        elif t[0] == 's':
            b.append('acc = fold_s%d(acc, &%s);' % (t[1], a))
        elif t[0] == 'fp':
            r, args, _ = HELPER_SIGS[t[1]]
            call = '%s(%s)' % (a, ', '.join(str(3 + 2 * q + j) for q in range(len(args))))
            fold = _fold_scalar(['f', r] if r == 'double' else ['i', r], call)
            b.append('if (%s) { %s } else acc = cg_mix(acc, 0xbeef);' % (a, fold))
        elif t[0] == 'p':
            elem, n = t[1], t[2]
            if elem[0] == 'v':
                inner = _fold_scalar(['i', 'unsigned char'], '((const unsigned char *)%s)[i]' % a)
            elif elem[0] == 's':
                inner = 'acc = fold_s%d(acc, &%s[i]);' % (elem[1], a)
            elif elem[0] == 'a':
                inner = '{ int k_; for (k_ = 0; k_ < %d; k_++) { %s } }' % (
                    elem[1], _fold_scalar(elem[2], a + '[i][k_]'))
            else:
                inner = _fold_scalar(elem, a + '[i]')
            b.append('if (%s) { for (i = 0; i < %d; i++) { %s } } else acc = cg_mix(acc, 0xdead);' % (a, n, inner))
    if f.get('va'):
        b.append('{ va_list ap; const char *c; va_start(ap, fmt); for (c = fmt; *c; c++) { switch (*c) {')
        b.append("case 'i': acc = cg_mix(acc, (cg_u64)(long long)va_arg(ap, int)); break;")
        b.append("case 'u': acc = cg_mix(acc, (cg_u64)va_arg(ap, unsigned int)); break;")
        b.append("case 'l': acc = cg_mix(acc, (cg_u64)va_arg(ap, long long)); break;")
        b.append("case 'L': acc = cg_mix(acc, (cg_u64)va_arg(ap, unsigned long long)); break;")
        b.append("case 'd': acc = cg_mixd(acc, va_arg(ap, double)); break;")
        b.append("case 'p': { unsigned char *q = va_arg(ap, void *); acc = cg_mix(acc, q ? 1 + q[0] : 0); break; }")
        for k in range(nstructs):
            b.append("case '%s': { struct s%d sv = va_arg(ap, struct s%d); acc = fold_s%d(acc, &sv); break; }"
                     % (chr(ord('A') + k), k, k, k))
        b.append('} } va_end(ap); }')
    # writes through 'w' pointers
    for j, t in enumerate(f['args']):
        if t[0] == 'p' and t[3] == 'w':
            a, elem, n = 'a%d' % j, t[1], t[2]
            if elem[0] == 'v':
                st_ = '((unsigned char *)%s)[i] = (unsigned char)cg_mix(acc, i + %d);' % (a, j)
            elif elem[0] == 's':
                st_ = 'fill_s%d(&%s[i], cg_mix(acc, i + %d));' % (elem[1], a, j)
            elif elem[0] == 'a':
                st_ = '{ int k_; for (k_ = 0; k_ < %d; k_++) %s[i][k_] = %s; }' % (
                    elem[1], a, _gen_scalar(elem[2], 'cg_mix(acc, i * 7 + k_ + %d)' % j))
            else:
                st_ = '%s[i] = %s;' % (a, _gen_scalar(elem, 'cg_mix(acc, i + %d)' % j))
            b.append('if (%s) for (i = 0; i < %d; i++) { %s }' % (a, n, st_))
    mode, val = f['errno']
    if mode == 1:
        b.append('errno = %d;' % val if val != -2**31 else 'errno = (-2147483647-1);')
    elif mode == 2:
        b.append('if (acc & 16) errno = %s;' % (val if val != -2**31 else '(-2147483647-1)'))
    r = f['ret']
    sel = f.get('retsel', 0)
    if r[0] == 'v':
        b.append('(void)acc;')
    elif is_scalar(r):
        same = [j for j, t in enumerate(f['args']) if t == r]
        if r[0] == 'f' and same and sel & 1:
            b.append('return a%d;' % same[sel // 2 % len(same)])      # pass-through (NaN, inf, ...)
        else:
            b.append('return %s;' % _gen_scalar(r, 'acc', ret=True))
    elif r[0] == 's':
        b.append('{ struct s%d rv; memset(&rv, 0, sizeof rv); fill_s%d(&rv, acc); return rv; }' % (r[1], r[1]))
    elif r[0] == 'p':
        same = [(j, t) for j, t in enumerate(f['args']) if t[0] == 'p' and t[1] == r[1]]
        if same:
            j, t = same[sel % len(same)]
            off = 1 if (t[2] >= 2 and r[1][0] != 'v') else 0
            b.append('return (acc & 4) ? (a%d ? a%d + %d : a%d) : (%s)0;' % (j, j, off, j, cname(['p', r[1]])))
        else:
            b.append('return (%s)(uintptr_t)(acc & 0xffff0);' % cname(['p', r[1]]))
    b.append('}')
    return ' '.join(b)


def c_source(mod):
    out = [PRELUDE]
    for k, fs in enumerate(mod['structs']):
        out.append(struct_decl(k, fs))
        out.append(struct_helpers(k, fs))
    for i, f in enumerate(mod['funcs']):
        out.append(func_proto(i, f, names=True) + ' ' + func_body(i, f, len(mod['structs'])))
    return '\n'.join(out) + '\n'


# ------------------------------------------------------------------ values

def fbits(x):
    return _struct.unpack('<Q', _struct.pack('<d', x))[0]


def from_fbits(b):
    return _struct.unpack('<d', _struct.pack('<Q', b))[0]


def float_bits():
    """G-FLOAT restricted to what matters for argument passing: random 64-bit
    patterns (NaNs, infinities, subnormals), float32-representable values,
    neighbours of FLT_MAX / powers of two / integer limits"""
    special = [0.0, -0.0, 1.0, -1.0, 0.5, 1.5, float('inf'), float('-inf'), float('nan'),
               3.4028234663852886e38, 3.4028235677973366e38, 3.5e38, -3.5e38, 1e300, -1e300,
               1.1754943508222875e-38, 1e-45, 7e-46, 5e-324, 2.0 ** 31, 2.0 ** 63, 2.0 ** 64,
               -2.0 ** 63, 16777217.0, 0.1]
    return st.one_of(
        st.sampled_from(special).map(fbits),
        st.integers(0, 2 ** 64 - 1),
        st.integers(0, 2 ** 32 - 1).map(
            lambda b: fbits(_struct.unpack('<f', _struct.pack('<I', b))[0])),
        st.integers(-2000, 2000).map(lambda v: fbits(v / 8.0)),
    )


_CP = st.one_of(st.integers(1, 0x7f), st.integers(0x80, 0xffff), st.integers(0x10000, 0x10ffff),
                st.sampled_from([0, 0xd800, 0xdfff, 0xffff, 0x10000, 0x10ffff, 0xe9, 0x20ac]))
_CP16 = st.one_of(st.integers(1, 0x7f), st.integers(0x80, 0xffff),
                  st.sampled_from([0, 0xd800, 0xdfff, 0xffff, 0xe9, 0x20ac]))
_CP_NZ = st.one_of(st.integers(1, 0x7f), st.integers(0x80, 0xffff), st.integers(0x10000, 0x10ffff),
                   st.sampled_from([0xd800, 0xdfff, 0xffff, 0x10000, 0x10ffff, 0xe9, 0x20ac]))
_CP16_NZ = st.one_of(st.integers(1, 0x7f), st.integers(0x80, 0xffff),
                     st.sampled_from([0xd800, 0xdfff, 0xffff, 0xe9, 0x20ac]))

# Three grades of values for a parameter/field of a given type:
#   'plain'  certainly accepted, simple Python objects (used inside ffi.new() initialisers)
#   'good'   certainly accepted, every accepted spelling (bool, cdata, boundary values, ...)
#   'any'    good values mixed with out-of-range values and wrong Python types


def weighted(*pairs):
    """one_of() flattens nested one_of()s and drops repeated alternatives, so
    neither nesting nor repetition gives weights.  weighted((w, strategy), ...)
    picks alternative i with probability w_i / sum(w)."""
    idx = [i for i, (w, _) in enumerate(pairs) for _ in range(w)]
    alts = [x for _, x in pairs]
    return st.sampled_from(idx).flatmap(lambda i: alts[i])


def wrong_values():
    """values of the wrong Python type for most parameters"""
    return st.sampled_from([['none'], ['str', [120]], ['bytes', '7879'], ['list', []],
                            ['dict', []], ['fb', fbits(1.5)], ['tuple', [['int', 1]]],
                            ['cast', 'double', ['fb', fbits(2.0)]], ['cast', 'void *', 0],
                            ['cast', 'int', 3], ['fn', 'h0a'], ['int', 0], ['int', 5], ['bool', True],
                            ['cast', 'char', 65], ['NULL']])


def _inrange_ints(lo, hi):
    near = sorted(set(v for v in [lo, lo + 1, lo + 2, hi, hi - 1, hi - 2, 0, 1, -1, 127, 128, 255, 256,
                                  32767, 32768, 65535, 65536, 2 ** 31 - 1, 2 ** 31, 2 ** 32 - 1, 2 ** 32,
                                  -128, -129, -32768, -32769, -2 ** 31, -2 ** 31 - 1, 2 ** 63 - 1, 2 ** 63]
                      if lo <= v <= hi))
    return st.one_of(st.integers(lo, hi), st.sampled_from(near), st.integers(max(lo, -300), min(hi, 300)))


_scalar_cache = {}


def scalar_inits(t, grade='any'):
    """strategy for values for a scalar parameter / field of type t"""
    key = (t[0], t[1], grade)
    r = _scalar_cache.get(key)
    if r is None:
        r = _scalar_cache[key] = _scalar_inits(t, grade)
    return r


def _scalar_inits(t, grade):
    if t[0] == 'i':
        lo, hi = int_range(t[1])
        plain = _inrange_ints(lo, hi).map(lambda v: ['int', v])
        if grade == 'plain':
            return plain

        def cast(v):
            if t[1] == '_Bool':
                return ['cast', '_Bool', v]
            return ['cast', 'long long' if v < 2 ** 63 else 'unsigned long long', v]
        good = weighted((5, plain), (1, st.sampled_from([['bool', True], ['bool', False]])),
                        (1, _inrange_ints(lo, hi).map(cast)),
                        (1, _inrange_ints(lo, hi).map(lambda v: ['cast', t[1], v])))
        if grade == 'good':
            return good
        just_out = st.sampled_from([lo - 1, hi + 1, lo - 1, hi + 1, lo - 2, hi + 2, lo - 256, hi + 256,
                                    lo - 2 ** 32, hi + 2 ** 32, lo - 2 ** 64, hi + 2 ** 64]).map(lambda v: ['int', v])
        return weighted(
            (3, good), (3, just_out), (2, gen.ints_for_range(lo, hi).map(lambda v: ['int', v])),
            (1, st.tuples(st.sampled_from(['long', 'unsigned long long', 'short', 'unsigned char', 'int']),
                          st.integers(-2 ** 15, 2 ** 16)).map(lambda p: ['cast', p[0], p[1]])),
            (2, wrong_values()))
    if t[0] == 'f':
        plain = float_bits().map(lambda b: ['fb', b])
        if grade == 'plain':
            return plain
        good = weighted(
            (5, plain),
            (2, st.one_of(st.integers(-2 ** 70, 2 ** 70), st.integers(-1000, 1000),
                          st.sampled_from([2 ** 53 + 1, 2 ** 1023, -2 ** 1023, 2 ** 128, 2 ** 24 + 1])
                          ).map(lambda v: ['int', v])),
            (1, st.sampled_from([['bool', True], ['bool', False]])),
            (1, st.tuples(st.sampled_from(['float', 'double']), float_bits()).map(
                lambda p: ['cast', p[0], ['fb', p[1]]])))
        if grade == 'good':
            return good
        return weighted((4, good),
                        (1, st.sampled_from([10 ** 400, -10 ** 400, 2 ** 1024]).map(lambda v: ['int', v])),
                        (1, st.sampled_from([['cast', 'int', 3], ['cast', 'long', -1], ['str', [49]], ['none']])),
                        (2, wrong_values()))
    if t[0] == 'c':
        if t[1] == 'char':
            plain = st.integers(0, 255).map(lambda v: ['bytes', '%02x' % v])
            if grade == 'plain':
                return plain
            good = weighted((3, plain), (1, st.integers(0, 255).map(lambda v: ['cast', 'char', v])))
            if grade == 'good':
                return good
            return weighted((3, good),
                            (2, st.sampled_from([['bytes', ''], ['bytes', '4142'], ['str', [65]], ['int', 65],
                                                 ['cast', 'wchar_t', 65], ['cast', 'signed char', 65]])),
                            (1, wrong_values()))
        cp = _CP16 if t[1] == 'char16_t' else _CP
        plain = cp.map(lambda c: ['str', [c]])
        if grade == 'plain':
            return plain
        good = weighted((3, plain), (1, cp.map(lambda c: ['cast', t[1], c])))
        if grade == 'good':
            return good
        return weighted((3, good), (1, _CP.map(lambda c: ['str', [c]])),
                        (2, st.sampled_from([['str', []], ['str', [65, 66]], ['str', [0xd83d, 0xde00]],
                                             ['bytes', '41'], ['int', 65], ['cast', 'char', 65],
                                             ['cast', 'wchar_t', 0x1f600], ['cast', 'char16_t', 0xd800],
                                             ['cast', 'char32_t', 0x10ffff]])),
                        (1, wrong_values()))
    raise ValueError(t)


_memo = {}


def memo(fn):
    """strategies are expensive to construct (Hypothesis inspects every lambda):
    build each (module, type, grade) strategy once"""
    import functools, json

    @functools.wraps(fn)
    def wrapper(mod, *a):
        key = (fn.__name__, id(mod), json.dumps(a))
        e = _memo.get(key)
        if e is not None and e[0] is mod:
            return e[1]
        if len(_memo) > 4000:
            _memo.clear()
        r = fn(mod, *a)
        _memo[key] = (mod, r)
        return r
    return wrapper


@memo
def struct_inits(mod, k, how, grade='plain'):
    """initialiser for struct s<k>: how = 'list' | 'tuple' | 'dict' | 'partial'"""
    @st.composite
    def s(draw):
        fields = mod['structs'][k]
        items = []
        for j, t in enumerate(fields):
            items.append(['m%d' % j, draw(field_inits(mod, t, grade))])
        if how == 'list':
            return ['list', [v for _, v in items]]
        if how == 'tuple':
            return ['tuple', [v for _, v in items]]
        if how == 'dict':
            return ['dict', items]
        # partial: drop at least one field
        if draw(st.booleans()):
            n = draw(st.integers(0, len(items) - 1))
            return ['list', [v for _, v in items[:n]]]
        keep = draw(st.lists(st.booleans(), min_size=len(items), max_size=len(items)))
        if all(keep):
            keep[draw(st.integers(0, len(items) - 1))] = False
        return ['dict', [it for it, kp in zip(items, keep) if kp]]
    return s()


@memo
def field_inits(mod, t, grade='plain'):
    if is_scalar(t):
        if grade == 'any':
            return weighted((3, scalar_inits(t, 'good')), (1, scalar_inits(t, 'any')))
        return scalar_inits(t, grade)
    if t[0] == 's':
        return st.one_of(struct_inits(mod, t[1], 'list', grade), struct_inits(mod, t[1], 'dict', grade))
    if t[0] == 'a' and t[2][0] == 'a':
        inner = st.lists(scalar_inits(t[2][2], 'plain'), min_size=t[2][1], max_size=t[2][1]).map(lambda l: ['list', l])
        return st.lists(inner, min_size=t[1], max_size=t[1]).map(lambda l: ['list', l])
    if t[0] == 'a':
        return st.lists(scalar_inits(t[2], 'plain'), min_size=t[1], max_size=t[1]).map(lambda l: ['list', l])
    if t[0] == 'q':
        return st.one_of(st.just(['NULL']),
                         st.integers(0, 0xffff).map(lambda v: ['cast', t[1] + ' *', v * 16]))
    raise ValueError(t)


@memo
def pointer_args(mod, t, grade='any'):
    """strategy for an argument of pointer parameter t = ['p', elem, n, mode]"""
    elem, n, mode = t[1], t[2], t[3]

    def items(extra=3):
        if elem[0] == 's':
            one = st.one_of(struct_inits(mod, elem[1], 'list'), struct_inits(mod, elem[1], 'dict'),
                            struct_inits(mod, elem[1], 'partial'))
        elif elem[0] == 'v':
            one = st.integers(0, 255).map(lambda v: ['int', v])
        elif elem[0] == 'a':
            # rows as (possibly shorter = ragged) lists: the missing tail must read as zero
            one = st.lists(scalar_inits(elem[2], 'plain'), min_size=0, max_size=elem[1]).map(lambda l: ['list', l])
        else:
            one = scalar_inits(elem, 'plain')
        if n > 8:
            # long arrays: few distinct items, repeated
            return st.tuples(st.lists(one, min_size=1, max_size=4), st.integers(0, extra)).map(
                lambda p: [p[0][q % len(p[0])] for q in range(n + p[1])])
        return st.lists(one, min_size=n, max_size=n + extra)

    good, bad = [], []
    if elem[0] == 'v':
        # any pointer is accepted for void *: arrays of bytes / shorts / longs with >= n bytes
        good.append(items().map(lambda l: ['arr', 'unsigned char', l]))
        good.append(items().map(lambda l: ['arr', 'unsigned short', l]))
        good.append(items().map(lambda l: ['arr', 'long', l]))
        if mode == 'r':
            good.append(st.binary(min_size=n, max_size=n + 3).map(lambda b: ['bytes', b.hex()]))
        bad.append(items().map(lambda l: ['list', l]))          # TypeError for void *
    else:
        en = cname(elem)
        for _ in range(4 if mode == 'w' else 2):       # (distinct objects: one_of drops repeats)
            good.append(items().map(lambda l: ['arr', en, l]))
        good.append(items().map(lambda l: ['list', l]))
        good.append(items().map(lambda l: ['tuple', l]))
        if elem[0] in ('i', 'c') and sizeof_scalar(elem) == 1 and mode == 'r':
            if elem[1] == '_Bool':
                good.append(st.lists(st.integers(0, 1), min_size=n, max_size=n + 3).map(
                    lambda l: ['bytes', bytes(l).hex()]))
                bad.append(st.binary(min_size=n, max_size=n + 3).map(lambda b: ['bytes', b.hex()]))
            else:
                good.append(st.binary(min_size=n, max_size=n + 3).map(lambda b: ['bytes', b.hex()]))
        if elem[0] == 'c' and elem[1] != 'char':
            good.append(st.lists(_CP16_NZ if elem[1] == 'char16_t' else _CP_NZ, min_size=n, max_size=n + 3).map(
                lambda l: ['str', l]))
        if is_scalar(elem) and n <= 8:
            # a list with one possibly-bad item
            bad.append(st.tuples(items(), st.integers(0, n - 1), scalar_inits(elem, 'any')).map(
                lambda p: ['list', p[0][:p[1]] + [p[2]] + p[0][p[1] + 1:]]))
            # same-size elements of another type: accepted only under the void*/char* rules
            other = {1: ['signed char', 'unsigned char'], 2: ['short', 'unsigned short'],
                     4: ['int', 'unsigned int'], 8: ['long', 'unsigned long long']}[sizeof_scalar(elem)]
            bad.append(st.tuples(st.sampled_from(other),
                                 st.lists(st.integers(0, 100), min_size=n, max_size=n + 2)).map(
                lambda p: ['arr', p[0], [['int', v] for v in p[1]]]))
    good.append(st.sampled_from([['NULL'], ['cast', cname(['p', elem]), 0], ['cast', 'void *', 0]]))
    wrong = [['none'], ['int', 0], ['int', 4096], ['fb', fbits(0.0)], ['dict', []],
             ['cast', 'intptr_t', 0], ['bool', False]]
    if elem[0] != 'v':
        wrong.append(['fn', 'h0a'])      # (a function pointer is accepted for void *: never pass code as data)
    bad.append(st.sampled_from(wrong))
    if grade == 'good':
        return st.one_of(good)
    return weighted((3, st.one_of(good)), (2, st.one_of(bad)))


@memo
def arg_values(mod, t, grade='any'):
    """strategy for an argument value of parameter type t"""
    if is_scalar(t):
        return scalar_inits(t, grade)
    if t[0] == 's':
        k = t[1]
        others = [j for j in range(len(mod['structs'])) if j != k]
        good = [struct_inits(mod, k, 'list').map(lambda i: ['struct', k, i]),
                struct_inits(mod, k, 'dict').map(lambda i: ['struct', k, i]),
                struct_inits(mod, k, 'partial').map(lambda i: ['struct', k, i]),
                struct_inits(mod, k, 'list', 'good'), struct_inits(mod, k, 'dict', 'good'),
                struct_inits(mod, k, 'tuple', 'good'), struct_inits(mod, k, 'partial')]
        if grade == 'good':
            return st.one_of(good)
        bad = [struct_inits(mod, k, 'list', 'any'), struct_inits(mod, k, 'dict', 'any'),
               struct_inits(mod, k, 'list').map(lambda i: ['structptr', k, i]),
               st.sampled_from([['none'], ['int', 0], ['NULL'], ['bytes', '00'],
                                ['dict', [['nosuchfield', ['int', 1]]]],
                                ['list', [['int', 0]] * 40]])]
        if others:
            bad.append(st.sampled_from(others).flatmap(
                lambda j: struct_inits(mod, j, 'list').map(lambda i: ['struct', j, i])))
        return weighted((3, st.one_of(good)), (2, st.one_of(bad)))
    if t[0] == 'p':
        return pointer_args(mod, t, grade)
    if t[0] == 'fp':
        ok = HELPER_SIGS[t[1]][2]
        notok = [n for q, (_, _, ns) in enumerate(HELPER_SIGS) if q != t[1] for n in ns]
        good = [st.sampled_from(ok).map(lambda n: ['fn', n]),
                st.sampled_from(ok).map(lambda n: ['fn', n]),
                st.sampled_from(ok).map(lambda n: ['fnaddr', n]),
                st.sampled_from([['NULL'], ['cast', 'void *', 0], ['cast', cname(t), 0]])]
        if grade == 'good':
            return st.one_of(good)
        return weighted((3, st.one_of(good)),
                        (2, st.one_of(st.sampled_from(notok).map(lambda n: ['fn', n]),
                                      st.sampled_from(notok).map(lambda n: ['fnaddr', n]),
                                      st.sampled_from([['none'], ['int', 0], ['int', 1234], ['bytes', '00']]))))
    raise ValueError(t)


@memo
def vararg_values(mod, grade='any'):
    """one argument for the variadic part: [value, fmt letter]"""
    ns = len(mod['structs'])
    good = [
        st.tuples(st.sampled_from([n for n in INT_NAMES]), st.integers(-2 ** 63, 2 ** 64 - 1)).map(
            lambda p: [['cast', p[0], p[1]], va_letter(p[0])]),
        st.tuples(st.sampled_from([n for n in INT_NAMES]), st.integers(-130, 300)).map(
            lambda p: [['cast', p[0], p[1]], va_letter(p[0])]),
        st.tuples(st.sampled_from(['char', 'wchar_t', 'char16_t', 'char32_t']), st.integers(0, 0xffff)).map(
            lambda p: [['cast', p[0], p[1] & (0xff if p[0] == 'char' else 0xffff)], 'i']),
        float_bits().map(lambda b: [['cast', 'double', ['fb', b]], 'd']),
        st.sampled_from([[['NULL'], 'p'], [['cast', 'int *', 0], 'p']]),
        st.lists(st.integers(0, 255), min_size=1, max_size=4).map(
            lambda l: [['arr', 'unsigned char', [['int', v] for v in l]], 'p']),
    ]
    if ns:
        good.append(st.integers(0, ns - 1).flatmap(
            lambda k: struct_inits(mod, k, 'list').map(lambda i: [['struct', k, i], chr(ord('A') + k)])))
    if grade == 'good':
        return st.one_of(good)
    # not cdata: TypeError on every path, the C function is not reached
    return weighted((4, st.one_of(good)), (1,
        st.sampled_from([[['int', 5], 'i'], [['fb', fbits(1.0)], 'd'], [['none'], 'p'], [['bytes', '6162'], 'p'],
                         [['str', [97]], 'p'], [['list', []], 'p'], [['bool', True], 'i']])))


@st.composite
def call_tuples(draw, mod, fidx=None):
    """[function index, [arg values], errno before, label].  About 2/3 of the
    tuples consist of accepted values only, so that the C function is reached."""
    if fidx is None:
        fidx = draw(st.integers(0, len(mod['funcs']) - 1))
    f = mod['funcs'][fidx]
    mode = draw(st.integers(0, 9))
    nfix = len(f['args'])
    grades = ['good'] * (nfix + 1)
    if mode >= 8:
        grades = ['any'] * (nfix + 1)
    elif mode >= 4:
        grades[draw(st.integers(0, nfix if f.get('va') else max(nfix - 1, 0)))] = 'any'
    args = [draw(arg_values(mod, t, g)) for t, g in zip(f['args'], grades)]
    label = 'arity-ok'
    if f.get('va'):
        vas = [draw(vararg_values(mod, grades[nfix])) for _ in range(draw(st.integers(0, 5)))]
        fmt = ''.join(l for _, l in vas)
        args.append(['bytes', fmt.encode().hex()])
        args += [v for v, _ in vas]
        if draw(st.integers(0, 24)) == 24:
            del args[nfix:]                    # fmt missing: too few fixed arguments
            label = 'arity-bad'
    else:
        c = draw(st.integers(0, 29))
        if c == 29 and args:
            args.pop()
            label = 'arity-bad'
        elif c == 28:
            args.append(['int', 0])
            label = 'arity-bad'
    e0 = draw(st.sampled_from([0, 0, 1, 17, 42, 99, 2 ** 31 - 1, -5]))
    return [fidx, args, e0, label]


# ------------------------------------------------------------------ building values for one FFI

class Built(object):
    """result of build_value for one call: the python objects + the cdata
    arrays whose memory the callee may change"""
    def __init__(self):
        self.keep = []
        self.arrays = []     # (cdata array, elem cname, length)


def build_value(ffi, lib, v, out):
    """Turn the JSON value v into a Python object for this ffi/lib.
    May raise (e.g. building ['arr', ...] from bad items): callers treat this
    as a generator error, so 'arr'/'struct' items are always strict."""
    k = v[0]
    if k == 'int':
        return v[1]
    if k == 'bool':
        return bool(v[1])
    if k == 'fb':
        return from_fbits(v[1])
    if k == 'bytes':
        return bytes.fromhex(v[1])
    if k == 'str':
        return ''.join(chr(c) for c in v[1])
    if k == 'none':
        return None
    if k == 'NULL':
        return ffi.NULL
    if k == 'cast':
        x = v[2]
        if isinstance(x, list):
            x = from_fbits(x[1])
        return ffi.cast(v[1], x)
    if k in ('list', 'tuple'):
        l = [build_value(ffi, lib, x, out) for x in v[1]]
        return l if k == 'list' else tuple(l)
    if k == 'dict':
        return dict((n, build_value(ffi, lib, x, out)) for n, x in v[1])
    if k == 'arr':
        items = [build_value(ffi, lib, x, out) for x in v[2]]
        en = v[1]
        if en.endswith(']') and '(' not in en:      # array element type 'T[N]': T[][N]
            a = ffi.new('%s[]%s' % (en[:en.index('[')], en[en.index('['):]), items)
        else:
            a = ffi.new('%s[]' % en, items)
        out.arrays.append((a, v[1], len(items)))
        return a
    if k in ('struct', 'structptr'):
        p = ffi.new('struct s%d *' % v[1], build_value(ffi, lib, v[2], out))
        out.keep.append(p)
        return p[0] if k == 'struct' else p
    if k == 'fn':
        return getattr(lib, v[1])
    if k == 'fnaddr':
        return ffi.addressof(lib, v[1])
    raise ValueError(v)


def init_is_partial(mod, k, init):
    """True iff initialiser `init` for struct s<k> leaves a field (at any depth) unset"""
    fields = mod['structs'][k]
    if init[0] in ('list', 'tuple'):
        if len(init[1]) < len(fields):
            return True
        pairs = zip(fields, init[1])
    elif init[0] == 'dict':
        if len(init[1]) < len(fields):
            return True
        names = ['m%d' % j for j in range(len(fields))]
        if any(n not in names for n, _ in init[1]):
            return False                 # KeyError before anything is used
        pairs = [(fields[names.index(n)], x) for n, x in init[1]]
    else:
        return False
    for t, x in pairs:
        if t[0] == 's' and init_is_partial(mod, t[1], x):
            return True
    return False


# ------------------------------------------------------------------ normalising results

def norm(ffi, x, ptrmap=None):
    """comparable, FFI-independent description of a call result / memory content"""
    import math
    if x is None or isinstance(x, (bool, int, bytes, str)):
        return [type(x).__name__, x if not isinstance(x, bytes) else x.hex()] if not isinstance(x, str) \
            else ['str', [ord(c) for c in x]]
    if isinstance(x, float):
        return ['float', 'nan' if math.isnan(x) else fbits(x)]
    if isinstance(x, ffi.CData):
        ct = ffi.typeof(x)
        kind = ct.kind
        if kind == 'struct':
            return ['struct', ct.cname, [[n, norm(ffi, getattr(x, n), ptrmap)] for n, _ in ct.fields]]
        if kind == 'array':
            return ['array', [norm(ffi, x[i], ptrmap) for i in range(len(x))]]
        if kind in ('pointer', 'function'):
            addr = int(ffi.cast('uintptr_t', x))
            rel = ['abs', addr]
            if ptrmap is not None and addr:
                rel = ['unknown']
                for j, (base, size) in enumerate(ptrmap):
                    if base is not None and base <= addr <= base + size:
                        rel = ['arg', j, addr - base]
                        break
            return ['ptr', ct.cname, rel]
        if kind == 'primitive':
            return ['cdata', ct.cname, norm(ffi, _prim_value(ffi, x))]
        return ['cdata?', ct.cname]
    return ['other', type(x).__name__]


def _prim_value(ffi, x):
    ct = ffi.typeof(x)
    if ct.cname in ('float', 'double', 'long double'):
        return float(x)
    try:
        return int(x)
    except TypeError:
        return repr(x)


# ================================================================== C14: callbacks
# A callback signature is a func_def without varargs / function pointers whose
# pointer parameters have n <= 4.  One *invocation* = C code that calls the
# function pointer (or the extern "Python" function) with values baked into
# the C source, and stores what it received into *out.

def narrow_float(x):
    """C's (float)x as a Python float"""
    import ctypes
    return ctypes.c_float(x).value


def f32_bits(x):
    import ctypes
    return ctypes.c_uint32.from_buffer(ctypes.c_float(x)).value


@st.composite
def cb_sigs(draw, nstructs, max_args=6):
    f = draw(func_defs(nstructs, allow_va=False, allow_fp=False, max_args=max_args))
    args = []
    for t in f['args']:
        if t[0] == 'p':
            t = ['p', t[1], min(t[2], 4), 'r']
        args.append(t)
    ret = f['ret']
    return {'ret': ret, 'args': args}


def sig_ctype(sig, name='(*)'):
    """'R(*)(A0, A1)'"""
    args = ', '.join(declare(t if t[0] != 'p' else ['p', t[1]], '') for t in sig['args']) or 'void'
    r = sig['ret'] if sig['ret'][0] != 'p' else ['p', sig['ret'][1]]
    return '%s%s(%s)' % (cname(r), name, args)


def sig_decl(sig, name):
    """'R name(A0, A1)'"""
    args = ', '.join(declare(t if t[0] != 'p' else ['p', t[1]], '') for t in sig['args']) or 'void'
    r = sig['ret'] if sig['ret'][0] != 'p' else ['p', sig['ret'][1]]
    return '%s(%s)' % (declare(r, name), args)


def c_int(v):
    if v == -2 ** 63:
        return '(-9223372036854775807LL-1)'
    if v < 0:
        return '(-%dLL)' % -v
    if v >= 2 ** 63:
        return '%dULL' % v
    return '%dLL' % v


def c_scalar(t, v):
    """C expression for plain value v of scalar type t"""
    if t[0] == 'i':
        assert v[0] == 'int', v
        return '(%s)%s' % (t[1], c_int(v[1]))
    if t[0] == 'f':
        assert v[0] == 'fb', v
        x = from_fbits(v[1])
        if t[1] == 'float':
            return 'cg_f32(0x%xu)' % f32_bits(x)
        return 'cg_f64(0x%xull)' % v[1]
    if t[0] == 'c':
        if t[1] == 'char':
            return '(char)0x%s' % v[1]
        return '(%s)0x%x' % (t[1], v[1][0])
    raise ValueError(t)


def c_assign(mod, lhs, t, v):
    """C statements storing plain value v (full initialiser) into lvalue lhs"""
    if is_scalar(t):
        return ['%s = %s;' % (lhs, c_scalar(t, v))]
    if t[0] == 's':
        out = []
        fields = mod['structs'][t[1]]
        assert v[0] in ('list', 'tuple', 'dict') and len(v[1]) == len(fields), v
        items = [(int(n[1:]), fv) for n, fv in v[1]] if v[0] == 'dict' else list(enumerate(v[1]))
        for j, fv in items:
            out += c_assign(mod, '%s.m%d' % (lhs, j), fields[j], fv)
        return out
    if t[0] == 'a':
        out = []
        for q, fv in enumerate(v[1]):
            out += c_assign(mod, '%s[%d]' % (lhs, q), t[2], fv)
        return out
    if t[0] == 'q':
        addr = 0 if v[0] == 'NULL' else v[2]
        return ['%s = (%s *)(uintptr_t)%d;' % (lhs, t[1], addr)]
    raise ValueError(t)


def zero_norm(mod, t):
    if t[0] == 'i':
        return ['bool', False] if t[1] == '_Bool' else ['int', 0]
    if t[0] == 'f':
        return ['float', 0]
    if t[0] == 'c':
        return ['bytes', '00'] if t[1] == 'char' else ['str', [0]]
    if t[0] == 's':
        return ['struct', [['m%d' % j, zero_norm(mod, ft)] for j, ft in enumerate(mod['structs'][t[1]])]]
    if t[0] == 'a':
        return ['array', [zero_norm(mod, t[2]) for _ in range(t[1])]]
    if t[0] in ('q', 'p'):
        return ['ptr', 0]
    raise ValueError(t)


def _wrap_int(ctype, x):
    if ctype == '_Bool':
        return int(bool(x))
    bits, signed = INTS[ctype]
    x &= (1 << bits) - 1
    if signed and x >> (bits - 1):
        x -= 1 << bits
    return x


def _norm_float(x, t):
    import math
    if t[1] == 'float':
        x = narrow_float(x)
    return ['float', 'nan' if math.isnan(x) else fbits(x)]


def model_value(mod, t, v):
    """What a value of C type t holds after cffi converted the accepted Python
    value v into it (= what C receives from a callback returning v), and also
    what Python sees when C passes the plain literal v: in the simplified
    normal form of simplify(norm(...))."""
    k = v[0]
    if t[0] == 'i':
        if k == 'int':
            x = v[1]
        elif k == 'bool':
            x = int(v[1])
        elif k == 'cast':
            x = _wrap_int(v[1], v[2])
        else:
            raise ValueError(v)
        lo, hi = int_range(t[1])
        assert lo <= x <= hi, (t, v)
        return ['bool', bool(x)] if t[1] == '_Bool' else ['int', x]
    if t[0] == 'f':
        if k == 'fb':
            x = from_fbits(v[1])
        elif k == 'int':
            x = float(v[1])
        elif k == 'bool':
            x = float(v[1])
        elif k == 'cast':
            x = from_fbits(v[2][1])
            if v[1] == 'float':
                x = narrow_float(x)
        else:
            raise ValueError(v)
        return _norm_float(x, t)
    if t[0] == 'c':
        if t[1] == 'char':
            return ['bytes', v[1]] if k == 'bytes' else ['bytes', '%02x' % (v[2] & 0xff)]
        return ['str', [v[1][0]]] if k == 'str' else ['str', [v[2]]]
    if t[0] == 's':
        if k == 'struct':
            assert v[1] == t[1]
            v = v[2]
            k = v[0]
        fields = mod['structs'][t[1]]
        res = [zero_norm(mod, ft) for ft in fields]
        if k in ('list', 'tuple'):
            for j, fv in enumerate(v[1]):
                res[j] = model_value(mod, fields[j], fv)
        elif k == 'dict':
            for n, fv in v[1]:
                j = int(n[1:])
                res[j] = model_value(mod, fields[j], fv)
        else:
            raise ValueError(v)
        return ['struct', [['m%d' % j, r] for j, r in enumerate(res)]]
    if t[0] == 'a':
        return ['array', [model_value(mod, t[2], fv) for fv in v[1]]]
    if t[0] in ('q', 'p'):
        if k == 'NULL':
            return ['ptr', 0]
        if k == 'cast':
            return ['ptr', v[2]]
        raise ValueError(v)
    raise ValueError((t, v))


def simplify(n):
    """norm() output -> the form used by model_value (no ctype names; pointers by address)"""
    k = n[0]
    if k == 'struct':
        return ['struct', [[name, simplify(x)] for name, x in n[2]]]
    if k == 'array':
        return ['array', [simplify(x) for x in n[1]]]
    if k == 'ptr':
        return ['ptr', n[2][1] if n[2][0] == 'abs' else n[2]]
    if k == 'float':
        return ['float', n[1]]
    return n


def bad_returns(t):
    """values a callback must not be able to return for result type t"""
    if t[0] == 'v':
        return st.sampled_from([['int', 0], ['str', [120]], ['bool', False], ['list', []]])
    if t[0] == 'i':
        lo, hi = int_range(t[1])
        return st.sampled_from([['int', hi + 1], ['int', lo - 1], ['int', hi + 1], ['int', lo - 1],
                                ['int', 2 ** 64 + 5], ['int', -2 ** 64], ['none'], ['str', [49]],
                                ['fb', fbits(1.5)], ['list', []], ['bytes', '01'], ['NULL'],
                                ['cast', 'double', ['fb', fbits(1.0)]]])
    if t[0] == 'f':
        return st.sampled_from([['none'], ['str', [49]], ['int', 10 ** 400], ['list', []], ['bytes', '01'], ['NULL']])
    if t[0] == 'c':
        if t[1] == 'char':
            return st.sampled_from([['none'], ['int', 65], ['bytes', ''], ['bytes', '4142'], ['str', [65]],
                                    ['fb', fbits(65.0)]])
        return st.sampled_from([['none'], ['int', 65], ['bytes', '41'], ['str', []], ['str', [65, 66]],
                                ['fb', fbits(65.0)]] + ([['str', [0x1f600]]] if t[1] == 'char16_t' else []))
    if t[0] == 's':
        return st.sampled_from([['none'], ['int', 0], ['dict', [['nosuchfield', ['int', 1]]]],
                                ['list', [['int', 0]] * 40], ['str', [120]], ['NULL']])
    if t[0] == 'p':
        return st.sampled_from([['none'], ['int', 0], ['int', 4096], ['str', [120]], ['fb', fbits(0.0)],
                                ['list', []]] + ([] if t[1][0] == 'v' else [['cast', 'void (*)(void)', 64]]))
    raise ValueError(t)


@memo
def good_returns(mod, t):
    """accepted return values for result type t (model_value gives what C gets)"""
    if t[0] == 'v':
        return st.just(['none'])
    if is_scalar(t):
        return scalar_inits(t, 'good')
    if t[0] == 's':
        k = t[1]
        return st.one_of(struct_inits(mod, k, 'list').map(lambda i: ['struct', k, i]),
                         struct_inits(mod, k, 'dict').map(lambda i: ['struct', k, i]),
                         struct_inits(mod, k, 'partial').map(lambda i: ['struct', k, i]),
                         struct_inits(mod, k, 'list', 'good'), struct_inits(mod, k, 'dict', 'good'),
                         struct_inits(mod, k, 'tuple', 'good'), struct_inits(mod, k, 'partial'))
    if t[0] == 'p':
        return st.one_of(st.just(['NULL']), st.integers(0, 2 ** 47 // 16).map(
            lambda a: ['cast', cname(['p', t[1]]), a * 16]), st.just(['cast', 'void *', 0]))
    raise ValueError(t)


@memo
def c_side_args(mod, t):
    """plain values that C passes for a parameter of type t"""
    if is_scalar(t):
        return scalar_inits(t, 'plain')
    if t[0] == 's':
        return struct_inits(mod, t[1], 'list')
    if t[0] == 'p':
        elem, n = t[1], t[2]
        if elem[0] == 's':
            one = struct_inits(mod, elem[1], 'list')
        elif elem[0] == 'v':
            one = st.integers(0, 255).map(lambda v: ['int', v])
        else:
            one = scalar_inits(elem, 'plain')
        return weighted((5, st.lists(one, min_size=n, max_size=n).map(lambda l: ['list', l])), (1, st.just(['NULL'])))
    raise ValueError(t)


@st.composite
def invocations(draw, mod, sigs):
    """{'sig', 'args' (C side), 'body', 'ret', 'error', 'onerror'}"""
    si = draw(st.integers(0, len(sigs) - 1))
    sig = sigs[si]
    args = [draw(c_side_args(mod, t)) for t in sig['args']]
    body = draw(st.sampled_from(['normal', 'normal', 'normal', 'raise', 'badret', 'raise-base']))
    rt = sig['ret']
    if body in ('normal',):
        ptrs = [j for j, t in enumerate(sig['args']) if rt[0] == 'p' and t[0] == 'p' and t[1] == rt[1]]
        if ptrs and draw(st.booleans()):
            ret = ['argptr', draw(st.sampled_from(ptrs))]
        else:
            ret = draw(good_returns(mod, rt))
    elif body == 'badret':
        ret = draw(bad_returns(rt))
    else:
        ret = ['none']
    error = None
    onerror = None
    if rt[0] != 'v':
        if draw(st.integers(0, 2)) == 0:
            error = draw(good_returns(mod, rt))
        c = draw(st.integers(0, 3))
        if c == 1:
            onerror = ['none']
        elif c == 2:
            onerror = draw(good_returns(mod, rt))
            if rt[0] == 's' and onerror[0] in ('list', 'tuple', 'dict') and init_is_partial(mod, rt[1], onerror):
                # onerror's value is converted on top of the error value: which fields a
                # partial initialiser leaves is not defined by the property
                onerror = ['struct', rt[1], onerror]
    else:
        if draw(st.integers(0, 2)) == 0:
            onerror = ['none']
    return {'sig': si, 'args': args, 'body': body, 'ret': ret, 'error': error, 'onerror': onerror}


# ------------------------------------------------------------------ x86-64 SysV argument classification
# (used only to recognise the call shape of a known libffi defect, see known_findings.json / C13)

def _flat_fields(mod, t, base=0):
    """[(offset, size, 'INT'|'SSE')] of the scalar leaves of type t laid out at `base`; -> (leaves, size, align)"""
    if t[0] == 'f':
        s = FLOATS[t[1]]
        return [(base, s, 'SSE')], s, s
    if t[0] in ('i', 'c'):
        s = sizeof_scalar(t)
        return [(base, s, 'INT')], s, s
    if t[0] in ('q', 'p', 'fp'):
        return [(base, 8, 'INT')], 8, 8
    if t[0] == 'a':
        leaves, isz, ial = _flat_fields(mod, t[2], 0)
        out = []
        for k in range(t[1]):
            out += [(base + k * isz + o, s, c) for o, s, c in leaves]
        return out, isz * t[1], ial
    if t[0] == 's':
        off, al, out = 0, 1, []
        for ft in mod['structs'][t[1]]:
            _l, fs, fa = _flat_fields(mod, ft, 0)
            off = (off + fa - 1) // fa * fa
            out += [(base + off + o, s, c) for o, s, c in _l]
            off += fs
            al = max(al, fa)
        size = (off + al - 1) // al * al
        return out, size, al
    raise ValueError(t)


def sysv_arg_classes(mod, t):
    """classes of the eightbytes of a by-value argument, or 'MEMORY'"""
    leaves, size, _al = _flat_fields(mod, t)
    if size > 16:
        return 'MEMORY'
    n8 = (size + 7) // 8
    cls = []
    for k in range(n8):
        kinds = set(c for o, s, c in leaves if o < 8 * k + 8 and o + s > 8 * k)
        cls.append('INT' if 'INT' in kinds else 'SSE')
    return cls


def libffi_last_gpr_mixed_struct(mod, argtypes, ret=None):
    """True iff some by-value struct argument classified [INTEGER, SSE] (in this order) is passed in
    registers taking the 6th and last integer register while at least one SSE register is already in
    use: the call shape for which libffi 3.4.4's x86-64 ffi_call puts the struct's SSE half into the
    wrong register (also reproducible with ctypes).  A result returned in memory (struct > 16 bytes)
    occupies the first integer register with its hidden pointer (checked with ctypes too)."""
    g = x = 0
    if ret is not None and ret[0] == 's' and sysv_arg_classes(mod, ret) == 'MEMORY':
        g = 1
    for t in argtypes:
        cls = sysv_arg_classes(mod, t)
        if cls == 'MEMORY':
            continue
        ng, ns = cls.count('INT'), cls.count('SSE')
        if g + ng > 6 or x + ns > 8:
            continue
        if t[0] == 's' and cls == ['INT', 'SSE'] and g + ng == 6 and x >= 1:
            return True
        g += ng
        x += ns
    return False
