"""G-TYPE(ctx) of DESIGN.md section 3: declaration contexts, C type *trees*, a
printer that chooses among equivalent spellings, a near-miss mutator, and the
ground-truth descriptor of a tree.  Shared by C07 and C08 (agent D).

Everything that is random goes through a tiny chooser interface `R`
(`below(n)`, `chance(num, den)`, `choice(seq)`); `HypR(draw)` implements it on
Hypothesis draws, so that every random choice is a Hypothesis draw and the
whole thing shrinks.  Trees, contexts and token lists are plain JSON values.

Context  = {'decls': [decl, ...]}
  decl   = ['agg', 'struct'|'union', tag, complete]         struct tag {int a; char b;};  /  struct tag;
         | ['enum', tag, [[name, value], ...]]              enum tag { name = value, ... };
         | ['tdagg', kind, tag|None, tdname, complete]      typedef struct [tag] {...} tdname;   (kind may be 'enum')
                                                            typedef struct tag tdname;           (complete false)
         | ['typedef', tdname, tree]                        typedef <tree> tdname;
         | ['const', name, value, 'define'|'static'|'enum'] #define / static const int / enum { name = value };
Tree     = ['prim', cname] | ['void'] | ['td', name] | ['agg', kind, tag] | ['file'] (cffi's predeclared opaque FILE)
         | ['ptr', T] | ['arr', lenspec, T] | ['func', result, [params], ellipsis, abi]
  lenspec= None ([]) | ['lit', value, 'd'|'o'|'x'|'X'] | ['const', name]
  abi    = None | '__cdecl' | '__stdcall'
  A 'func' node is a function *type*; a function pointer is ['ptr', ['func', ...]].
Descriptor (what a ctype / a tree denotes, typedefs expanded, parameters adjusted):
  ['prim', cname] | ['void'] | ['struct'|'union'|'enum', cname] | ['ptr', D]
  | ['arr', length|None, D] | ['func', Dresult, [Dparams], ellipsis]     (= pointer to function, as in cffi)
"""
import re

# --------------------------------------------------------------------------
# primitives: canonical cffi name -> alternative keyword multisets

_INTLIKE = {
    'short': (['short'], True),
    'int': ([], True),
    'long': (['long'], True),
    'long long': (['long', 'long'], True),
    'unsigned short': (['unsigned', 'short'], False),
    'unsigned int': (['unsigned'], False),
    'unsigned long': (['unsigned', 'long'], False),
    'unsigned long long': (['unsigned', 'long', 'long'], False),
}

STD_NAMES = [
    'wchar_t', 'char16_t', 'char32_t',
    'int8_t', 'uint8_t', 'int16_t', 'uint16_t', 'int32_t', 'uint32_t', 'int64_t', 'uint64_t',
    'int_least8_t', 'uint_least8_t', 'int_least16_t', 'uint_least16_t',
    'int_least32_t', 'uint_least32_t', 'int_least64_t', 'uint_least64_t',
    'int_fast8_t', 'uint_fast8_t', 'int_fast16_t', 'uint_fast16_t',
    'int_fast32_t', 'uint_fast32_t', 'int_fast64_t', 'uint_fast64_t',
    'intptr_t', 'uintptr_t', 'intmax_t', 'uintmax_t', 'ptrdiff_t', 'size_t', 'ssize_t',
]


def prim_spellings(name):
    """All keyword multisets that C accepts for the primitive `name`."""
    if name in _INTLIKE:
        words, signed = _INTLIKE[name]
        out = []
        for with_int in (False, True):
            for with_signed in ((False, True) if signed else (False,)):
                w = list(words) + (['int'] if with_int else []) + (['signed'] if with_signed else [])
                if w:
                    out.append(w)
        out.sort(key=lambda w: w != name.split())      # the canonical spelling first
        return out
    if name == '_Bool':
        return [['_Bool'], ['bool']]
    if name == 'long double':
        return [['long', 'double']]
    if name == 'signed char':
        return [['signed', 'char']]
    if name == 'unsigned char':
        return [['unsigned', 'char']]
    if name == '_cffi_float_complex_t':
        return [['float', '_Complex'], ['_cffi_float_complex_t']]
    if name == '_cffi_double_complex_t':
        return [['double', '_Complex'], ['_cffi_double_complex_t']]
    return [[name]]


PRIMS = (['char', 'signed char', 'unsigned char', 'float', 'double', 'long double', '_Bool',
          '_cffi_float_complex_t', '_cffi_double_complex_t'] + sorted(_INTLIKE) + STD_NAMES)

PRIM_SIZE = {'char': 1, 'signed char': 1, 'unsigned char': 1, 'short': 2, 'unsigned short': 2,
             'int': 4, 'unsigned int': 4, 'long': 8, 'unsigned long': 8, 'long long': 8,
             'unsigned long long': 8, 'float': 4, 'double': 8, 'long double': 16, '_Bool': 1,
             '_cffi_float_complex_t': 8, '_cffi_double_complex_t': 16}

MODIFIERS = ('short', 'long', 'signed', 'unsigned')
BASEWORDS = ('int', 'char', 'double', 'float', 'void', '_Bool', '_Complex')
QUALS = ('const', 'volatile')
KEYWORDS = set(MODIFIERS) | set(BASEWORDS) | set(QUALS) | {
    'struct', 'union', 'enum', '__cdecl', '__stdcall'}
# identifiers used as variable / parameter names: never declared, never a
# cffi common type, never a keyword
VARNAMES = ['x', 'v0', 'arg', 'p_', 'fn1', 'zz9']

_TOKEN = re.compile(r'[A-Za-z_$][A-Za-z_0-9$]*|0[xX][0-9a-fA-F]*|[0-9][0-9a-zA-Z]*|\.\.\.|\S')


def tokenize(s):
    return _TOKEN.findall(s)


# --------------------------------------------------------------------------
# choosers

class HypR(object):
    """Chooser on top of a Hypothesis `draw`."""
    def __init__(self, draw):
        from hypothesis import strategies as st
        self._draw, self._st = draw, st

    def below(self, n):
        return self._draw(self._st.integers(0, n - 1)) if n > 1 else 0

    def chance(self, num, den):
        return self._draw(self._st.integers(0, den - 1)) < num

    def choice(self, seq):
        return seq[self.below(len(seq))]


class BytesR(object):
    """Chooser decoding a byte string drawn by Hypothesis (one cheap draw per
    item instead of hundreds): choice k of n = next byte(s) mod n; an
    exhausted stream yields 0, the simplest choice -- so that Hypothesis'
    shrinking of the bytes (shorter, lexicographically smaller) simplifies
    the generated value."""
    def __init__(self, data):
        self._d, self._i = data, 0

    def below(self, n):
        if n <= 1:
            return 0
        d, i = self._d, self._i
        if n <= 256:
            self._i = i + 1
            return d[i] % n if i < len(d) else 0
        self._i = i + 4
        return int.from_bytes(d[i:i + 4].ljust(4, b'\0'), 'big') % n

    def chance(self, num, den):
        return self.below(den) >= den - num          # 0 (also: exhausted) means "no"

    def choice(self, seq):
        return seq[self.below(len(seq))]


class PyR(object):
    """Chooser on top of random.Random (exploration scripts only, never in a check)."""
    def __init__(self, rnd):
        self._r = rnd

    def below(self, n):
        return self._r.randrange(n)

    def chance(self, num, den):
        return self._r.randrange(den) < num

    def choice(self, seq):
        return seq[self._r.randrange(len(seq))]


def shuffled(R, seq):
    seq = list(seq)
    out = []
    while seq:
        out.append(seq.pop(R.below(len(seq))))
    return out


# --------------------------------------------------------------------------
# contexts

class Info(object):
    """Look-up tables derived from a context."""
    def __init__(self, context):
        self.context = context
        self.typedefs = {}        # name -> tree
        self.td_order = []
        self.aggs = {}            # (kind, tag) -> complete?
        self.agg_typedef = {}     # (kind, tag) -> [typedef names declared directly on it]
        self.anon = {}            # tdname -> (kind, complete)   (typedef of an untagged aggregate)
        self.consts = {}          # name -> value
        self.enumerators = {}
        for d in context['decls']:
            k = d[0]
            if k == 'agg':
                self.aggs[(d[1], d[2])] = self.aggs.get((d[1], d[2]), False) or bool(d[3])
            elif k == 'enum':
                self.aggs[('enum', d[1])] = True
                for n, v in d[2]:
                    self.consts[n] = v
                    self.enumerators[n] = v
            elif k == 'tdagg':
                kind, tag, tdname, complete = d[1:5]
                if tag is None:
                    self.anon[tdname] = (kind, True)
                    self.typedefs[tdname] = ['anon', kind, tdname]
                else:
                    self.aggs[(kind, tag)] = self.aggs.get((kind, tag), False) or bool(complete) or kind == 'enum'
                    self.agg_typedef.setdefault((kind, tag), []).append(tdname)
                    self.typedefs[tdname] = ['agg', kind, tag]
                self.td_order.append(tdname)
                if kind == 'enum':
                    for n, v in _tdenum_members(tdname):
                        self.consts[n] = v
                        self.enumerators[n] = v
            elif k == 'typedef':
                self.typedefs[d[1]] = d[2]
                self.td_order.append(d[1])
                if d[2][0] == 'agg':
                    # 'typedef struct tag name;' is a direct typedef of the tagged aggregate too
                    self.agg_typedef.setdefault((d[2][1], d[2][2]), []).append(d[1])
            elif k == 'const':
                self.consts[d[1]] = d[2]
            else:
                raise ValueError(d)

    def type_names(self):
        return set(self.typedefs)


def _tdenum_members(tdname):
    return [[tdname.upper() + '_A', 0], [tdname.upper() + '_B', 1]]


def cdef_of(context, for_c=False):
    """The cdef text of a context (canonical spelling; the cdef is parsed by
    the Python parser for both FFIs).  With for_c=True the same declarations
    as a C compiler needs them: 'static const int K = v;' becomes an
    enumerator, because C does not accept such an object as an array length
    at file scope."""
    info = Info({'decls': []})
    lines = []
    done = set()
    for d in context['decls']:
        k = d[0]
        if k == 'agg':
            if d[3]:
                lines.append('%s %s { int a; char b; };' % (d[1], d[2]))
            else:
                lines.append('%s %s;' % (d[1], d[2]))
        elif k == 'enum':
            lines.append('enum %s { %s };' % (d[1], ', '.join('%s = %d' % (n, v) for n, v in d[2])))
        elif k == 'tdagg':
            kind, tag, tdname, complete = d[1:5]
            if kind == 'enum':
                body = ' { %s }' % ', '.join('%s = %d' % (n, v) for n, v in _tdenum_members(tdname))
            elif complete:
                body = ' { int x; long y; }'
            else:
                body = ''
            lines.append('typedef %s%s%s %s;' % (kind, ' ' + tag if tag else '', body, tdname))
        elif k == 'typedef':
            lines.append('typedef %s;' % ' '.join(canonical_tokens(d[2], [d[1]])))
        elif k == 'const':
            name, value, style = d[1:4]
            if style == 'define':
                lines.append('#define %s %d' % (name, value))
            elif style == 'static' and not for_c:
                lines.append('static const int %s = %d;' % (name, value))
            else:
                lines.append('enum { %s = %d };' % (name, value))
    return '\n'.join(lines) + '\n'


def gen_context(R, rich=True):
    """A random declaration context.  Every tree used in a typedef is a valid
    C type over the declarations before it."""
    decls = []
    n_agg = 1 + R.below(4)
    for i in range(n_agg):
        kind = 'struct' if R.chance(2, 3) else 'union'
        tag = '%s%d' % (kind[0], i)
        complete = R.chance(3, 4)
        how = R.below(12)
        if how <= 8:
            decls.append(['agg', kind, tag, complete])
        elif how == 9:
            # typedef struct tag {...} name;   (name may equal the tag)
            tdname = tag if R.chance(1, 3) else tag + '_t'
            decls.append(['tdagg', kind, tag, tdname, complete])
        elif how == 10:
            decls.append(['agg', kind, tag, complete])
            decls.append(['tdagg', kind, tag, tag + '_t', False])
        else:
            decls.append(['tdagg', kind, None, 'an%d_t' % i, True])
    for i in range(R.below(3)):
        tag = 'e%d' % i
        how = R.below(6)
        if how <= 3:
            vals = [['E%d_%d' % (i, j), [0, 1, 5, 7, 300][R.below(5)] + j * 400] for j in range(1 + R.below(3))]
            decls.append(['enum', tag, vals])
        elif how == 4:
            decls.append(['tdagg', 'enum', tag, tag + '_t', True])
        else:
            decls.append(['tdagg', 'enum', None, 'ean%d_t' % i, True])
    for i in range(R.below(4)):
        value = R.choice([0, 1, 2, 3, 7, 8, 10, 16, 64, 255, 1000, -1, -5, 2 ** 31 - 1, 2 ** 31,
                          2 ** 32, 2 ** 63 - 1])
        style = R.choice(['define', 'static', 'enum'])
        if style != 'define' and not (-2 ** 31 <= value < 2 ** 31):
            style = 'define'
        decls.append(['const', 'K%d' % i, value, style])
    for i in range(R.below(5) if rich else 0):
        info = Info({'decls': decls})
        # no 'typedef FILE tN;': two of them trip an assertion in recompiler.collect_step_tables
        # (the FILE model type is one global object shared by all FFIs) -- not C07's subject
        info.allow_file = False
        kind = R.below(10)
        if kind <= 4:
            t = gen_tree(R, info, 1 + R.below(3), want='object')
        elif kind <= 6:
            t = ['arr', gen_len(R, info, allow_open=False), gen_tree(R, info, 1, want='complete')]
        elif kind <= 8:
            t = gen_func(R, info, 1)
        else:
            t = ['ptr', gen_func(R, info, 1)]
        decls.append(['typedef', 't%d' % i, t])
    return {'decls': decls}


# --------------------------------------------------------------------------
# trees

def expand(tree, info):
    """Resolve a top-level typedef reference (repeatedly)."""
    while tree[0] == 'td':
        tree = info.typedefs[tree[1]]
    return tree


def category(tree, info):
    """'void' | 'func' | 'open' (array of unknown length) | 'opaque' | 'complete'"""
    t = expand(tree, info)
    k = t[0]
    if k == 'void':
        return 'void'
    if k == 'func':
        return 'func'
    if k == 'arr':
        return 'open' if t[1] is None else 'complete'
    if k == 'agg':
        return 'complete' if info.aggs.get((t[1], t[2])) else 'opaque'
    if k == 'file':
        return 'opaque'
    return 'complete'


def gen_len(R, info, allow_open=True, exotic=False):
    c = R.below(12)
    if c == 0 and allow_open:
        return None
    if c <= 2 and info.consts:
        names = sorted(info.consts)
        good = [n for n in names if 0 <= info.consts[n] <= 1000]
        if exotic and R.chance(1, 3):
            return ['const', R.choice(names)]
        if good:
            return ['const', R.choice(good)]
    if exotic and c in (3, 4, 5, 6):
        v = R.choice([2 ** 31 - 1, 2 ** 31, 2 ** 32, 2 ** 32 + 5, 2 ** 40 + 3, 2 ** 32, 2 ** 33 - 1,
                      2 ** 62, 2 ** 63 - 1, 2 ** 63, 2 ** 64 - 1, 2 ** 64, 2 ** 70])
    else:
        v = R.choice([0, 1, 2, 3, 4, 5, 7, 8, 9, 10, 12, 16, 17, 63, 64, 100, 255, 256, 1000])
    return ['lit', v, R.choice(['d', 'd', 'd', 'o', 'x', 'X'])]


def gen_base(R, info, want):
    """A leaf.  want: 'any' | 'object' (not a function type) | 'complete'
    (has a size) | 'result' (complete or void)."""
    for _ in range(20):
        c = R.below(20)
        if c <= 8:
            t = ['prim', R.choice(PRIMS if R.chance(1, 2) else PRIMS[:17])]
        elif c == 9:
            t = ['void']
        elif c <= 12 and info.aggs:
            kind, tag = R.choice(sorted(info.aggs))
            t = ['agg', kind, tag]
        elif c <= 16 and info.typedefs:
            t = ['td', R.choice(sorted(info.typedefs))]
        elif c == 17 and getattr(info, 'allow_file', True):
            t = ['file']
        else:
            t = ['prim', R.choice(['int', 'char', 'unsigned long', 'double'])]
        cat = category(t, info)
        if want == 'any':
            return t
        if want == 'object' and cat != 'func':
            return t
        if want == 'complete' and cat == 'complete':
            return t
        if want == 'result' and cat in ('complete', 'void') and expand(t, info)[0] != 'arr':
            return t
    return ['prim', 'int']


def gen_func(R, info, depth, valid=True):
    res = gen_tree(R, info, depth - 1, want='result' if valid else 'any')
    n = R.choice([0, 0, 1, 1, 2, 2, 3, 4])
    params = []
    for _ in range(n):
        if valid:
            # parameters: complete objects, arrays (adjusted), function types (adjusted)
            c = R.below(8)
            if c == 0:
                p = gen_func(R, info, max(depth - 1, 0))
            elif c == 1:
                p = ['arr', gen_len(R, info), gen_tree(R, info, max(depth - 1, 0), want='complete')]
            else:
                p = gen_tree(R, info, depth - 1, want='complete')
        else:
            p = gen_tree(R, info, depth - 1, want='any')
        params.append(p)
    ellipsis = bool(params) and R.chance(1, 4)
    abi = R.choice([None, None, None, None, '__cdecl', '__stdcall'])
    return ['func', res, params, ellipsis, abi]


def gen_tree(R, info, depth, want='object', valid=True, exotic=False):
    """A random type tree.  With valid=True the tree is a valid C type of the
    wanted category; with valid=False the validity constraints are dropped
    (function returning array, array of void, ...)."""
    if depth <= 0:
        return gen_base(R, info, want if valid else 'any')
    c = R.below(10)
    if c <= 2:
        return gen_base(R, info, want if valid else 'any')
    if c <= 5:
        # pointer (to anything, including function types and open arrays)
        sub = R.below(6)
        if sub == 0:
            return ['ptr', gen_func(R, info, depth - 1, valid)]
        return ['ptr', gen_tree(R, info, depth - 1, want='any' if sub == 1 else 'object', valid=valid, exotic=exotic)]
    if c <= 7 and not (valid and want == 'result'):        # a function cannot return an array
        item = gen_tree(R, info, depth - 1, want='complete', valid=valid, exotic=exotic)
        allow_open = want in ('any', 'object') or not valid
        return ['arr', gen_len(R, info, allow_open=allow_open, exotic=exotic), item]
    if c == 8:
        return ['ptr', gen_func(R, info, depth - 1, valid)]
    if want == 'any' or not valid:
        return gen_func(R, info, depth - 1, valid)
    return ['ptr', gen_func(R, info, depth - 1, valid)]


def tree_size(t):
    k = t[0]
    if k in ('prim', 'void', 'td', 'agg', 'anon', 'file'):
        return 1
    if k == 'ptr':
        return 1 + tree_size(t[1])
    if k == 'arr':
        return 1 + tree_size(t[2])
    return 1 + tree_size(t[1]) + sum(tree_size(p) for p in t[2])


def n_declarator_ops(t):
    k = t[0]
    if k in ('prim', 'void', 'td', 'agg', 'anon', 'file'):
        return 0
    if k == 'ptr':
        return 1 + n_declarator_ops(t[1])
    if k == 'arr':
        return 1 + n_declarator_ops(t[2])
    return 1 + n_declarator_ops(t[1]) + sum(n_declarator_ops(p) for p in t[2])


# --------------------------------------------------------------------------
# ground truth

class Invalid(Exception):
    """The tree is not a type cffi can represent (both parsers must reject)."""


def length_of(lenspec, info):
    if lenspec is None:
        return None
    if lenspec[0] == 'lit':
        return lenspec[1]
    return info.consts[lenspec[1]]


def describe_tree(tree, info, top=True):
    """Descriptor of the type a tree denotes; raises Invalid when cffi has to
    reject it (the model of validity is: what a C compiler rejects, plus what
    cffi documents as unsupported: nothing in this grammar)."""
    k = tree[0]
    if k == 'prim':
        return ['prim', tree[1]]
    if k == 'void':
        return ['void']
    if k == 'file':
        return ['struct', 'FILE']
    if k == 'td':
        return describe_tree(info.typedefs[tree[1]], info, top)
    if k == 'anon':
        return [tree[1], tree[2]]
    if k == 'agg':
        return [tree[1], '%s %s' % (tree[1], tree[2])]
    if k == 'ptr':
        sub = expand(tree[1], info)
        if sub[0] == 'func':
            return _describe_func(sub, info)
        return ['ptr', describe_tree(tree[1], info, False)]
    if k == 'arr':
        cat = category(tree[2], info)
        if cat != 'complete':
            raise Invalid('array of %s' % cat)
        n = length_of(tree[1], info)
        if n is not None and not (0 <= n < 2 ** 63):
            raise Invalid('array length %d' % n)
        return ['arr', n, describe_tree(tree[2], info, False)]
    if k == 'func':
        raise Invalid('function type where an object type is needed')
    raise ValueError(tree)


def _describe_func(f, info):
    _, res, params, ellipsis, abi = f
    rcat = category(res, info)
    if rcat not in ('complete', 'void') or expand(res, info)[0] == 'arr':
        raise Invalid('function returning %s' % rcat)
    dres = describe_tree(res, info, False)
    dparams = []
    for p in params:
        pe = expand(p, info)
        if pe[0] == 'func':
            dparams.append(_describe_func(pe, info))
        elif pe[0] == 'arr':
            # adjusted to pointer to the item type (the item must still be valid)
            icat = category(pe[2], info)
            if icat != 'complete':
                raise Invalid('array of %s' % icat)
            dparams.append(['ptr', describe_tree(pe[2], info, False)])
        else:
            cat = category(p, info)
            if cat != 'complete':
                raise Invalid('parameter of %s type' % cat)
            dparams.append(describe_tree(p, info, False))
    return ['func', dres, dparams, bool(ellipsis)]


def name_of_desc(desc, d=''):
    """The C name cffi gives to a type (declarator text `d` at the name position)."""
    k = desc[0]
    if k == 'prim' or k in ('struct', 'union', 'enum'):
        return desc[1] + d
    if k == 'void':
        return 'void' + d
    if k == 'ptr':
        if desc[1][0] == 'arr':
            return name_of_desc(desc[1], '(*' + d + ')')
        return name_of_desc(desc[1], ' *' + d)
    if k == 'arr':
        return name_of_desc(desc[2], d + ('[%d]' % desc[1] if desc[1] is not None else '[]'))
    if k == 'func':
        args = [name_of_desc(a) for a in desc[2]]
        if desc[3]:
            args.append('...')
        return name_of_desc(desc[1], '(*' + d + ')(' + ', '.join(args) + ')')
    raise ValueError(desc)


def describe_ctype(ct):
    """Descriptor of a live ctype object.  (The `ellipsis` attribute of a
    function ctype reads True also when libffi cannot build a cif for the
    signature, e.g. with _Complex; then the backend's unique-type cache tells.)"""
    k = ct.kind
    if k == 'primitive':
        return ['prim', ct.cname]
    if k == 'void':
        return ['void']
    if k in ('struct', 'union', 'enum'):
        return [k, ct.cname]
    if k == 'pointer':
        return ['ptr', describe_ctype(ct.item)]
    if k == 'array':
        return ['arr', ct.length, describe_ctype(ct.item)]
    if k == 'function':
        ell = bool(ct.ellipsis)
        if ell:
            # ambiguous: ask the backend which of the two unique types this is
            import _cffi_backend
            ell = _cffi_backend.new_function_type(tuple(ct.args), ct.result, True, ct.abi) is ct
            if not ell and _cffi_backend.new_function_type(tuple(ct.args), ct.result, False, ct.abi) is not ct:
                raise ValueError('function ctype %r is not the unique type of its signature' % (ct.cname,))
        return ['func', describe_ctype(ct.result), [describe_ctype(a) for a in ct.args], ell]
    raise ValueError('unknown ctype kind %r' % (k,))


def has_aggregate(desc):
    k = desc[0]
    if k in ('struct', 'union', 'enum'):
        return True
    if k == 'ptr':
        return has_aggregate(desc[1])
    if k == 'arr':
        return has_aggregate(desc[2])
    if k == 'func':
        return has_aggregate(desc[1]) or any(has_aggregate(p) for p in desc[2])
    return False


def referenced_aggs(tree, info, acc=None):
    """Set of (kind, tag) / ('anon', tdname) / ('FILE',) reachable from the tree."""
    if acc is None:
        acc = set()
    k = tree[0]
    if k == 'file':
        acc.add(('FILE',))
    elif k == 'td':
        referenced_aggs(info.typedefs[tree[1]], info, acc)
    elif k == 'agg':
        acc.add((tree[1], tree[2]))
    elif k == 'anon':
        acc.add(('anon', tree[2]))
    elif k == 'ptr':
        referenced_aggs(tree[1], info, acc)
    elif k == 'arr':
        referenced_aggs(tree[2], info, acc)
    elif k == 'func':
        referenced_aggs(tree[1], info, acc)
        for p in tree[2]:
            referenced_aggs(p, info, acc)
    return acc


# --------------------------------------------------------------------------
# printing

def _lit(value, base, R=None):
    if base == 'o':
        return '0%o' % value if value else '00'
    if base == 'x':
        return '0x%x' % value
    if base == 'X':
        return '0X%X' % value
    return '%d' % value


def canonical_tokens(tree, name_tokens=()):
    """Plain spelling (used for the cdef and as the starting point of C08's
    declarator suffixes)."""
    return _print(tree, list(name_tokens), None, None, top=True)


def render_tokens(tree, R, info, name_prob=(1, 5)):
    """A random spelling of the tree as a token list."""
    name = [R.choice(VARNAMES)] if R.chance(*name_prob) else []
    return _print(tree, name, R, info, top=True)


def _spec_tokens(tree, R):
    """Declaration specifiers of a leaf, in a random order, qualifiers mixed in."""
    k = tree[0]
    if k == 'prim':
        alts = prim_spellings(tree[1])
        if R is None:
            return list(alts[0])
        words = list(R.choice(alts))
        if len(words) > 1:
            if R.chance(3, 4):
                # modifiers (any order) first, base keyword last: the order both parsers document
                mods = shuffled(R, [w for w in words if w in MODIFIERS])
                rest = [w for w in words if w not in MODIFIERS]
                words = mods + rest
            else:
                words = shuffled(R, words)
    elif k == 'void':
        words = ['void']
    elif k == 'td':
        words = [tree[1]]
    elif k == 'file':
        words = ['FILE']
    elif k == 'agg':
        words = [tree[1], tree[2]]
    else:
        raise ValueError(tree)
    if R is None:
        return words
    nq = R.choice([0, 0, 0, 0, 1, 1, 2])
    for _ in range(nq):
        q = R.choice(QUALS)
        if k == 'agg':
            pos = R.choice([0, 2])          # never between 'struct' and its tag
        else:
            c = R.below(4)
            pos = 0 if c == 0 else len(words) if c == 1 else R.below(len(words) + 1)
        words.insert(pos, q)
    return words


def _print(tree, d, R, info, top=False):
    """Declarator printing, inside-out.  `d` is the token list of the
    declarator built so far (innermost first)."""
    k = tree[0]
    if R is not None and d and d[0] == '*' and R.chance(1, 8):
        d = ['('] + d + [')']                     # redundant grouping parentheses: (*x), (*)
    elif R is not None and d and R.chance(1, 40):
        d = ['('] + d + [')']                     # ... also around names and parentheses
    if k == 'ptr':
        sub = tree[1]
        q = []
        if R is not None:
            for _ in range(R.choice([0, 0, 0, 1, 2])):
                q.append(R.choice(QUALS))
        inner = ['*'] + q + d
        if sub[0] in ('arr', 'func'):
            abi = sub[4] if sub[0] == 'func' else None
            if abi and (R is None or R.chance(2, 3)):
                inner = ['(', abi] + inner + [')']
            elif abi:
                inner = [abi, '('] + inner + [')']
            else:
                inner = ['('] + inner + [')']
        return _print(sub, inner, R, info)
    if k == 'arr':
        ls = tree[1]
        if ls is None:
            l = []
        elif ls[0] == 'lit':
            l = [_lit(ls[1], ls[2])]
        else:
            l = [ls[1]]
        return _print(tree[2], d + ['['] + l + [']'], R, info)
    if k == 'func':
        res, params, ellipsis = tree[1], tree[2], tree[3]
        ptoks = []
        if not params and not ellipsis:
            if R is None or R.chance(1, 2):
                ptoks = ['void']
            elif info is not None and R.chance(1, 6):
                # a typedef of void is as good as 'void' here (C11 6.7.6.3p10)
                tv = [n for n in sorted(info.typedefs) if expand(['td', n], info) == ['void']]
                if tv:
                    ptoks = [R.choice(tv)]
        for i, p in enumerate(params):
            if i:
                ptoks.append(',')
            pname = []
            if R is not None and R.chance(1, 4):
                pname = [R.choice(VARNAMES)]
            ptoks += _print(p, pname, R, info)
        if ellipsis:
            ptoks += ([','] if params else []) + ['...']
        return _print(res, d + ['('] + ptoks + [')'], R, info)
    return _spec_tokens(tree, R) + d


_WORD = re.compile(r'[A-Za-z0-9_$]')


def join_tokens(tokens, R=None):
    """Token list -> text.  A separator is mandatory only between two
    word-like tokens; elsewhere whitespace is a free choice."""
    if R is None:
        return ' '.join(tokens)
    out = []
    prev = ''
    for t in tokens:
        need = bool(prev) and _WORD.match(prev[-1]) is not None and _WORD.match(t[0]) is not None
        c = R.below(10)
        if need:
            sep = ' ' if c < 7 else ('  ', '\t', '\n')[c - 7]
        elif not prev:
            sep = '' if c < 8 else ' '
        else:
            sep = '' if c < 5 else ' ' if c < 8 else ('\t', '\n')[c - 8]
        out.append(sep + t)
        prev = t
    return ''.join(out)


# --------------------------------------------------------------------------
# near-miss mutation

PUNCT = ['(', ')', '[', ']', '*', ',', '...']
SPLICE_KEYWORDS = ['const', 'volatile', 'unsigned', 'signed', 'short', 'long', 'int', 'char', 'void',
                   'struct', 'union', 'enum', '__stdcall', '__cdecl', '_Bool', 'float', 'double',
                   '_Complex']


def mutate_tokens(tokens, R, info, edits=1):
    """`edits` small edits: delete / duplicate / swap / insert / replace /
    drop a bracket.  (C07 uses single edits: a family small enough to have
    been classified completely.)"""
    toks = list(tokens)
    vocab_ids = sorted(info.typedefs) + sorted(info.consts) + [t for _, t in sorted(info.aggs)] + VARNAMES[:2]
    for _ in range(edits):
        op = R.below(6)
        if not toks:
            op = 3
        if op == 0:
            del toks[R.below(len(toks))]
        elif op == 1:
            i = R.below(len(toks))
            toks.insert(i, toks[i])
        elif op == 2 and len(toks) >= 2:
            i = R.below(len(toks) - 1)
            j = i + 1 if R.chance(2, 3) else R.below(len(toks))
            toks[i], toks[j] = toks[j], toks[i]
        elif op in (3, 4):
            c = R.below(4)
            if c == 0:
                new = R.choice(PUNCT)
            elif c == 1:
                new = R.choice(SPLICE_KEYWORDS)
            elif c == 2 and vocab_ids:
                new = R.choice(vocab_ids)
            else:
                new = R.choice(['0', '1', '3', '08', '0x', '0x1F', '10'])
            if op == 3:
                toks.insert(R.below(len(toks) + 1), new)
            else:
                toks[R.below(len(toks))] = new
        else:
            # bracket imbalance
            idx = [i for i, t in enumerate(toks) if t in '()[]']
            if idx:
                del toks[R.choice(idx)]
            else:
                toks.append(R.choice(PUNCT))
    return toks


def undeclared_tag_use(tokens, info):
    """True if 'struct'/'union'/'enum' is followed by an identifier that is
    not a declared tag of that kind: the in-line FFI would *declare* it
    (outside the property's grammar, and a side effect on the FFI)."""
    for i, t in enumerate(tokens):
        if t in ('struct', 'union', 'enum'):
            if i + 1 < len(tokens):
                n = tokens[i + 1]
                if re.match(r'[A-Za-z_$]', n) and n not in KEYWORDS and (t, n) not in info.aggs:
                    return True
    return False


# --------------------------------------------------------------------------
# token patterns (predicates over the input) of divergence classes

SPEC_KEYWORDS = set(MODIFIERS) | {'int', 'char', 'float', 'double', '_Complex', '_Bool', 'void'}
_IDENT = re.compile(r'[A-Za-z_$][A-Za-z_0-9$]*$')
BUILTIN_TYPE_NAMES = set(STD_NAMES) | {'FILE', 'bool', '_cffi_float_complex_t', '_cffi_double_complex_t'}


def is_ident(tok):
    return _IDENT.match(tok) is not None and tok not in KEYWORDS


def is_type_name(tok, info):
    return tok in info.typedefs or tok in BUILTIN_TYPE_NAMES


def pat_qualifier_inside_specifiers(tokens, info):
    """const/volatile with a specifier keyword on both sides: 'unsigned const int'."""
    n = len(tokens)
    for i, t in enumerate(tokens):
        if t in QUALS:
            j = i - 1
            while j >= 0 and tokens[j] in QUALS:
                j -= 1
            k = i + 1
            while k < n and tokens[k] in QUALS:
                k += 1
            if j >= 0 and k < n and tokens[j] in SPEC_KEYWORDS and tokens[k] in SPEC_KEYWORDS:
                return True
    return False


def pat_paren_identifier(tokens, info):
    """'(' directly followed by an identifier that is not a type: '(x)', '(x[3])'."""
    for i in range(len(tokens) - 1):
        if tokens[i] == '(' and is_ident(tokens[i + 1]) and not is_type_name(tokens[i + 1], info):
            return True
    return False


def pat_paren_paren(tokens, info):
    """'(' followed (possibly after __cdecl/__stdcall) by '(' : doubled grouping parentheses."""
    n = len(tokens)
    for i in range(n - 1):
        if tokens[i] == '(':
            k = i + 1
            while k < n and tokens[k] in ('__cdecl', '__stdcall'):
                k += 1
            if k < n and tokens[k] == '(':
                return True
    return False


def aggs_named_in(tokens, info):
    acc = set()
    for i, t in enumerate(tokens):
        if t in ('struct', 'union', 'enum') and i + 1 < len(tokens):
            if (t, tokens[i + 1]) in info.aggs:
                acc.add((t, tokens[i + 1]))
        elif t in info.typedefs:
            referenced_aggs(['td', t], info, acc)
    return acc


def pat_typedef_renames_aggregate(tokens, info):
    """The string mentions (directly or through typedefs) a tagged
    struct/union/enum on which the context declares a typedef directly."""
    return any(a in info.agg_typedef for a in aggs_named_in(tokens, info))


def pat_function_typedef_parameter(tokens, info):
    """A typedef name of function type used as a by-value parameter."""
    n = len(tokens)
    for i, t in enumerate(tokens):
        if t in info.typedefs and category(['td', t], info) == 'func':
            k = i + 1
            while k < n and tokens[k] in QUALS:
                k += 1
            if k < n and is_ident(tokens[k]):
                k += 1
            if k < n and tokens[k] in (',', ')'):
                return True
    return False


def pat_void_typedef_parameter(tokens, info):
    """'(tv)' with tv a typedef of void, as the whole parameter list."""
    n = len(tokens)
    for i, t in enumerate(tokens):
        if t in info.typedefs and expand(['td', t], info) == ['void']:
            a = i - 1
            while a >= 0 and tokens[a] in QUALS:
                a -= 1
            b = i + 1
            while b < n and tokens[b] in QUALS:
                b += 1
            if b < n and is_ident(tokens[b]):
                b += 1
            if a >= 0 and tokens[a] == '(' and b < n and tokens[b] == ')':
                return True
    return False


def pat_abstract_function_qualifier_first(tokens, info):
    """'(' + const/volatile opening the parameter list of an abstract
    function declarator (nothing but specifiers, '*' and qualifiers before it)."""
    for i in range(1, len(tokens) - 1):
        if tokens[i] == '(' and tokens[i + 1] in QUALS:
            p = tokens[i - 1]
            if p in (')', ']'):
                continue
            if is_ident(p) and not is_type_name(p, info):
                # a declared name, or the tag of 'struct tag'
                if i >= 2 and tokens[i - 2] in ('struct', 'union', 'enum'):
                    return True
                continue
            return True
    return False


# ---- near-miss (ill-formed) inputs on which the two parsers are known to disagree ----

ABI_WORDS = ('__cdecl', '__stdcall')


def _match_paren(tokens, i):
    """Index of the ')' matching the '(' at i, or -1."""
    depth = 0
    for k in range(i, len(tokens)):
        if tokens[k] == '(':
            depth += 1
        elif tokens[k] == ')':
            depth -= 1
            if depth == 0:
                return k
    return -1


def _starts_type(tok, info):
    return (tok in SPEC_KEYWORDS or tok in ('struct', 'union', 'enum') or is_type_name(tok, info))


def pat_nm_implicit_int(tokens, info):
    """Qualifiers (at the start, after ',' or after '(') not followed by any
    type specifier: C89 implicit int ('const', 'volatile x', 'const *').  At
    the start and after ',' a __stdcall counts as a qualifier (the Python
    parser rewrites it into qualifiers): '(__stdcall *)()'."""
    n = len(tokens)
    for p in range(n):
        if p == 0 or tokens[p - 1] in (',', '('):
            abi_too = p == 0 or tokens[p - 1] == ','
            k, seen = p, False
            while k < n:
                if tokens[k] in QUALS or (abi_too and tokens[k] == '__stdcall'):
                    seen = True
                elif not (abi_too and tokens[k] == '(' and k + 1 < n and tokens[k + 1] == '__stdcall'):
                    break
                k += 1
            if seen and (k >= n or not _starts_type(tokens[k], info)):
                return True
    return False


def pat_nm_ellipsis_misplaced(tokens, info):
    """'...' anywhere but as ', ...)' at the end of a parameter list."""
    n = len(tokens)
    for i, t in enumerate(tokens):
        if t == '...':
            ok = i > 0 and tokens[i - 1] == ',' and i + 1 < n and tokens[i + 1] == ')'
            only = i > 0 and tokens[i - 1] == '(' and i + 1 < n and tokens[i + 1] == ')'
            if not ok and not only:
                return True
    return False


def pat_nm_ellipsis_only(tokens, info):
    """'(...)': a parameter list consisting of the ellipsis alone."""
    for i in range(1, len(tokens) - 1):
        if tokens[i] == '...' and tokens[i - 1] == '(' and tokens[i + 1] == ')':
            return True
    return False


def pat_nm_signed_ignored(tokens, info):
    """'signed' next to another sign keyword or to a non-integer base type
    ('signed signed', 'unsigned signed', 'signed float', 'signed void')."""
    n = len(tokens)
    i = 0
    while i < n:
        if tokens[i] in SPEC_KEYWORDS or tokens[i] in QUALS:
            j = i
            while j < n and (tokens[j] in SPEC_KEYWORDS or tokens[j] in QUALS or tokens[j] in ABI_WORDS):
                j += 1
            run = tokens[i:j]
            if 'signed' in run:
                signs = run.count('signed') + run.count('unsigned')
                if signs >= 2 or any(w in run for w in ('void', 'float', 'double', '_Bool', '_Complex')):
                    return True
            i = j
        else:
            i += 1
    return False


def pat_nm_abi_misplaced(tokens, info):
    """__cdecl/__stdcall anywhere but '(__stdcall *...)(' or '__stdcall (*...)('."""
    n = len(tokens)
    for i, t in enumerate(tokens):
        if t in ABI_WORDS:
            ok = False
            if i > 0 and tokens[i - 1] == '(' and i + 1 < n and tokens[i + 1] == '*':
                close = _match_paren(tokens, i - 1)
                ok = close >= 0 and close + 1 < n and tokens[close + 1] == '('
            elif i > 0 and i + 2 < n and tokens[i + 1] == '(' and tokens[i + 2] == '*':
                close = _match_paren(tokens, i + 1)
                ok = close >= 0 and close + 1 < n and tokens[close + 1] == '('
            if not ok:
                return True
    return False


def pat_nm_void_parameter_decorated(tokens, info):
    """'(const void)', '(void x)': a sole void parameter with qualifiers or a name."""
    n = len(tokens)
    for i, t in enumerate(tokens):
        if t == 'void':
            a = i - 1
            while a >= 0 and tokens[a] in QUALS:
                a -= 1
            b = i + 1
            while b < n and tokens[b] in QUALS:
                b += 1
            named = b < n and is_ident(tokens[b])
            if named:
                b += 1
            if a >= 0 and tokens[a] == '(' and b < n and tokens[b] == ')' and (named or b - a > 2):
                return True
    return False


def pat_nm_unbalanced_or_comma(tokens, info):
    """Text that escapes the single-declaration frame: a ')' without '(',
    an unclosed '(' or a ',' outside all parentheses."""
    depth = 0
    for t in tokens:
        if t == '(':
            depth += 1
        elif t == ')':
            depth -= 1
            if depth < 0:
                return True
        elif t == ',' and depth == 0:
            return True
    return depth != 0


def pat_nm_qualifier_in_brackets(tokens, info):
    """'[const 3]': C99 qualifiers (or an ABI keyword) inside array brackets."""
    for i in range(len(tokens) - 1):
        if tokens[i] == '[' and (tokens[i + 1] in QUALS or tokens[i + 1] in ABI_WORDS):
            return True
    return False


def pat_nm_typename_as_declared_name(tokens, info):
    """A type name in the position of the declared name inside grouping
    parentheses: '(*t0)'."""
    for i, t in enumerate(tokens):
        if is_type_name(t, info) and i > 0:
            k = i - 1
            seen_star = False
            while k >= 0 and (tokens[k] in QUALS or tokens[k] == '*' or tokens[k] in ABI_WORDS):
                seen_star = seen_star or tokens[k] == '*'
                k -= 1
            if seen_star and k >= 0 and tokens[k] == '(':
                return True
    return False


PATTERNS = [
    # well-formed C on which the parsers disagree
    ('qualifier-inside-specifiers', pat_qualifier_inside_specifiers),
    ('paren-identifier', pat_paren_identifier),
    ('paren-paren', pat_paren_paren),
    ('typedef-renames-aggregate', pat_typedef_renames_aggregate),
    ('function-typedef-parameter', pat_function_typedef_parameter),
    ('abstract-function-qualifier-first', pat_abstract_function_qualifier_first),
    ('void-typedef-parameter', pat_void_typedef_parameter),
    # ill-formed text accepted by one parser only
    ('nm-implicit-int', pat_nm_implicit_int),
    ('nm-ellipsis-misplaced', pat_nm_ellipsis_misplaced),
    ('nm-ellipsis-only', pat_nm_ellipsis_only),
    ('nm-signed-ignored', pat_nm_signed_ignored),
    ('nm-abi-misplaced', pat_nm_abi_misplaced),
    ('nm-void-parameter-decorated', pat_nm_void_parameter_decorated),
    ('nm-unbalanced-or-comma', pat_nm_unbalanced_or_comma),
    ('nm-qualifier-in-brackets', pat_nm_qualifier_in_brackets),
    ('nm-typename-as-declared-name', pat_nm_typename_as_declared_name),
]


def pattern_tags(tokens, info):
    return [name for name, fn in PATTERNS if fn(tokens, info)]


def pat_inv_array_of_functions(tokens, info):
    """'T ([7])(void)', 'T (x[7])()', 'fn_t [7]' with fn_t a typedef of a
    function type: an array whose elements are functions (invalid C); as a
    parameter the C parser turns it into a pointer to function."""
    n = len(tokens)
    for i in range(n - 2):
        if tokens[i] == ']' and tokens[i + 1] == ')' and tokens[i + 2] == '(':
            # '(' name? ('[' N? ']')+ ')' '('   -- no '*' inside: not an array of pointers
            k = i
            while k >= 0 and tokens[k] == ']':
                k -= 1
                if k >= 0 and tokens[k] != '[':
                    k -= 1
                if k < 0 or tokens[k] != '[':
                    k = -2
                    break
                k -= 1
            if k >= 0 and is_ident(tokens[k]) and not is_type_name(tokens[k], info):
                k -= 1
            if k >= 0 and tokens[k] == '(':
                return True
    for i, t in enumerate(tokens):
        if t in info.typedefs and category(['td', t], info) == 'func':
            k = i + 1
            while k < n and tokens[k] in QUALS:
                k += 1
            if k < n and is_ident(tokens[k]):
                k += 1
            if k < n and tokens[k] == '[':
                return True
    return False


PATTERNS.append(('inv-array-of-functions', pat_inv_array_of_functions))
