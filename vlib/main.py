"""Entry: builds the backend from the working tree, then re-executes the
runner in an environment whose sys.path starts with the fresh backend and
REPO/src (so the stale editable-install .so is never used)."""
import sys, os
sys.path.insert(0, os.path.dirname(os.path.dirname(os.path.abspath(__file__))))
from vlib import env, build


def main():
    try:
        bdir = build.backend(False)
    except build.BuildError as e:
        print('HARNESS-ERROR (build): %s' % e)
        sys.exit(2)
    cenv = env.child_env(bdir)
    os.chdir(env.VERIF)
    os.execve(env.PY, [env.PY, '-m', 'vlib.runner'] + sys.argv[1:], cenv)


if __name__ == '__main__':
    main()
