"""Development aid (not used by any registered check): with VERIF_COV=<dir> every Python process of a check
records line coverage of REPO/src/cffi (coverage.py) and flushes the gcov counters of a --coverage build of
_cffi_backend, also when it leaves through os._exit.  tools/cov_report.py prints what the generators never
reach inside the functions a property is anchored in."""
import os, sys
_d = os.environ.get('VERIF_COV')
if _d:
    try:
        import coverage, atexit
        _repo = os.path.abspath(os.environ.get('VERIF_REPO', '/repo'))
        os.makedirs(os.path.join(_d, 'py'), exist_ok=True)
        os.environ.setdefault('COVERAGE_CORE', 'sysmon')
        _cov = coverage.Coverage(data_file=os.path.join(_d, 'py', '.coverage'), data_suffix=True,
                                 include=[os.path.join(_repo, 'src', 'cffi', '*')])
        _cov.start()
        _done = [False]

        def _fin():
            if _done[0]:
                return
            _done[0] = True
            try:
                _cov.stop()
                _cov.save()
            except Exception as e:
                with open(os.path.join(_d, 'errors.log'), 'a') as f:
                    f.write('%d %r\n' % (os.getpid(), e))
            try:
                m = sys.modules.get('_cffi_backend')
                if m is not None:
                    import ctypes
                    ctypes.CDLL(m.__file__).verif_gcov_dump()
            except Exception:
                pass
        atexit.register(_fin)
        _orig_exit = os._exit

        def _exit(n):
            _fin()
            _orig_exit(n)
        os._exit = _exit
    except Exception as e:
        sys.stderr.write('cov sitecustomize: %r\n' % (e,))
