"""MANIFEST.setup_cmd: offline preparation (idempotent)."""
import sys, os, subprocess
sys.path.insert(0, os.path.dirname(os.path.dirname(os.path.abspath(__file__))))
from vlib import env, build

WHEELS = '/opt/veriftools/wheels'


def have(mod, path=None):
    e = dict(os.environ)
    if path:
        e['PYTHONPATH'] = path
    return subprocess.run([env.PY, '-c', 'import ' + mod], env=e,
                          capture_output=True).returncode == 0


def main():
    os.makedirs(env.BUILD, exist_ok=True)
    if not have('hypothesis'):
        subprocess.run([env.PY, '-m', 'pip', 'install', '--no-index', '--find-links', WHEELS,
                        '--target', env.DEPS, 'hypothesis'], check=False)
    if not have('atheris', env.DEPS):
        subprocess.run([env.PY, '-m', 'pip', 'install', '--no-index', '--find-links', WHEELS,
                        '--target', env.DEPS, '--no-deps', 'atheris'], check=False)
    print('backend:', build.backend(False))
    print('asan backend:', build.backend(True))
    print('hypothesis:', have('hypothesis', env.DEPS), 'atheris:', have('atheris', env.DEPS))


if __name__ == '__main__':
    main()
