"""atheris harness for C30 (run as a script by vlib/fuzz30.py).
argv: libFuzzer options + corpus dir.  env: C30_KNOWN (json list of known
bucket tags), C30_OUT (directory for stats / finding files), C30_ID."""
import sys, os, json, warnings
warnings.simplefilter('ignore')
sys.setrecursionlimit(3000)
import atheris
with atheris.instrument_imports(include=os.environ.get('C30_INSTR', 'cffi,pycparser').split(',')):
    import cffi
    import cffi.cparser
    import pycparser
from checks import c30_error_types as m
from vlib.core import h64

KNOWN = set(json.loads(os.environ.get('C30_KNOWN', '[]')))
OUT = os.environ['C30_OUT']
TAG = os.environ.get('C30_ID', str(os.getpid()))
stats = {'execs': 0, 'evaluated': 0, 'nontrivial': 0, 'skipped_known': {}, 'samples': []}
keys = set()


def flush():
    stats['keys'] = list(keys)[:200000]
    p = os.path.join(OUT, 'stats-%s.json' % TAG)
    with open(p + '.tmp', 'w') as f:
        json.dump(stats, f)
    os.rename(p + '.tmp', p)


def TestOneInput(data):
    stats['execs'] += 1
    if stats['execs'] % 100 == 0 or stats['execs'] in (1, 10, 30):
        flush()
    if len(data) < 1:
        return
    entry = 'cdef' if data[0] & 1 else 'typeof'
    text = data[1:].decode('utf-8', 'replace')
    if m.too_deep(text):
        return
    stats['evaluated'] += 1
    import re
    if re.search(r'[A-Za-z_;]', text):
        stats['nontrivial'] += 1
        keys.add(h64(entry + '\0' + text))
        if len(stats['samples']) < 6 and len(text) > 8 and stats['execs'] % 97 == 0:
            stats['samples'].append({'entry': entry, 'text': text})
    r = m.run_inline(entry, text)
    if r is None:
        return
    bucket, msg = r
    tag = m.known_bucket_tag(bucket)
    if tag in KNOWN:
        stats['skipped_known'][tag] = stats['skipped_known'].get(tag, 0) + 1
        return
    with open(os.path.join(OUT, 'finding-%s.json' % TAG), 'w') as f:
        json.dump({'case': {'entry': entry, 'text': text, 'mutated_from_valid': False},
                   'bucket': bucket, 'message': msg}, f)
    flush()
    os._exit(77)


def main():
    atheris.Setup(sys.argv, TestOneInput)
    atheris.Fuzz()


if __name__ == '__main__':
    try:
        main()
    finally:
        flush()
