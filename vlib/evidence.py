import json, os, time
from . import env


def write(mod, ctx, tier, seed, wall, violations, extra_cov=None):
    cov = {
        'evaluations': ctx.evaluations,
        'distinct_nontrivial': len(ctx.keys),
        'rule': mod.RULE,
        'samples': ctx.samples(),
        'hypothesis_cases': ctx.cases,
        'classes': dict(sorted(ctx.classes.items(), key=lambda kv: -kv[1])[:60]),
        'skipped_known': dict(ctx.skipped_known),
    }
    cov.update(ctx.extra)
    if extra_cov:
        cov.update(extra_cov)
    ev = {
        'property_id': mod.ID, 'tier': tier, 'seed': seed,
        'level': getattr(mod, 'LEVEL', 'exploration'),
        'coverage': cov,
        'assumptions': list(getattr(mod, 'ASSUMPTIONS', [])),
        'wall_s': round(wall, 2), 'violations': violations,
    }
    # runs against a scratch copy (VERIF_REPO: mutant / seeded-change validation) must not
    # overwrite the evidence of the unchanged tree
    d = os.path.join(env.VERIF, 'evidence' if env.REPO == '/repo' and not os.environ.get('VERIF_COV') else 'evidence-scratch')
    os.makedirs(d, exist_ok=True)
    p = os.path.join(d, mod.ID + '.json')
    tmp = p + '.tmp%d' % os.getpid()
    with open(tmp, 'w') as f:
        json.dump(ev, f, indent=1, sort_keys=True, default=repr)
        f.write('\n')
    os.rename(tmp, p)
    return p
