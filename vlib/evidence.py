import json, os, time
from . import env


def write(mod, ctx, tier, seed, wall, violations, extra_cov=None):
    cov = {
        'evaluations': ctx.evaluations,
        'distinct_nontrivial': len(ctx.keys),
        'rule': mod.RULE,
        'samples': ctx.samples(),
        'hypothesis_cases': ctx.cases,
        'classes': dict(sorted(ctx.classes.items(), key=lambda kv: -kv[1])[:60]),
        'skipped_known': dict(ctx.skipped_known),
    }
    cov.update(ctx.extra)
    if extra_cov:
        cov.update(extra_cov)
    # schema: 'exhaustive' is a boolean and means that the run enumerated a finite space completely;
    # a check that enumerates only a part completely (and explores the rest) says so under another key
    ex = cov.get('exhaustive')
    if ex is not None and not isinstance(ex, bool):
        if isinstance(ex, (int, float)):
            cov['exhaustive'] = bool(ex)
        else:
            cov['exhaustively_enumerated_part'] = cov.pop('exhaustive')
    for k in ('evaluations', 'distinct_nontrivial', 'states', 'transitions', 'obligations', 'discharged',
              'programs', 'disagreements_checked', 'traces_validated_against_impl'):
        if k in cov and not (isinstance(cov[k], int) and not isinstance(cov[k], bool) and cov[k] >= 0):
            cov[k + '_detail'] = cov.pop(k)
    ev = {
        'property_id': mod.ID, 'tier': tier, 'seed': seed,
        'level': getattr(mod, 'LEVEL', 'exploration'),
        'coverage': cov,
        'assumptions': list(getattr(mod, 'ASSUMPTIONS', [])),
        'wall_s': round(wall, 2), 'violations': violations,
    }
    # runs against a scratch copy (VERIF_REPO: mutant / seeded-change validation) must not
    # overwrite the evidence of the unchanged tree
    d = os.path.join(env.VERIF, 'evidence' if env.REPO == '/repo' and not os.environ.get('VERIF_COV') else 'evidence-scratch')
    os.makedirs(d, exist_ok=True)
    p = os.path.join(d, mod.ID + '.json')
    tmp = p + '.tmp%d' % os.getpid()
    with open(tmp, 'w') as f:
        json.dump(ev, f, indent=1, sort_keys=True, default=repr)
        f.write('\n')
    os.rename(tmp, p)
    return p
