"""G-CDEF: random cdefs as structured, JSON-serialisable specs, rendered to
(a) cdef text / token lines, (b) a matching C source that defines everything.

spec = {'decls': [decl, ...]}   (order matters: later decls use earlier ones)

decl kinds ('k'):
  typedef   {'k','name','type'}
  struct    {'k','kw': 'struct'|'union','tag','fields': [[name, type, bits|None], ...],
             'tdname': None|str}         tdname: written as  typedef struct tag {...} tdname;
  opaque    {'k','kw','tag'}             struct tag;   (never completed)
  enum      {'k','tag','items': [[name, value|None], ...]}
  define    {'k','name','value'}         #define NAME <int literal>
  const     {'k','name','ctype','value'} static const <ctype> NAME = <value>;  (cdef: static const ctype NAME;)
  func      {'k','name','ret': type,'args': [type, ...]}
  gvar      {'k','name','type','init'}   init: int | [ints] | None (zero)
  fptd      {'k','name','ret','args'}    typedef ret (*name)(args);

type: ['prim', name] | ['ptr', T] | ['arr', n, T] | ['td', name] | ['agg', kw, tag]
      | ['enum', tag] | ['fptr', ret, [args]]

Opt-in features (not in DEFAULT_FEATURES; without them generation is unchanged):
  'anon'      struct/union members of anonymous aggregate type: field type
              ['anon', kw, fields]; field name '' = unnamed member (C11), else a
              named member of anonymous type
  'anon_td'   'typedef struct {...} T;' (struct decl with 'tag': None, 'tdname': T;
              referenced as ['td', T]) and 'typedef enum [tag] {...} T;' (enum decl with
              'tag': None or a tag, 'tdname': T)
  'file'      'FILE' as a pointee (['prim', 'FILE']; the C source then needs <stdio.h>:
              c_source(..., stdio=True))
  'gvar_any'  global variables of typedef / aggregate / enum type ('init': None)
  'variadic'  func decls with 'ellipsis': True   (int f(int, ...);)
split_chain(spec, cuts) cuts one spec into an ffi.include() chain of specs.
"""
from hypothesis import strategies as st

INT_PRIMS = ['char', 'signed char', 'unsigned char', 'short', 'unsigned short', 'int',
             'unsigned int', 'long', 'unsigned long', 'long long', 'unsigned long long',
             'int8_t', 'uint8_t', 'int16_t', 'uint16_t', 'int32_t', 'uint32_t', 'int64_t',
             'uint64_t', 'size_t', 'ssize_t', 'intptr_t', 'uintptr_t', '_Bool', 'wchar_t']
FLOAT_PRIMS = ['float', 'double']
INT_RANGE = {
    'char': (0, 127), 'signed char': (-128, 127), 'unsigned char': (0, 255),
    'short': (-2**15, 2**15 - 1), 'unsigned short': (0, 2**16 - 1),
    'int': (-2**31, 2**31 - 1), 'unsigned int': (0, 2**32 - 1),
    'long': (-2**63, 2**63 - 1), 'unsigned long': (0, 2**64 - 1),
    'long long': (-2**63, 2**63 - 1), 'unsigned long long': (0, 2**64 - 1),
    'int8_t': (-128, 127), 'uint8_t': (0, 255), 'int16_t': (-2**15, 2**15 - 1),
    'uint16_t': (0, 2**16 - 1), 'int32_t': (-2**31, 2**31 - 1), 'uint32_t': (0, 2**32 - 1),
    'int64_t': (-2**63, 2**63 - 1), 'uint64_t': (0, 2**64 - 1), 'size_t': (0, 2**64 - 1),
    'ssize_t': (-2**63, 2**63 - 1), 'intptr_t': (-2**63, 2**63 - 1),
    'uintptr_t': (0, 2**64 - 1), '_Bool': (0, 1), 'wchar_t': (0, 2**31 - 1),
}
BF_PRIMS = ['signed char', 'unsigned char', 'short', 'unsigned short', 'int', 'unsigned int',
            'long', 'unsigned long', 'long long', 'unsigned long long']
BF_BITS = {'signed char': 8, 'unsigned char': 8, 'short': 16, 'unsigned short': 16, 'int': 32,
           'unsigned int': 32, 'long': 64, 'unsigned long': 64, 'long long': 64,
           'unsigned long long': 64}

API_ONLY_FEATURES = frozenset(['const_novalue'])
DEFAULT_FEATURES = frozenset(['typedef', 'struct', 'union', 'opaque', 'enum', 'define', 'const',
                              'func', 'gvar', 'fptd', 'bitfield', 'nested', 'array', 'fptr'])


class _Scope(object):
    def __init__(self):
        self.complete = []      # types usable by value (td/agg/enum)
        self.pointee = []       # types usable only behind a pointer (opaque)
        self.scalars = []       # td/enum types that are scalar (usable as func arg/ret)
        self.n = 0
        self.int_consts = []    # names of small positive integer constants (array lengths)
        self.feats = frozenset()

    def fresh(self, prefix):
        self.n += 1
        return '%s%d' % (prefix, self.n)


def _lit(draw, v):
    """an integer literal spelling of v (decimal / hex / octal)"""
    how = draw(st.integers(0, 3))
    if v < 0:
        return '-' + _lit(draw, -v) if how else str(v)
    if how == 1:
        return hex(v)
    if how == 2 and v > 0:
        return '0' + oct(v)[2:]
    return str(v)


def _prim(draw, floats=True):
    if floats and draw(st.integers(0, 5)) == 0:
        return ['prim', draw(st.sampled_from(FLOAT_PRIMS))]
    return ['prim', draw(st.sampled_from(INT_PRIMS))]


def _scalar(draw, sc, depth=0):
    """a scalar type (valid as function argument / result / simple field)"""
    c = draw(st.integers(0, 9))
    if c <= 4 or depth > 1:
        return _prim(draw)
    if c == 5 and sc.scalars:
        return draw(st.sampled_from(sc.scalars))
    if c in (6, 7):
        return ['ptr', _any_pointee(draw, sc, depth + 1)]
    if c == 8 and sc.scalars:
        return draw(st.sampled_from(sc.scalars))
    return _prim(draw)


def _any_pointee(draw, sc, depth):
    c = draw(st.integers(0, 6))
    if c == 0:
        return ['prim', 'void']
    if c == 1 and sc.pointee:
        return draw(st.sampled_from(sc.pointee))
    if c == 2 and sc.complete:
        return draw(st.sampled_from(sc.complete))
    if c == 3 and depth < 2:
        return ['ptr', _any_pointee(draw, sc, depth + 1)]
    if c == 4 and 'file' in sc.feats:
        return ['prim', 'FILE']
    return _prim(draw)


def _field_type(draw, sc, feats, depth=0):
    c = draw(st.integers(0, 11))
    if c <= 4:
        return _prim(draw)
    if c == 5:
        return ['ptr', _any_pointee(draw, sc, 1)]
    if c == 6 and sc.complete and 'nested' in feats:
        return draw(st.sampled_from(sc.complete))
    if c in (7, 8) and 'array' in feats and depth < 2:
        n = draw(st.integers(1, 5))
        if sc.int_consts and draw(st.booleans()):
            n = draw(st.sampled_from(sc.int_consts))
        return ['arr', n, _field_type(draw, sc, feats, depth + 1)]
    if c == 9 and 'fptr' in feats:
        return ['fptr', _scalar(draw, sc, 1), [_scalar(draw, sc, 1) for _ in range(draw(st.integers(0, 3)))]]
    if c == 10 and sc.scalars:
        return draw(st.sampled_from(sc.scalars))
    return _prim(draw)


def _anon_member(draw, sc, feats, counter, depth):
    """a member of anonymous struct/union type (feature 'anon')"""
    kw = draw(st.sampled_from(['struct', 'union']))
    fields = []
    for _ in range(draw(st.integers(1, 3))):
        counter[0] += 1
        fname = 'n%d' % counter[0]
        c = draw(st.integers(0, 7))
        if c == 0 and depth < 2:
            fields.append(_anon_member(draw, sc, feats, counter, depth + 1))
        elif c == 1 and 'bitfield' in feats:
            p = draw(st.sampled_from(BF_PRIMS))
            fields.append([fname, ['prim', p], draw(st.integers(1, BF_BITS[p]))])
        else:
            fields.append([fname, _field_type(draw, sc, feats), None])
    counter[0] += 1
    name = '' if draw(st.integers(0, 2)) else 'n%d' % counter[0]
    return [name, ['anon', kw, fields], None]


@st.composite
def specs(draw, features=DEFAULT_FEATURES, min_decls=2, max_decls=10):
    feats = set(features)
    sc = _Scope()
    sc.feats = frozenset(feats)
    decls = []
    kinds = [k for k in ['typedef', 'struct', 'struct', 'union', 'opaque', 'enum', 'define',
                         'const', 'func', 'func', 'gvar', 'fptd'] if k in feats]
    n = draw(st.integers(min_decls, max_decls))
    for _ in range(n):
        k = draw(st.sampled_from(kinds))
        if k == 'typedef':
            name = sc.fresh('t')
            t = _field_type(draw, sc, feats)
            decls.append({'k': 'typedef', 'name': name, 'type': t})
            sc.complete.append(['td', name])
            if t[0] in ('prim', 'ptr', 'enum') or (t[0] == 'td' and t in sc.scalars):
                sc.scalars.append(['td', name])
        elif k in ('struct', 'union'):
            tag = sc.fresh('s' if k == 'struct' else 'u')
            fields = []
            anon_counter = [0]
            for i in range(draw(st.integers(1, 6))):
                fname = 'm%d' % i
                if 'anon' in feats and draw(st.integers(0, 4)) == 0:
                    fields.append(_anon_member(draw, sc, feats, anon_counter, 0))
                elif 'bitfield' in feats and draw(st.integers(0, 5)) == 0:
                    p = draw(st.sampled_from(BF_PRIMS))
                    fields.append([fname, ['prim', p], draw(st.integers(1, BF_BITS[p]))])
                else:
                    fields.append([fname, _field_type(draw, sc, feats), None])
            tdname = sc.fresh('T') if draw(st.integers(0, 3)) == 0 else None
            if 'anon_td' in feats and draw(st.integers(0, 3)) == 0:
                # typedef struct { ... } T;
                tdname = tdname or sc.fresh('T')
                decls.append({'k': 'struct', 'kw': k, 'tag': None, 'fields': fields, 'tdname': tdname})
                sc.complete.append(['td', tdname])
                continue
            if 'cycle' in feats and tdname is None and draw(st.integers(0, 4)) == 0:
                # a reference cycle: this aggregate points to the *next* one, which embeds this one
                # by value  (union U { struct S *p; ... };  struct S { union U u; ... };)
                kw2 = draw(st.sampled_from(['struct', 'union']))
                tag2 = sc.fresh('s' if kw2 == 'struct' else 'u')
                fields.insert(draw(st.integers(0, len(fields))), ['mc', ['ptr', ['agg', kw2, tag2]], None])
                decls.append({'k': 'struct', 'kw': k, 'tag': tag, 'fields': fields, 'tdname': None})
                sc.complete.append(['agg', k, tag])
                f2 = [['n0', _prim(draw), None], ['n1', ['agg', k, tag], None]]
                if draw(st.booleans()):
                    f2.reverse()
                decls.append({'k': 'struct', 'kw': kw2, 'tag': tag2, 'fields': f2, 'tdname': None})
                sc.complete.append(['agg', kw2, tag2])
                continue
            decls.append({'k': 'struct', 'kw': k, 'tag': tag, 'fields': fields, 'tdname': tdname})
            sc.complete.append(['agg', k, tag])
        elif k == 'opaque':
            kw = draw(st.sampled_from(['struct', 'union']))
            tag = sc.fresh('o')
            decls.append({'k': 'opaque', 'kw': kw, 'tag': tag})
            sc.pointee.append(['agg', kw, tag])
        elif k == 'enum':
            tag = sc.fresh('e')
            items = []
            for i in range(draw(st.integers(1, 5))):
                v = None
                if draw(st.booleans()):
                    v = draw(st.one_of(st.integers(-5, 300), st.sampled_from(
                        [-2**31, 2**31 - 1, 2**31, 2**32 - 1, -1, 0])))
                if v is None and items and items[-1][1] in (2**31 - 1, 2**32 - 1):
                    v = items[-1][1] + 1    # gcc: "overflow in enumeration values" for an implicit successor
                items.append(['%s_%s%d' % (tag.upper(), 'V', i), v])
            # keep the value set representable in int or unsigned int or long (gcc rule)
            if 'anon_td' in feats and draw(st.integers(0, 3)) == 0:
                # typedef enum { ... } T;
                tdname = sc.fresh('T')
                keep_tag = draw(st.integers(0, 2)) == 0     # typedef enum tag { ... } T;
                decls.append({'k': 'enum', 'tag': tag if keep_tag else None, 'items': items, 'tdname': tdname})
                sc.complete.append(['td', tdname])
                sc.scalars.append(['td', tdname])
                if keep_tag:
                    sc.complete.append(['enum', tag])
                    sc.scalars.append(['enum', tag])
                continue
            decls.append({'k': 'enum', 'tag': tag, 'items': items})
            sc.complete.append(['enum', tag])
            sc.scalars.append(['enum', tag])
        elif k == 'define':
            name = sc.fresh('D')
            v = draw(st.one_of(st.integers(1, 9), st.integers(0, 2**31 - 1),
                               st.integers(-2**31, -1), st.integers(2**31, 2**64 - 1)))
            decls.append({'k': 'define', 'name': name, 'value': v, 'lit': _lit(draw, v)})
            if 1 <= v <= 9:
                sc.int_consts.append(name)
        elif k == 'const':
            name = sc.fresh('K')
            ct = draw(st.sampled_from([p for p in INT_PRIMS if p not in ('_Bool', 'wchar_t', 'char')]))
            lo, hi = INT_RANGE[ct]
            v = draw(st.one_of(st.integers(lo, hi), st.sampled_from([lo, hi, 0, 1])))
            withval = draw(st.booleans()) if 'const_novalue' in feats else True
            decls.append({'k': 'const', 'name': name, 'ctype': ct, 'value': v, 'withval': withval})
        elif k == 'func':
            name = sc.fresh('f')
            ret = draw(st.one_of(st.just(['prim', 'void']), st.builds(lambda: None))) if False else None
            ret = ['prim', 'void'] if draw(st.integers(0, 5)) == 0 else _scalar(draw, sc)
            args = [_scalar(draw, sc) for _ in range(draw(st.integers(0, 5)))]
            decls.append({'k': 'func', 'name': name, 'ret': ret, 'args': args})
            if 'variadic' in feats and args and draw(st.integers(0, 3)) == 0:
                decls[-1]['ellipsis'] = True
        elif k == 'gvar':
            name = sc.fresh('g')
            if 'gvar_any' in feats and sc.complete and draw(st.integers(0, 2)) == 0:
                decls.append({'k': 'gvar', 'name': name, 'type': draw(st.sampled_from(sc.complete)),
                              'init': None})
                continue
            c = draw(st.integers(0, 4))
            if c <= 2:
                p = draw(st.sampled_from([q for q in INT_PRIMS if q != '_Bool']))
                lo, hi = INT_RANGE[p]
                decls.append({'k': 'gvar', 'name': name, 'type': ['prim', p],
                              'init': draw(st.one_of(st.integers(lo, hi), st.sampled_from([lo, hi])))})
            elif c == 3:
                p = draw(st.sampled_from(['int', 'short', 'unsigned char', 'long']))
                ln = draw(st.integers(1, 6))
                decls.append({'k': 'gvar', 'name': name, 'type': ['arr', ln, ['prim', p]],
                              'init': [draw(st.integers(0, 100)) for _ in range(ln)]})
            else:
                decls.append({'k': 'gvar', 'name': name, 'type': ['ptr', _any_pointee(draw, sc, 1)],
                              'init': None})
        elif k == 'fptd':
            name = sc.fresh('fp')
            decls.append({'k': 'fptd', 'name': name, 'ret': _scalar(draw, sc, 1),
                          'args': [_scalar(draw, sc, 1) for _ in range(draw(st.integers(0, 3)))]})
            sc.complete.append(['td', name])
            sc.scalars.append(['td', name])
    return {'decls': decls}


# ---------------------------------------------------------------- rendering

def declarator(t, inner):
    """C declarator text for type t around `inner` (a name or '')"""
    k = t[0]
    if k == 'prim':
        return (t[1] + ' ' + inner).rstrip()
    if k == 'td':
        return (t[1] + ' ' + inner).rstrip()
    if k == 'agg':
        return ('%s %s %s' % (t[1], t[2], inner)).rstrip()
    if k == 'enum':
        return ('enum %s %s' % (t[1], inner)).rstrip()
    if k == 'ptr':
        tgt = t[1]
        if tgt[0] in ('arr',):
            return declarator(tgt, '(*%s)' % inner)
        return declarator(tgt, '*' + inner)
    if k == 'arr':
        return declarator(t[2], '%s[%s]' % (inner, t[1]))
    if k == 'fptr':
        args = ', '.join(declarator(a, '') for a in t[2]) or 'void'
        return declarator(t[1], '(*%s)(%s)' % (inner, args))
    if k == 'anon':
        return ('%s { %s } %s' % (t[1], _fields_body(t[2]), inner)).rstrip()
    raise ValueError(t)


def _fields_body(fields):
    return ' '.join('%s%s;' % (declarator(ft, fn), (' : %d' % bits) if bits else '')
                    for fn, ft, bits in fields)


def decl_lines(spec, for_c=False):
    """list of (text, is_directive) in declaration order.  for_c=False: cdef
    text; for_c=True: the corresponding C declarations/definitions."""
    out = []
    for d in spec['decls']:
        k = d['k']
        if k == 'typedef':
            out.append(('typedef %s;' % declarator(d['type'], d['name']), False))
        elif k == 'struct':
            body = ' '.join('%s%s;' % (declarator(ft, fn), (' : %d' % bits) if bits else '')
                            for fn, ft, bits in d['fields'])
            if d['tdname']:
                out.append(('typedef %s %s { %s } %s;' % (d['kw'], d['tag'] or '', body, d['tdname']), False))
            else:
                out.append(('%s %s { %s };' % (d['kw'], d['tag'], body), False))
        elif k == 'opaque':
            out.append(('%s %s;' % (d['kw'], d['tag']), False))
        elif k == 'enum':
            items = ', '.join(n if v is None else '%s = %s' % (n, _c_int(v)) for n, v in d['items'])
            if d.get('tdname'):
                out.append(('typedef enum %s { %s } %s;' % (d['tag'] or '', items, d['tdname']), False))
            else:
                out.append(('enum %s { %s };' % (d['tag'], items), False))
        elif k == 'define':
            lit = d.get('lit') or str(d['value'])
            if for_c:
                out.append(('#define %s %s' % (d['name'], _c_int(d['value'])), True))
            else:
                out.append(('#define %s %s' % (d['name'], lit), True))
        elif k == 'const':
            if for_c == 'abi':
                out.append(('const %s %s = %s;' % (d['ctype'], d['name'], _c_int(d['value'])), False))
            elif for_c:
                out.append(('static const %s %s = %s;' % (d['ctype'], d['name'], _c_int(d['value'])), False))
            elif d.get('withval', True):
                out.append(('static const %s %s = %s;' % (d['ctype'], d['name'], d['value']), False))
            else:
                out.append(('static const %s %s;' % (d['ctype'], d['name']), False))
        elif k == 'func':
            args = ', '.join(declarator(a, 'a%d' % i if for_c else '') for i, a in enumerate(d['args'])) or 'void'
            if d.get('ellipsis'):
                args += ', ...'
            proto = '%s(%s)' % (declarator(d['ret'], d['name']), args)
            if for_c:
                out.append((proto + ' ' + _func_body(d), False))
            else:
                out.append((proto + ';', False))
        elif k == 'gvar':
            if for_c:
                init = d['init']
                if init is None:
                    out.append(('%s;' % declarator(d['type'], d['name']), False))
                elif isinstance(init, list):
                    out.append(('%s = { %s };' % (declarator(d['type'], d['name']),
                                                    ', '.join(_c_int(v) for v in init)), False))
                else:
                    out.append(('%s = %s;' % (declarator(d['type'], d['name']), _c_int(init)), False))
            else:
                out.append(('extern %s;' % declarator(d['type'], d['name']), False))
        elif k == 'fptd':
            out.append(('typedef %s;' % declarator(['fptr', d['ret'], d['args']], d['name']), False))
        else:
            raise ValueError(k)
    return out


def _c_int(v):
    if v == -2**63:
        return '(-9223372036854775807LL-1)'
    if v == -2**31:
        return '(-2147483647-1)'
    if v >= 2**63:
        return '%dULL' % v
    if v >= 2**31 or v < -2**31:
        return '%dLL' % v
    return str(v)


def _is_float(t, spec):
    t = resolve(t, spec)
    return t[0] == 'prim' and t[1] in ('float', 'double')


def resolve(t, spec):
    """strip typedefs"""
    while t[0] == 'td':
        for d in spec['decls'] if isinstance(spec, dict) else spec:
            if d['k'] == 'typedef' and d['name'] == t[1]:
                t = d['type']
                break
            if d['k'] == 'fptd' and d['name'] == t[1]:
                return ['fptr', d['ret'], d['args']]
            if d['k'] == 'struct' and d.get('tdname') == t[1]:
                return ['agg', d['kw'], d['tag']]
            if d['k'] == 'enum' and d.get('tdname') == t[1]:
                return ['enum', d['tag']]
        else:
            raise KeyError(t)
    return t


_SPEC_FOR_BODY = [None]


def _func_body(d):
    spec = _SPEC_FOR_BODY[0]
    lines = ['unsigned long long acc = 7;']
    for i, a in enumerate(d['args']):
        r = resolve(a, spec)
        if r[0] in ('ptr', 'fptr'):
            lines.append('acc += (a%d != 0) * %d;' % (i, i + 2))
        elif r[0] == 'prim' and r[1] in ('float', 'double'):
            lines.append('acc += (a%d > 0.5) * %d;' % (i, i + 11))
        else:
            lines.append('acc += (unsigned long long)a%d * %d;' % (i, 2 * i + 3))
    r = resolve(d['ret'], spec)
    if r == ['prim', 'void']:
        lines.append('(void)acc;')
    elif r[0] in ('ptr', 'fptr'):
        same = [i for i, a in enumerate(d['args']) if a == d['ret']]
        lines.append('return %s;' % ('a%d' % same[0] if same else '0'))
    elif r[0] == 'prim' and r[1] in ('float', 'double'):
        lines.append('return (%s)(acc %% 1000) / 4;' % declarator(d['ret'], ''))
    elif r[0] == 'prim' and r[1] == '_Bool':
        lines.append('return (acc & 1);')
    elif r[0] == 'enum':
        lines.append('return (%s)(acc %% 3);' % declarator(d['ret'], ''))
    else:
        lines.append('return (%s)acc;' % declarator(d['ret'], ''))
    return '{ ' + ' '.join(lines) + ' }'


def cdef_text(spec):
    return '\n'.join(t for t, _ in decl_lines(spec)) + '\n'


def c_source(spec, abi=False, stdio=False):
    """C source defining everything the cdef declares.  abi=True: constants
    are exported objects (for dlopen) instead of 'static const'.
    stdio=True: also #include <stdio.h> (feature 'file')."""
    _SPEC_FOR_BODY[0] = spec
    try:
        lines = decl_lines(spec, for_c='abi' if abi else True)
    finally:
        _SPEC_FOR_BODY[0] = None
    return ('#include <stddef.h>\n#include <stdint.h>\n#include <sys/types.h>\n#include <wchar.h>\n'
            + ('#include <stdio.h>\n' if stdio else '')
            + '\n'.join(t for t, _ in lines) + '\n')


def kinds(spec):
    return sorted(set(d['k'] for d in spec['decls']))


def split_chain(spec, cuts):
    """Cut one spec into an ffi.include() chain: returns [base0, base1, ..., main],
    each a spec whose decls only use names of itself and of earlier elements
    (decls are generated in dependency order, so every split into consecutive
    runs is valid).  `cuts`: increasing indices into spec['decls']."""
    decls = spec['decls']
    out, prev = [], 0
    for c in list(cuts) + [len(decls)]:
        c = max(prev, min(len(decls), c))
        out.append({'decls': decls[prev:c]})
        prev = c
    return out


def _rename_type(t, f):
    k = t[0]
    if k == 'prim':
        return t
    if k == 'td':
        return ['td', f(t[1])]
    if k == 'agg':
        return ['agg', t[1], f(t[2])]
    if k == 'enum':
        return ['enum', f(t[1])]
    if k == 'ptr':
        return ['ptr', _rename_type(t[1], f)]
    if k == 'arr':
        return ['arr', f(t[1]) if isinstance(t[1], str) else t[1], _rename_type(t[2], f)]
    if k == 'fptr':
        return ['fptr', _rename_type(t[1], f), [_rename_type(a, f) for a in t[2]]]
    if k == 'anon':
        return ['anon', t[1], [[fn, _rename_type(ft, f), b] for fn, ft, b in t[2]]]
    raise ValueError(t)


def rename(spec, suffix):
    """A copy of spec in which every file-scope name (typedefs, tags, enumerators,
    constants, functions, globals; not field names) carries `suffix`, so that the
    C sources of several specs can be linked into one shared object."""
    f = lambda n: None if n is None else n + suffix
    out = []
    for d in spec['decls']:
        d = dict(d)
        k = d['k']
        if k == 'typedef':
            d['name'] = f(d['name']); d['type'] = _rename_type(d['type'], f)
        elif k == 'struct':
            d['tag'] = f(d['tag']); d['tdname'] = f(d['tdname'])
            d['fields'] = [[fn, _rename_type(ft, f), b] for fn, ft, b in d['fields']]
        elif k == 'opaque':
            d['tag'] = f(d['tag'])
        elif k == 'enum':
            d['tag'] = f(d['tag'])
            if 'tdname' in d:
                d['tdname'] = f(d['tdname'])
            d['items'] = [[f(n), v] for n, v in d['items']]
        elif k in ('define', 'const'):
            d['name'] = f(d['name'])
        elif k in ('func', 'fptd'):
            d['name'] = f(d['name']); d['ret'] = _rename_type(d['ret'], f)
            d['args'] = [_rename_type(a, f) for a in d['args']]
        elif k == 'gvar':
            d['name'] = f(d['name']); d['type'] = _rename_type(d['type'], f)
        else:
            raise ValueError(k)
        out.append(d)
    return {'decls': out}


def gcc_safe(spec):
    """specs() can draw an enumerator without a value right after one whose value is
    INT_MAX; gcc rejects that ('overflow in enumeration values').  Returns the spec with
    such enumerators given their value explicitly (same meaning for cffi).  Use as
    specs(...).map(gcc_safe) when the C source is compiled."""
    out = []
    for d in spec['decls']:
        if d['k'] == 'enum':
            items, nxt = [], 0
            for n, v in d['items']:
                if v is None and nxt == 2**31:
                    v = nxt
                if v is not None:
                    nxt = v
                items.append([n, v])
                nxt += 1
            d = dict(d, items=items)
        out.append(d)
    return {'decls': out}
