"""Campaign legs of C30: atheris (Python parser) and native libFuzzer+ASan
(parse_c_type.c).  Called from checks/c30_error_types.pre()."""
import os, sys, json, subprocess, time, glob, re, hashlib
from . import env
from .core import Violation, HarnessError, h64

SEEDS = [
    ('cdef', 'typedef struct foo { int a; char b[4]; unsigned c:3; } foo_t; int f(foo_t *, ...);'),
    ('cdef', 'enum e { A, B = 5, C = A + 1 }; #define TEN 10\nextern int g[TEN]; static const int K = 0x1F;'),
    ('cdef', 'typedef int (*fn_t)(int, char *); union u { fn_t f; double d; long long ll; }; struct s;'),
    ('cdef', 'extern "Python" int cb(int); typedef ... opaque_t; typedef int... myint; struct p { int x; ...; };'),
    ('typeof', 'int(*)(struct s1 *, foo_t, ...)'), ('typeof', 'unsigned long long[0x10][3]'),
    ('typeof', 'char const * const *'), ('typeof', 'void(*(*)(int))[2]'), ('typeof', 'enum e1[TEN]'),
]
NATIVE_SEEDS = ['int', 'unsigned long long[0x10][3]', 'char const * const *', 'int(*)(struct foo *, foo_t, ...)',
                'void(*(*)(int))[2]', 'enum e1[TEN]', 'struct foo_s12 *[FIVE]', 'id05b(*)(int, long)',
                'long unsigned int', '_Bool', 'double _Complex', 'int(__stdcall *)(int)']

BUDGET = {   # (atheris procs, atheris seconds, native procs, native seconds)
    'quick': (4, 14, 2, 10),
    'thorough': (8, 600, 4, 600),
}


def build_native(tmp):
    exe = os.path.join(tmp, 'fuzz_parse_c_type')
    if os.path.exists(exe):
        return exe
    src = os.path.join(env.VERIF, 'native', 'fuzz_parse_c_type.c')
    r = subprocess.run(['clang', '-g', '-O1', '-fsanitize=fuzzer,address',
                        '-I' + os.path.join(env.REPO, 'src', 'c'), '-o', exe, src],
                       capture_output=True, text=True)
    if r.returncode != 0:
        raise HarnessError('native fuzz target does not build:\n' + r.stderr[-3000:])
    return exe


def asan_bucket(stderr):
    m = re.search(r'ERROR: AddressSanitizer: (\S+)', stderr)
    kind = m.group(1) if m else ('oracle' if 'ORACLE:' in stderr else 'crash')
    fr = re.search(r'#\d+ \S+ in (\w+) [^\n]*parse_c_type\.c', stderr)
    return 'native:%s:%s' % (kind, fr.group(1) if fr else '?')


def run_native_once(exe, data, tmp):
    p = os.path.join(tmp, 'native-input-%d' % os.getpid())
    with open(p, 'wb') as f:
        f.write(data)
    try:
        r = subprocess.run([exe, p], capture_output=True, text=True, errors='replace', timeout=300)
    except subprocess.TimeoutExpired:
        os.unlink(p)
        return 'native:hang', 'the target did not return within 300 s on this input alone'
    os.unlink(p)
    if r.returncode == 0:
        return None
    return asan_bucket(r.stderr), r.stderr[-3000:]


def run_campaigns(ctx, mod):
    start_campaigns(ctx, mod)
    finish_campaigns(ctx, mod)


def kill_campaigns(ctx):
    for kind, i, p, corp, art in (ctx.state or {}).get('campaign', {}).get('procs', []):
        if p.poll() is None:
            try:
                p.kill()
            except OSError:
                pass
            p.wait()


def _ensure_atheris():
    """atheris lives in VERIF/.deps (installed by MANIFEST.setup_cmd from the offline wheelhouse);
    install it on demand if the directory is missing (e.g. a fresh snapshot of /verif)"""
    def have():
        e = dict(os.environ)
        e['PYTHONPATH'] = env.DEPS + os.pathsep + e.get('PYTHONPATH', '')
        return subprocess.run([env.PY, '-c', 'import atheris'], env=e, capture_output=True).returncode == 0
    if have():
        return True
    subprocess.run([env.PY, '-m', 'pip', 'install', '--no-index', '--find-links', '/opt/veriftools/wheels',
                    '--target', env.DEPS, '--no-deps', 'atheris'], capture_output=True)
    return have()


def start_campaigns(ctx, mod):
    na, ta, nn, tn = BUDGET[ctx.tier]
    if not _ensure_atheris():
        na = 0
        ctx.extra['atheris_leg'] = 'skipped: atheris is not importable and could not be installed from the wheelhouse'
    tmp = ctx.tmp
    out = os.path.join(tmp, 'c30-out')
    os.makedirs(out, exist_ok=True)
    procs = []
    t0 = time.time()
    # ---- native
    exe = build_native(tmp)
    for i in range(nn):
        corp = os.path.join(tmp, 'ncorp-%d' % i)
        os.makedirs(corp)
        if i % 2 == 0:           # seeded; odd ones start from the empty corpus
            for k, s in enumerate(NATIVE_SEEDS):
                # first byte = size selector of the output array (see the target)
                with open(os.path.join(corp, 'seed%d' % k), 'w') as f:
                    f.write('?' + s)
                with open(os.path.join(corp, 'seedsmall%d' % k), 'w') as f:
                    f.write(chr(2 + 3 * k) + s)
        art = os.path.join(tmp, 'nart-%d-' % i)
        cmd = [exe, '-max_total_time=%d' % tn, '-seed=%d' % (ctx.seed * 100 + i + 1), '-max_len=%d' % (48 if i % 2 else 200),
               '-print_final_stats=1', '-artifact_prefix=' + art, '-timeout=10', corp]
        lg = open(os.path.join(tmp, 'nlog-%d' % i), 'w')
        procs.append(('native', i, subprocess.Popen(cmd, stdout=lg, stderr=lg), corp, art))
    # ---- atheris
    known = [t for t in ctx.known]
    from . import build
    cenv = dict(os.environ)
    if env.DEPS not in cenv.get('PYTHONPATH', ''):
        cenv['PYTHONPATH'] = cenv.get('PYTHONPATH', '') + os.pathsep + env.DEPS
    cenv['C30_KNOWN'] = json.dumps(known)
    cenv['C30_OUT'] = out
    for i in range(na):
        corp = os.path.join(tmp, 'acorp-%d' % i)
        os.makedirs(corp)
        if i % 2 == 0:
            for k, (entry, s) in enumerate(SEEDS):
                with open(os.path.join(corp, 'seed%d' % k), 'wb') as f:
                    f.write((b'\x01' if entry == 'cdef' else b'\x00') + s.encode())
        e2 = dict(cenv)
        e2['C30_ID'] = 'a%d' % i
        e2['C30_INSTR'] = 'cffi' if i % 4 < 2 else 'cffi,pycparser'
        cmd = [env.PY, os.path.join(env.VERIF, 'vlib', 'fuzz30_atheris.py'), '-max_total_time=%d' % ta,
               '-seed=%d' % (ctx.seed * 100 + i + 1), '-max_len=%d' % (64 if i % 2 else 300), '-timeout=20',
               '-artifact_prefix=' + os.path.join(tmp, 'aart-%d-' % i), corp]
        lg = open(os.path.join(tmp, 'alog-%d' % i), 'w')
        procs.append(('atheris', i, subprocess.Popen(cmd, stdout=lg, stderr=lg, env=e2, cwd=env.VERIF), corp, None))
    ctx.state['campaign'] = {'procs': procs, 't0': t0, 'exe': exe, 'out': out}


def finish_campaigns(ctx, mod):
    na, ta, nn, tn = BUDGET[ctx.tier]
    tmp = ctx.tmp
    c = ctx.state['campaign']
    procs, t0, exe, out = c['procs'], c['t0'], c['exe'], c['out']
    deadline = t0 + max(ta, tn) + 120
    for kind, i, p, corp, art in procs:
        try:
            p.wait(timeout=max(1, deadline - time.time()))
        except subprocess.TimeoutExpired:
            p.kill()
            p.wait()
    # ---- collect native
    finding = None
    for kind, i, p, corp, art in procs:
        if kind != 'native':
            continue
        with open(os.path.join(tmp, 'nlog-%d' % i), errors='replace') as f:
            log = f.read()
        m = re.search(r'stat::number_of_executed_units:\s*(\d+)', log)
        execs = int(m.group(1)) if m else 0
        if not m:
            mm = re.findall(r'#(\d+)\s', log)
            execs = int(mm[-1]) if mm else 0
        units = glob.glob(os.path.join(corp, '*'))
        ctx.evaluations += execs
        ctx.classes['native-execs'] += execs
        ctx.classes['native-corpus-units'] += len(units)
        for u in units:
            with open(u, 'rb') as f:
                d = f.read()
            ctx.keys.add(h64(b'native\0' + d))
        for u in sorted(units, key=os.path.getsize)[-2:]:
            with open(u, 'rb') as f:
                ctx.sample({'entry': 'native', 'text': f.read().decode('latin-1')})
        arts = glob.glob(art + '*')
        # a 'timeout-*' (or 'slow-unit-*') artifact is a wall-clock observation: on a loaded machine a unit
        # that normally takes microseconds can be descheduled beyond -timeout.  It counts only if the input
        # is slow or crashes again when replayed alone (a time limit hit is inconclusive, never a violation)
        hard = [a for a in sorted(arts) if not os.path.basename(a)[len(os.path.basename(art)):].startswith(('timeout-', 'slow-unit-'))]
        soft = [a for a in sorted(arts) if a not in hard]
        for a in soft:
            with open(a, 'rb') as f:
                data = f.read()
            if run_native_once(exe, data, tmp) is not None and finding is None:
                finding = ('native', data, log[-3000:])
            else:
                ctx.classes['native-timeout-artifact-not-reproduced'] += 1
        if hard and finding is None:
            with open(hard[0], 'rb') as f:
                data = f.read()
            finding = ('native', data, log[-3000:])
        elif p.returncode not in (0, None) and not arts and 'ERROR' in log and finding is None:
            raise HarnessError('native fuzzer failed without artifact:\n' + log[-2000:])
    # ---- collect atheris
    afinding = None
    for kind, i, p, corp, art in procs:
        if kind != 'atheris':
            continue
        sp = os.path.join(out, 'stats-a%d.json' % i)
        if not os.path.exists(sp):
            with open(os.path.join(tmp, 'alog-%d' % i), errors='replace') as f:
                raise HarnessError('atheris leg %d produced no stats:\n%s' % (i, f.read()[-3000:]))
        with open(sp) as f:
            s = json.load(f)
        ctx.evaluations += s['evaluated']
        ctx.classes['atheris-execs'] += s['execs']
        ctx.classes['atheris-nontrivial'] += s['nontrivial']
        ctx.keys.update(s.get('keys', []))
        for t, n in s['skipped_known'].items():
            ctx.skipped_known[t] += n
        for smp in s['samples'][:2]:
            ctx.sample(smp)
        fp = os.path.join(out, 'finding-a%d.json' % i)
        if os.path.exists(fp) and afinding is None:
            with open(fp) as f:
                afinding = json.load(f)
    ctx.extra['campaign_wall_s'] = round(time.time() - t0, 1)
    if finding is not None:
        kind, data, log = finding
        r = run_native_once(exe, data, tmp)
        case = {'entry': 'native', 'hex': data.hex()}
        bucket = r[0] if r else 'native:unreproduced'
        raise Violation('native parse_c_type target: %s on input %r' % (bucket, data), case=case,
                        bucket=bucket, report=(r[1] if r else log))
    if afinding is not None:
        raise Violation('%s escapes from %s(%r) [atheris]' % (afinding['message'], afinding['case']['entry'],
                                                             afinding['case']['text']),
                        case=afinding['case'], bucket=afinding['bucket'])
