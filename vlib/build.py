"""Rebuild _cffi_backend from REPO's working tree (cached by source hash)."""
import os, sys, hashlib, glob, subprocess, fcntl, shutil, time
from . import env

MACROS = ['-DFFI_BUILDING=1', '-DUSE__THREAD', '-DHAVE_SYNC_SYNCHRONIZE']


def _source_files():
    src = os.path.join(env.REPO, 'src')
    files = []
    for pat in ('c/*.c', 'c/*.h', 'cffi/*.h'):
        files += glob.glob(os.path.join(src, pat))
    return sorted(files)


def source_hash(extra=''):
    h = hashlib.sha256()
    h.update(extra.encode())
    for f in _source_files():
        h.update(os.path.basename(f).encode() + b'\0')
        with open(f, 'rb') as fp:
            h.update(fp.read())
        h.update(b'\0')
    return h.hexdigest()[:16]


class BuildError(Exception):
    pass


def _locked(path):
    os.makedirs(os.path.dirname(path), exist_ok=True)
    fp = open(path, 'w')
    fcntl.flock(fp, fcntl.LOCK_EX)
    return fp


def backend(asan=False):
    """Return a directory containing _cffi_backend<EXT_SUFFIX> built from the
    current working tree."""
    kind = 'asan' if asan else 'opt'
    flags = (['-O1', '-g', '-fsanitize=address', '-fno-omit-frame-pointer']
             if asan else ['-O2', '-g0'])
    if os.environ.get('VERIF_COV') and not asan:       # development aid, see vlib/cov/sitecustomize.py
        kind, flags = 'cov', ['-O0', '-g', '--coverage']
    flags += ['-fno-strict-overflow', '-DNDEBUG', '-w']
    tag = source_hash(kind + ' '.join(flags) + env.REPO)
    out = os.path.join(env.BUILD, 'backend-%s-%s' % (kind, tag))
    so = os.path.join(out, '_cffi_backend' + env.EXT_SUFFIX)
    if os.path.exists(so):
        return out
    lock = _locked(os.path.join(env.BUILD, 'backend.lock'))
    try:
        if os.path.exists(so):
            return out
        os.makedirs(out, exist_ok=True)
        tmp = so + '.tmp%d' % os.getpid()
        extra_src = []
        if kind == 'cov':
            stub = os.path.join(out, 'covstub.c')
            with open(stub, 'w') as f:
                f.write('void __gcov_dump(void);\nvoid verif_gcov_dump(void) { __gcov_dump(); }\n')
            extra_src = [stub]
        cmd = (['gcc', '-shared', '-fPIC'] + flags + MACROS + extra_src +
               ['-I' + env.PYINC, '-I/usr/include/ffi', '-I/usr/include/libffi',
                os.path.join(env.REPO, 'src', 'c', '_cffi_backend.c'),
                '-o', tmp, '-lffi'])
        r = subprocess.run(cmd, capture_output=True, text=True, cwd=out)
        if r.returncode != 0:
            raise BuildError('backend build failed:\n' + r.stderr[-4000:])
        os.rename(tmp, so)
        _prune(kind, keep=out)
        return out
    finally:
        lock.close()


def _prune(kind, keep):
    ds = sorted(glob.glob(os.path.join(env.BUILD, 'backend-%s-*' % kind)),
                key=os.path.getmtime)
    now = time.time()
    for d in ds[:-3]:
        # old enough that no running check can still be spawning workers on it
        if d != keep and now - os.path.getmtime(d) > 6 * 3600:
            shutil.rmtree(d, ignore_errors=True)


if __name__ == '__main__':
    t = time.time()
    print(backend(False), round(time.time() - t, 1))
    if '--asan' in sys.argv:
        t = time.time()
        print(backend(True), round(time.time() - t, 1))
