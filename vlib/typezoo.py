"""typezoo -- the helper library of DESIGN.md section 3.

For every integer / enum / char / float / complex C type T (identifier N):

    T    id_N(T x)                 returns x                  (call-argument paths)
    T    g_N;                      global variable            (global-variable paths)
    T    get_N(void), void put_N(T)   C-side view of g_N
    struct s_N { char pad; T f; };    (field paths)
    T    callcb_N(T (*cb)(void))   returns cb()               (callback paths; not for complex)
    extern "Python" T xp_N(void);  (API-mode cdef only; not for complex)

plus `int get_errno(void)`, `void set_errno(int)`, `float tz_narrow(double)`, and,
outside the cdef (call them through ctypes on `zoo.so`):

    const int tz_sizes[], tz_signed[]      sizeof(T), ((T)-1 < 0) in TYPES order
    long long castd_N(double), castll_N(long long), castull_N(unsigned long long)
                                           (long long)(T)x   for integer/enum/char T
    void tz_ld_from_double(double, void *out), double tz_ld_to_double(const void *)

Built once and cached under  .build/helpers/<content-hash>/  (hash = generated
sources + flags + every src/cffi/*.py, src/cffi/*.h, src/c/* of the tree under
test + its path), guarded by a file lock, in three flavours:

    zoo.api                  API-mode extension module (zoo.api.ffi, zoo.api.lib)
    zoo.inline() -> ffi,lib  in-line FFI().cdef() + ffi.dlopen(zoo.so)
    zoo.abi()    -> ffi,lib  out-of-line ABI module (emit_python_code, exec'd) + dlopen

Usage in a check:   def setup(ctx): return typezoo.get()
"""
import os, sys, glob, hashlib, fcntl, shutil, time, ctypes, subprocess, collections
import importlib.util
from . import env, cc
from .core import HarnessError

TypeInfo = collections.namedtuple('TypeInfo', 'name ident kind cname')
# kind: 'int' | 'bool' | 'enum' | 'char' | 'float' | 'longdouble' | 'complex'

_STD_INTS = ['signed char', 'unsigned char', 'short', 'unsigned short', 'int', 'unsigned int',
             'long', 'unsigned long', 'long long', 'unsigned long long']
_STDINT = (['%sint%d_t' % (u, b) for b in (8, 16, 32, 64) for u in ('', 'u')] +
           ['%sint_least%d_t' % (u, b) for b in (8, 16, 32, 64) for u in ('', 'u')] +
           ['%sint_fast%d_t' % (u, b) for b in (8, 16, 32, 64) for u in ('', 'u')] +
           ['intptr_t', 'uintptr_t', 'intmax_t', 'uintmax_t', 'ptrdiff_t', 'size_t', 'ssize_t'])

ENUM_DECLS = ('enum tz_es { TZ_ES_A = -1, TZ_ES_B = 1 };\n'
              'enum tz_eu { TZ_EU_A = 0, TZ_EU_B = 1 };\n'
              'enum tz_el { TZ_EL_A = -1, TZ_EL_B = 0x100000000 };\n'
              'enum tz_eul { TZ_EUL_A = 0, TZ_EUL_B = 0x100000000 };\n'
              # the largest enumerator is the maximum of the base type the enum must still get
              'enum tz_esm { TZ_ESM_A = -1, TZ_ESM_B = 0x7FFFFFFF };\n'
              'enum tz_eum { TZ_EUM_A = 0, TZ_EUM_B = 0xFFFFFFFF };\n'
              'enum tz_eulm { TZ_EULM_A = 0, TZ_EULM_B = 0xFFFFFFFFFFFFFFFF };\n')
_ENUMS = ['enum tz_es', 'enum tz_eu', 'enum tz_el', 'enum tz_eul',
          'enum tz_esm', 'enum tz_eum', 'enum tz_eulm']
_CHARS = ['char', 'wchar_t', 'char16_t', 'char32_t']


def _mk(name, kind, cname=None):
    return TypeInfo(name, name.replace(' ', '_'), kind, cname or name)


TYPES = ([_mk(n, 'int') for n in _STD_INTS + _STDINT] + [_mk('_Bool', 'bool')] +
         [_mk(n, 'enum') for n in _ENUMS] + [_mk(n, 'char') for n in _CHARS] +
         [_mk('float', 'float'), _mk('double', 'float'), _mk('long double', 'longdouble'),
          _mk('float _Complex', 'complex'), _mk('double _Complex', 'complex')])
BY_NAME = dict((t.name, t) for t in TYPES)
INTEGER_KINDS = ('int', 'bool', 'enum')


def c_source():
    out = ['#include <stdint.h>', '#include <stddef.h>', '#include <sys/types.h>',
           '#include <wchar.h>', '#include <uchar.h>', '#include <errno.h>', '#include <string.h>',
           ENUM_DECLS]
    for t in TYPES:
        T, N = t.cname, t.ident
        out.append('%s g_%s;' % (T, N))
        out.append('%s id_%s(%s x) { return x; }' % (T, N, T))
        out.append('%s get_%s(void) { return g_%s; }' % (T, N, N))
        out.append('void put_%s(%s x) { g_%s = x; }' % (N, T, N))
        out.append('struct s_%s { char pad; %s f; };' % (N, T))
        if t.kind != 'complex':
            out.append('%s callcb_%s(%s (*cb)(void)) { return cb(); }' % (T, N, T))
    out.append('int get_errno(void) { return errno; }')
    out.append('void set_errno(int v) { errno = v; }')
    out.append('float tz_narrow(double x) { return (float)x; }')
    return '\n'.join(out) + '\n'


def c_extra_source():
    """Only in the plain .so (reached through ctypes): compiler facts and C conversions."""
    out = ['const int tz_sizes[] = { %s };' % ', '.join('(int)sizeof(%s)' % t.cname for t in TYPES),
           'const int tz_signed[] = { %s };' % ', '.join(
               ('((%s)-1 < 0)' % t.cname) if t.kind in ('int', 'bool', 'enum', 'char') else '1'
               for t in TYPES)]
    for t in TYPES:
        if t.kind in ('int', 'bool', 'enum', 'char'):
            for sfx, src in (('d', 'double'), ('ll', 'long long'), ('ull', 'unsigned long long')):
                out.append('long long cast%s_%s(%s x) { return (long long)(%s)x; }'
                           % (sfx, t.ident, src, t.cname))
    out.append('void tz_ld_from_double(double x, void *out) { long double v = x; '
               'memset(out, 0, sizeof(long double)); memcpy(out, &v, 10); }')
    out.append('double tz_ld_to_double(const void *p) { long double v; memcpy(&v, p, sizeof v); '
               'return (double)v; }')
    return '\n'.join(out) + '\n'


def cdef_source(api):
    out = [ENUM_DECLS]
    for t in TYPES:
        T, N = t.name, t.ident
        out.append('extern %s g_%s;' % (T, N))
        out.append('%s id_%s(%s);' % (T, N, T))
        out.append('%s get_%s(void);' % (T, N))
        out.append('void put_%s(%s);' % (N, T))
        out.append('struct s_%s { char pad; %s f; };' % (N, T))
        if t.kind != 'complex':
            out.append('%s callcb_%s(%s (*cb)(void));' % (T, N, T))
            if api:
                out.append('extern "Python" %s xp_%s(void);' % (T, N))
    out.append('int get_errno(void);')
    out.append('void set_errno(int);')
    out.append('float tz_narrow(double);')
    return '\n'.join(out) + '\n'


# ---------------------------------------------------------------- cache / build

DONE_NAME = 'typezoo.done'
API_NAME = '_tz_api'
ABI_NAME = '_tz_abi'
_FLAGS = ['-O0', '-w', '-shared', '-fPIC']


def tree_hash():
    """Hash of the files of the tree under test that can change what gets built."""
    src = os.path.join(env.REPO, 'src')
    files = []
    for pat in ('cffi/*.py', 'cffi/*.h', 'c/*'):
        files += [f for f in glob.glob(os.path.join(src, pat)) if os.path.isfile(f)]
    h = hashlib.sha256()
    h.update(env.REPO.encode() + b'\0')
    for f in sorted(files):
        h.update(os.path.relpath(f, src).encode() + b'\0')
        with open(f, 'rb') as fp:
            h.update(fp.read())
        h.update(b'\0')
    return h.hexdigest()


def content_hash():
    h = hashlib.sha256()
    for part in (c_source(), c_extra_source(), cdef_source(True), cdef_source(False),
                 ' '.join(_FLAGS), env.EXT_SUFFIX, sys.version, tree_hash(), 'v3'):
        h.update(part.encode() + b'\0')
    return h.hexdigest()[:16]


def _helpers_dir():
    return os.path.join(env.BUILD, 'helpers')


def _prune(keep):
    """Drop caches built for trees that no longer exist (removed mutant
    worktrees) and all but the newest few that are older than 6 h."""
    now = time.time()
    ds = [os.path.dirname(p) for p in glob.glob(os.path.join(_helpers_dir(), '*', DONE_NAME))]
    ds.sort(key=os.path.getmtime)
    for i, d in enumerate(ds):
        if d == keep:
            continue
        try:
            with open(os.path.join(d, DONE_NAME)) as f:
                repo = f.read().strip()
        except OSError:
            continue
        gone = repo.startswith('/') and not os.path.isdir(repo)
        old = i < len(ds) - 4 and now - os.path.getmtime(d) > 6 * 3600
        if gone or old:
            shutil.rmtree(d, ignore_errors=True)


def _build(d):
    """Populate directory d (called under the lock); everything goes through
    a scratch subdirectory and is renamed into place, DONE last."""
    import cffi
    scratch = os.path.join(d, 'scratch-%d' % os.getpid())
    shutil.rmtree(scratch, ignore_errors=True)
    os.makedirs(scratch)
    try:
        # 1. plain shared library
        so = cc.compile_shared(c_source() + c_extra_source(), scratch, stem='typezoo')
        os.rename(so, os.path.join(d, 'typezoo.so'))
        # 2. API-mode module
        ffi = cffi.FFI()
        ffi.cdef(cdef_source(True))
        ffi.set_source(API_NAME, c_source())
        try:
            mod = cc.build_api_module(ffi, API_NAME, scratch)
        except cc.CompileFailed as e:
            raise HarnessError('typezoo API module does not compile:\n%s' % e)
        os.rename(mod.__file__, os.path.join(d, API_NAME + env.EXT_SUFFIX))
        # 3. out-of-line ABI module
        ffi2 = cffi.FFI()
        ffi2.cdef(cdef_source(False))
        ffi2.set_source(ABI_NAME, None)
        tmp_py = os.path.join(scratch, ABI_NAME + '.py')
        ffi2.emit_python_code(tmp_py)
        os.rename(tmp_py, os.path.join(d, ABI_NAME + '.py'))
        with open(os.path.join(d, DONE_NAME), 'w') as f:
            f.write(env.REPO + '\n')
        return mod
    finally:
        shutil.rmtree(scratch, ignore_errors=True)


class Zoo(object):
    def __init__(self, d, api_mod):
        self.dir = d
        self.so = os.path.join(d, 'typezoo.so')
        self.api = api_mod
        self.api_path = os.path.join(d, API_NAME + env.EXT_SUFFIX)
        self.types = TYPES
        self.by_name = BY_NAME
        self._inline = None
        self._abi = None
        self.cdll = ctypes.CDLL(self.so)
        n = len(TYPES)
        sizes = (ctypes.c_int * n).in_dll(self.cdll, 'tz_sizes')
        signed = (ctypes.c_int * n).in_dll(self.cdll, 'tz_signed')
        # compiler facts (not taken from cffi): name -> (sizeof, is_signed)
        self.facts = dict((t.name, (int(sizes[i]), bool(signed[i]))) for i, t in enumerate(TYPES))

    def int_range(self, name):
        """Range of an integer/enum/_Bool type according to gcc."""
        t = BY_NAME[name]
        if t.kind == 'bool':
            return 0, 1
        size, signed = self.facts[name]
        if signed:
            return -(1 << (8 * size - 1)), (1 << (8 * size - 1)) - 1
        return 0, (1 << (8 * size)) - 1

    def inline(self):
        if self._inline is None:
            import cffi
            ffi = cffi.FFI()
            ffi.cdef(cdef_source(False))
            self._inline = (ffi, ffi.dlopen(self.so))
        return self._inline

    def abi(self):
        if self._abi is None:
            path = os.path.join(self.dir, ABI_NAME + '.py')
            with open(path) as f:
                code = f.read()
            ns = {'__name__': ABI_NAME}
            exec(compile(code, path, 'exec'), ns)
            ffi = ns['ffi']
            self._abi = (ffi, ffi.dlopen(self.so))
        return self._abi

    def c_cast(self, name, how, x):
        """(long long)(T)x computed by gcc-compiled code; how in 'd','ll','ull'."""
        fn = getattr(self.cdll, 'cast%s_%s' % (how, BY_NAME[name].ident))
        if fn.restype is not ctypes.c_longlong:
            fn.restype = ctypes.c_longlong
            fn.argtypes = [{'d': ctypes.c_double, 'll': ctypes.c_longlong,
                            'ull': ctypes.c_ulonglong}[how]]
        return fn(x)


_ZOO = None


def _load_api(path):
    spec = importlib.util.spec_from_file_location(API_NAME, path)
    m = importlib.util.module_from_spec(spec)
    spec.loader.exec_module(m)
    return m


def get():
    """Build-or-load the typezoo for the tree under test (once per process)."""
    global _ZOO
    if _ZOO is not None:
        return _ZOO
    d = os.path.join(_helpers_dir(), content_hash())
    done = os.path.join(d, DONE_NAME)
    mod = None
    if not os.path.exists(done):
        os.makedirs(d, exist_ok=True)
        with open(os.path.join(_helpers_dir(), 'typezoo.lock'), 'w') as lock:
            fcntl.flock(lock, fcntl.LOCK_EX)
            if not os.path.exists(done):
                mod = _build(d)
                _prune(keep=d)
    if mod is None:
        mod = _load_api(os.path.join(d, API_NAME + env.EXT_SUFFIX))
    _ZOO = Zoo(d, mod)
    return _ZOO
