"""Structural comparison of ctypes that belong to two different FFI objects
(in-line vs out-of-line, plain vs decorated cdef, ...).  [agent E; used by C11, C31]

TypeCmp(ffi1, ffi2, fail).same(t1, t2, path):
 * identical objects are equal;
 * otherwise the kind, the C name (after `norm`), array length, function
   signature (result, arguments, ellipsis, abi) must agree recursively;
 * struct/union: size, alignment (or both of unknown size), opaqueness, and the
   field list (name, offset, bitshift, bitsize, flags, type);
 * enum: elements, size/alignment, signedness;
 * a type without any struct/union/enum component must be the *same object*
   in both FFIs (cffi keeps such types canonical process-wide).
`fail(what, path, a, b)` is called on the first difference and must raise.
"""
from .core import HarnessError


class TypeCmp(object):
    def __init__(self, ffi1, ffi2, fail, norm=None):
        self.f1, self.f2, self.fail = ffi1, ffi2, fail
        self.norm = norm or (lambda s: s)
        self.memo = {}

    def size(self, ffi, t):
        import cffi, _cffi_backend
        try:
            return ('ok', ffi.sizeof(t), ffi.alignof(t))
        except (TypeError, ValueError, cffi.FFIError, _cffi_backend.FFI.error):
            return ('unknown-size',)

    def same(self, t1, t2, path):
        """-> True iff the type has a struct/union/enum component"""
        if t1 is t2:
            return False
        k = t1.kind
        if k != t2.kind:
            self.fail('kind', path, k, t2.kind)
        if self.norm(t1.cname) != t2.cname:
            self.fail('C name', path, repr(t1.cname), repr(t2.cname))
        if k in ('primitive', 'void'):
            self.fail('ctype object (primitive types are canonical)', path, id(t1), id(t2))
        if k == 'pointer':
            nominal = self.same(t1.item, t2.item, path + '.item')
        elif k == 'array':
            if t1.length != t2.length:
                self.fail('array length', path, t1.length, t2.length)
            nominal = self.same(t1.item, t2.item, path + '.item')
        elif k == 'function':
            if t1.ellipsis != t2.ellipsis or t1.abi != t2.abi or len(t1.args) != len(t2.args):
                self.fail('function signature', path, t1, t2)
            nominal = self.same(t1.result, t2.result, path + '.result')
            for i, (a1, a2) in enumerate(zip(t1.args, t2.args)):
                nominal = self.same(a1, a2, '%s.args[%d]' % (path, i)) or nominal
        elif k in ('struct', 'union'):
            nominal = True
            key = (id(t1), id(t2))
            if key not in self.memo:
                self.memo[key] = (t1, t2)
                self._aggregate(t1, t2, path)
        elif k == 'enum':
            nominal = True
            if t1.elements != t2.elements or t1.relements != t2.relements:
                self.fail('enum elements', path, t1.elements, t2.elements)
            if self.size(self.f1, t1) != self.size(self.f2, t2):
                self.fail('enum size/alignment', path, self.size(self.f1, t1), self.size(self.f2, t2))
            m1, m2 = int(self.f1.cast(t1, -1)), int(self.f2.cast(t2, -1))
            if m1 != m2:
                self.fail('enum signedness ((enum)-1)', path, m1, m2)
        else:
            raise HarnessError('unexpected ctype kind %r' % k)
        if not nominal:
            self.fail('ctype object (a type without struct/union/enum part must be shared)',
                      path, '%r@%#x' % (t1, id(t1)), '%r@%#x' % (t2, id(t2)))
        return nominal

    def _aggregate(self, t1, t2, path):
        s1, s2 = self.size(self.f1, t1), self.size(self.f2, t2)
        if s1 != s2:
            self.fail('size/alignment', path, s1, s2)
        fl1, fl2 = t1.fields, t2.fields
        if (fl1 is None) != (fl2 is None):
            self.fail('opaqueness', path, fl1, fl2)
        if fl1 is None:
            return
        d1 = [(n, f.offset, f.bitshift, f.bitsize, f.flags) for n, f in fl1]
        d2 = [(n, f.offset, f.bitshift, f.bitsize, f.flags) for n, f in fl2]
        if d1 != d2:
            self.fail('fields (name, offset, bitshift, bitsize, flags)', path, d1, d2)
        for (n, f1), (_, f2) in zip(fl1, fl2):
            self.same(f1.type, f2.type, '%s.%s' % (path, n))


def named_types(decls):
    """names usable with ffi.typeof() that a G-CDEF decl list declares"""
    out = []
    for d in decls:
        if d['k'] in ('typedef', 'fptd'):
            out.append(d['name'])
        elif d['k'] == 'struct':
            if d['tag']:
                out.append('%s %s' % (d['kw'], d['tag']))
            if d['tdname']:
                out.append(d['tdname'])
        elif d['k'] == 'opaque':
            out.append('%s %s' % (d['kw'], d['tag']))
        elif d['k'] == 'enum':
            if d['tag']:
                out.append('enum %s' % d['tag'])
            if d.get('tdname'):
                out.append(d['tdname'])
    return out


def int_constants(decls):
    """name -> value of every #define / static const / enumerator of a G-CDEF decl list"""
    consts = {}
    for d in decls:
        if d['k'] in ('define', 'const'):
            consts[d['name']] = d['value']
        elif d['k'] == 'enum':
            nxt = 0
            for n, v in d['items']:
                if v is not None:
                    nxt = v
                consts[n] = nxt
                nxt += 1
    return consts
