"""Paths and process environment shared by every check."""
import os, sys, sysconfig

VERIF = os.path.dirname(os.path.dirname(os.path.abspath(__file__)))
REPO = os.path.abspath(os.environ.get('VERIF_REPO', '/repo'))
PY = '/venv/bin/python'
BUILD = os.path.join(VERIF, '.build')
DEPS = os.path.join(VERIF, '.deps')
GUARD = 'PYTHON_CFFI_CFFI_VERIF'
PYINC = sysconfig.get_paths()['include']
EXT_SUFFIX = sysconfig.get_config_var('EXT_SUFFIX')


def libasan():
    import subprocess
    return subprocess.check_output(['gcc', '-print-file-name=libasan.so'],
                                   text=True).strip()


def child_env(backend_dir, asan=False, extra=None):
    """Environment for a process that must import cffi/_cffi_backend from the
    tree under test (REPO) and the freshly built backend."""
    env = dict(os.environ)
    parts = [backend_dir, os.path.join(REPO, 'src'), VERIF]
    if os.path.isdir(DEPS):
        parts.append(DEPS)
    if os.environ.get('VERIF_COV'):
        parts.insert(0, os.path.join(VERIF, 'vlib', 'cov'))
    env['PYTHONPATH'] = os.pathsep.join(parts)
    env['PYTHONHASHSEED'] = env.get('VERIF_HASHSEED', '0')
    env['PYTHONDONTWRITEBYTECODE'] = '1'
    env['PYTHONIOENCODING'] = 'utf-8'
    env['LC_ALL'] = 'C.UTF-8'
    env[GUARD] = '1'
    env['VERIF_BACKEND_DIR'] = backend_dir
    env.pop('PYTHONSTARTUP', None)
    if asan:
        env['LD_PRELOAD'] = libasan()
        env['ASAN_OPTIONS'] = ('detect_leaks=0:abort_on_error=1:'
                               'allocator_may_return_null=1:handle_segv=0')
    else:
        env.pop('LD_PRELOAD', None)
    if extra:
        env.update(extra)
    return env
