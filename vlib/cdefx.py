"""Model helpers shared by the G-CDEF based checks C12 and C34 (owner: agent F1).

Values for generated functions/globals (abstract ints/floats -> C literals and
cffi-level Python objects), enum value model, names defined by a declaration,
single-declaration rendering, and a normalisation of specs gcc would reject.
"""
from vlib import cdefgen
from vlib.cdefgen import declarator, resolve, INT_RANGE

SIZEOF = {'char': 1, 'signed char': 1, 'unsigned char': 1, 'short': 2, 'unsigned short': 2, 'int': 4,
          'unsigned int': 4, 'long': 8, 'unsigned long': 8, 'long long': 8, 'unsigned long long': 8,
          'int8_t': 1, 'uint8_t': 1, 'int16_t': 2, 'uint16_t': 2, 'int32_t': 4, 'uint32_t': 4,
          'int64_t': 8, 'uint64_t': 8, 'size_t': 8, 'ssize_t': 8, 'intptr_t': 8, 'uintptr_t': 8,
          '_Bool': 1, 'wchar_t': 4, 'float': 4, 'double': 8}
def _mix(case, a, b):
    r = case['raw']
    return (r[(a * 5 + b) % len(r)] * 6364136223846793005 + a * 1442695040888963407 + b * 97 + 1) % 2 ** 64


def _prim_of(t, decls):
    """resolved prim name, or 'ptr', 'enum', None"""
    r = resolve(t, decls)
    if r[0] == 'prim':
        return r[1]
    if r[0] in ('ptr', 'fptr'):
        return 'ptr'
    if r[0] == 'enum':
        return 'enum'
    return None


def _pick(h, lo, hi):
    if h % 8 == 0:
        return lo
    if h % 8 == 1:
        return hi
    if h % 8 == 2:
        return min(hi, max(lo, (h >> 3) % 3))
    return lo + (h >> 3) % (hi - lo + 1)


def _arg_value(h, p):
    """abstract argument value for resolved prim p: an int, or a float"""
    if p == 'ptr':
        return 0 if h % 3 == 0 else 0x1000 * ((h >> 2) % 7 + 1)
    if p == 'enum':
        return (h >> 1) % 3
    if p in ('float', 'double'):
        return [0.0, 1.0, 0.25, 2.5, -3.0][h % 5]
    if p == 'wchar_t':
        return _pick(h, 0, 0xD7FF)
    lo, hi = INT_RANGE[p]
    return _pick(h, lo, hi)


def _c_literal(v, t, p):
    ctype = declarator(t, '')
    if p == 'ptr':
        return '((%s)(uintptr_t)%dULL)' % (ctype, v)
    if p in ('float', 'double'):
        return '((%s)%r)' % (ctype, v)
    return '((%s)%s)' % (ctype, cdefgen._c_int(v))


def _to_py(ffi, v, t, p):
    if p == 'ptr':
        return ffi.cast(declarator(t, ''), v)
    if p == 'char':
        return bytes([v])
    if p == 'wchar_t':
        return chr(v)
    return v


def _from_py(ffi, x, p):
    """python-level result -> comparable number"""
    if p == 'ptr':
        return int(ffi.cast('uintptr_t', x))
    if p == 'char':
        if not (isinstance(x, bytes) and len(x) == 1):
            return ('bad', repr(x))
        return x[0]
    if p == 'wchar_t':
        if not (isinstance(x, str) and len(x) == 1):
            return ('bad', repr(x))
        return ord(x)
    if p in ('float', 'double'):
        return float(x)
    if p == '_Bool':
        return int(x)
    if type(x) is not int:
        return ('bad', repr(x))
    return x


def _is_signed(p):
    return p == 'enum' or (p in INT_RANGE and INT_RANGE[p][0] < 0)


def _fmt(expr, p):
    """(format, C expression) printing a value of resolved prim p"""
    if p == 'ptr':
        return '%llu', '(unsigned long long)(uintptr_t)(%s)' % expr
    if p in ('float', 'double'):
        return '%.17g', '(double)(%s)' % expr
    if p == 'char':
        return '%llu', '(unsigned long long)(unsigned char)(%s)' % expr
    if p == 'wchar_t' or _is_signed(p):
        return '%lld', '(long long)(%s)' % expr
    return '%llu', '(unsigned long long)(%s)' % expr


def _enum_values(d):
    out, nxt = [], 0
    for name, v in d['items']:
        if v is not None:
            nxt = v
        out.append(nxt)
        nxt += 1
    return out


def _defined_names(d):
    k = d['k']
    if k == 'struct':
        return [d['tag']] + ([d['tdname']] if d['tdname'] else [])
    if k == 'enum':
        return [d['tag']] + [n for n, _ in d['items']]
    if k == 'opaque':
        return [d['tag']]
    return [d['name']]


def _line(d):
    return cdefgen.decl_lines({'decls': [d]})[0][0]


def _int_field(ft):
    while ft[0] == 'arr':
        ft = ft[2]
    return ft[0] == 'prim' and ft[1] in INT_RANGE


def _set_base(ft, new):
    if ft[0] == 'arr':
        return ['arr', ft[1], _set_base(ft[2], new)]
    return ['prim', new]


def _base(ft):
    while ft[0] == 'arr':
        ft = ft[2]
    return ft[1]


def normalise(case):
    """G-CDEF may leave an implicit enumerator right after INT_MAX, which gcc
    rejects ("overflow in enumeration values"): make that follower explicit."""
    decls = []
    for d in case['spec']['decls']:
        if d['k'] == 'enum':
            items, prev = [], -1
            for n, v in d['items']:
                if v is None and prev == 2 ** 31 - 1:
                    v = 2 ** 31
                prev = prev + 1 if v is None else v
                items.append([n, v])
            d = dict(d, items=items)
        decls.append(d)
    out = dict(case)
    out['spec'] = dict(case['spec'], decls=decls)
    return out




mix = _mix
prim_of = _prim_of
pick = _pick
arg_value = _arg_value
c_literal = _c_literal
to_py = _to_py
from_py = _from_py
is_signed = _is_signed
fmt = _fmt
enum_values = _enum_values
defined_names = _defined_names
line = _line
int_field = _int_field
set_base = _set_base
base = _base
