"""The platform C compiler as an oracle / helper-library builder."""
import os, subprocess, hashlib, itertools
from .core import HarnessError
from . import env

_counter = itertools.count()


def _name(tmp, stem):
    return os.path.join(tmp, '%s_%d_%d' % (stem, os.getpid(), next(_counter)))


def compile_shared(source, tmp, flags=(), stem='lib'):
    base = _name(tmp, stem)
    c, so = base + '.c', base + '.so'
    with open(c, 'w') as f:
        f.write(source)
    r = subprocess.run(['gcc', '-O0', '-w', '-shared', '-fPIC', '-o', so, c] + list(flags),
                       capture_output=True, text=True)
    if r.returncode != 0:
        raise HarnessError('gcc rejected generated helper source:\n%s\n--- source ---\n%s'
                           % (r.stderr[-3000:], source[:6000]))
    os.unlink(c)
    return so


def compile_and_run(source, tmp, flags=(), stem='prog', allow_fail=False):
    base = _name(tmp, stem)
    c, exe = base + '.c', base + '.exe'
    with open(c, 'w') as f:
        f.write(source)
    r = subprocess.run(['gcc', '-O0', '-w', '-o', exe, c] + list(flags),
                       capture_output=True, text=True)
    if r.returncode != 0:
        if allow_fail:
            return None
        raise HarnessError('gcc rejected generated oracle program:\n%s\n--- source ---\n%s'
                           % (r.stderr[-3000:], source[:6000]))
    r2 = subprocess.run([exe], capture_output=True, text=True)
    os.unlink(c); os.unlink(exe)
    if r2.returncode != 0:
        raise HarnessError('oracle program failed rc=%s: %s' % (r2.returncode, r2.stderr[-2000:]))
    return r2.stdout


def build_api_module(ffi, modname, tmp, extra_flags=()):
    """ffi has had set_source(modname, <C source>) called.  Emits the C code
    with the tree's recompiler, compiles it with gcc -O0 and imports it."""
    import importlib.util, sys
    d = _name(tmp, 'api')
    os.makedirs(d)
    c = os.path.join(d, modname.split('.')[-1] + '.c')
    ffi.emit_c_code(c)
    so = os.path.join(d, modname.split('.')[-1] + env.EXT_SUFFIX)
    r = subprocess.run(['gcc', '-O0', '-w', '-shared', '-fPIC', '-pthread',
                        '-I' + env.PYINC, '-I' + os.path.join(env.REPO, 'src', 'cffi'),
                        '-o', so, c] + list(extra_flags), capture_output=True, text=True)
    if r.returncode != 0:
        raise CompileFailed(r.stderr[-4000:])
    spec = importlib.util.spec_from_file_location(modname, so)
    m = importlib.util.module_from_spec(spec)
    spec.loader.exec_module(m)
    return m


class CompileFailed(Exception):
    pass
