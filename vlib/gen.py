"""Shared Hypothesis strategies (DESIGN section 3)."""
from hypothesis import strategies as st

# (cffi spelling, bits, signed)
BITFIELD_TYPES = [
    ('signed char', 8, True), ('unsigned char', 8, False),
    ('signed short', 16, True), ('unsigned short', 16, False),
    ('signed int', 32, True), ('unsigned int', 32, False),
    ('signed long', 64, True), ('unsigned long', 64, False),
    ('signed long long', 64, True), ('unsigned long long', 64, False),
    ('_Bool', 8, False),
]

_KS = [7, 8, 15, 16, 31, 32, 63, 64, 65, 127]


def ints_for_range(lo, hi):
    """G-INT: Python ints concentrated around the boundaries of [lo, hi],
    powers of two, in-range uniform, out-of-range uniform, very wide."""
    near = [lo + d for d in range(-3, 4)] + [hi + d for d in range(-3, 4)] + [-1, 0, 1]
    pows = []
    for k in _KS:
        for s in (1, -1):
            for d in (-1, 0, 1):
                pows.append(s * (2 ** k) + d)
    span = max(hi - lo, 1)
    return st.one_of(
        st.sampled_from(near),
        st.sampled_from(near),
        st.sampled_from(pows),
        st.integers(lo, hi),
        st.integers(lo, hi),
        st.integers(lo - 4 * span - 10, lo - 1),
        st.integers(hi + 1, hi + 4 * span + 10),
        st.integers(-2 ** 200, 2 ** 200),
    )


def int_range(bits, signed):
    if signed:
        return -(1 << (bits - 1)), (1 << (bits - 1)) - 1
    return 0, (1 << bits) - 1
