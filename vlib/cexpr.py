"""O-MODEL: C-typed evaluator for integer constant expressions (x86-64 LP64,
gcc) plus a generator of expression trees whose C evaluation is defined.
Used by C09 (agent D).

Tree  = ['lit', text]            integer literal (dec/oct/hex, u/l suffixes) or character constant
      | ['ref', name]            reference to a named constant of the environment
      | ['un', op, E]            op in '+', '-'
      | ['bin', op, L, R]        op in + - * / % << >> & | ^
      | ['par', E]               redundant parentheses
Env   = {name: (ctype, value)}   macro names carry the type of their literal, enumerators are int.
Types = 'int' 'uint' 'long' 'ulong' 'llong' 'ullong'
"""
import re

BITS = {'int': 32, 'uint': 32, 'long': 64, 'ulong': 64, 'llong': 64, 'ullong': 64}
SIGNED = {'int': True, 'uint': False, 'long': True, 'ulong': False, 'llong': True, 'ullong': False}
RANK = {'int': 1, 'uint': 1, 'long': 2, 'ulong': 2, 'llong': 3, 'ullong': 3}
UNSIGNED_OF = {'int': 'uint', 'long': 'ulong', 'llong': 'ullong'}
CNAME = {'int': 'int', 'uint': 'unsigned int', 'long': 'long', 'ulong': 'unsigned long',
         'llong': 'long long', 'ullong': 'unsigned long long'}


class Undefined(Exception):
    """The C evaluation is undefined (overflow, bad shift, division by zero)
    or the expression is outside what is modelled."""


def trange(t):
    b = BITS[t]
    return (-(1 << (b - 1)), (1 << (b - 1)) - 1) if SIGNED[t] else (0, (1 << b) - 1)


def fits(v, t):
    lo, hi = trange(t)
    return lo <= v <= hi


def wrap(v, t):
    """Conversion to an unsigned type / gcc's conversion to a signed type."""
    b = BITS[t]
    v &= (1 << b) - 1
    if SIGNED[t] and v >> (b - 1):
        v -= 1 << b
    return v


_LIT = re.compile(r'(0[xX][0-9a-fA-F]+|[0-9]+)([uUlL]*)$')
SIMPLE_ESCAPES = {'n': 10, 't': 9, 'r': 13, 'a': 7, 'b': 8, 'f': 12, 'v': 11, '\\': 92, "'": 39,
                  '"': 34, '?': 63, '0': 0, '1': 1, '2': 2, '3': 3, '4': 4, '5': 5, '6': 6, '7': 7}


def literal(text):
    """(ctype, value) of a literal by C99 6.4.4.1 / 6.4.4.4."""
    if text.startswith("'"):
        body = text[1:-1]
        if len(body) == 1 and body not in "\\'" and 32 <= ord(body) < 127:
            return 'int', ord(body)
        if len(body) == 2 and body[0] == '\\' and body[1] in SIMPLE_ESCAPES:
            return 'int', SIMPLE_ESCAPES[body[1]]
        raise Undefined('character constant %s not modelled' % text)
    m = _LIT.match(text)
    if not m:
        raise Undefined('not a literal: %r' % text)
    digits, suffix = m.groups()
    s = suffix.lower()
    if s not in ('', 'u', 'l', 'ul', 'lu', 'll', 'ull', 'llu'):
        raise Undefined('bad suffix %r' % suffix)
    if 'll' in s and not ('ll' in suffix or 'LL' in suffix):
        raise Undefined('mixed-case ll')
    if digits[:2].lower() == '0x':
        value, dec = int(digits, 16), False
    elif digits.startswith('0') and len(digits) > 1:
        if not re.match(r'[0-7]+$', digits):
            raise Undefined('bad octal')
        value, dec = int(digits, 8), False
    else:
        value, dec = int(digits, 10), True
    uns = 'u' in s
    longs = s.replace('u', '')
    if uns:
        cands = ['uint', 'ulong', 'ullong']
    elif dec:
        cands = ['int', 'long', 'llong']
    else:
        cands = ['int', 'uint', 'long', 'ulong', 'llong', 'ullong']
    minrank = {'': 1, 'l': 2, 'll': 3}[longs]
    for t in cands:
        if RANK[t] >= minrank and fits(value, t):
            return t, value
    raise Undefined('literal %s has no type' % text)


def common(a, b):
    """Usual arithmetic conversions (both already promoted)."""
    if a == b:
        return a
    if SIGNED[a] == SIGNED[b]:
        return a if RANK[a] >= RANK[b] else b
    u, s = (a, b) if not SIGNED[a] else (b, a)
    if RANK[u] >= RANK[s]:
        return u
    if BITS[s] > BITS[u]:
        return s
    return UNSIGNED_OF[s]


def _arith(t, v):
    """Result of an arithmetic operation of type t with mathematical value v."""
    if SIGNED[t]:
        if not fits(v, t):
            raise Undefined('signed overflow')
        return t, v
    return t, wrap(v, t)


def tdiv(a, b):
    q = abs(a) // abs(b)
    return q if (a < 0) == (b < 0) else -q


def evaluate(tree, env):
    """-> (ctype, value) as a C compiler computes it; raises Undefined."""
    k = tree[0]
    if k == 'lit':
        return literal(tree[1])
    if k == 'ref':
        return env[tree[1]]
    if k == 'par':
        return evaluate(tree[1], env)
    if k == 'un':
        t, v = evaluate(tree[2], env)
        return _arith(t, v if tree[1] == '+' else -v)
    op = tree[1]
    lt, lv = evaluate(tree[2], env)
    rt, rv = evaluate(tree[3], env)
    if op in ('<<', '>>'):
        if rv < 0 or rv >= BITS[lt]:
            raise Undefined('shift count')
        if op == '<<':
            if SIGNED[lt]:
                if lv < 0:
                    raise Undefined('left shift of a negative value')
                return _arith(lt, lv << rv)
            return lt, wrap(lv << rv, lt)
        return lt, lv >> rv            # arithmetic shift for negative values (gcc)
    t = common(lt, rt)
    a = lv if SIGNED[t] else wrap(lv, t)
    b = rv if SIGNED[t] else wrap(rv, t)
    if op == '+':
        return _arith(t, a + b)
    if op == '-':
        return _arith(t, a - b)
    if op == '*':
        return _arith(t, a * b)
    if op in ('/', '%'):
        if b == 0:
            raise Undefined('division by zero')
        q = tdiv(a, b)
        if SIGNED[t] and not fits(q, t):
            raise Undefined('INT_MIN / -1')
        return (t, q) if op == '/' else (t, a - q * b)
    if op == '&':
        return t, wrap(a & b, t)
    if op == '|':
        return t, wrap(a | b, t)
    if op == '^':
        return t, wrap(a ^ b, t)
    raise ValueError(op)


def math_value(tree, env):
    """The same tree over the mathematical integers (truncating division)."""
    k = tree[0]
    if k == 'lit':
        return literal(tree[1])[1]
    if k == 'ref':
        return env[tree[1]][1]
    if k == 'par':
        return math_value(tree[1], env)
    if k == 'un':
        v = math_value(tree[2], env)
        return v if tree[1] == '+' else -v
    op = tree[1]
    a, b = math_value(tree[2], env), math_value(tree[3], env)
    if op == '+':
        return a + b
    if op == '-':
        return a - b
    if op == '*':
        return a * b
    if op == '/':
        return tdiv(a, b)
    if op == '%':
        return a - tdiv(a, b) * b
    if op in ('<<', '>>'):
        if not 0 <= b <= 256:
            raise ArithmeticError('shift count %d' % b)
        return a << b if op == '<<' else a >> b
    if op == '&':
        return a & b
    if op == '|':
        return a | b
    if op == '^':
        return a ^ b
    raise ValueError(op)


def math_value_or_none(tree, env):
    """None when the evaluation over the mathematical integers breaks down
    (division by zero, absurd shift count) although the C evaluation is defined."""
    try:
        return math_value(tree, env)
    except ArithmeticError:
        return None


# --------------------------------------------------------------------------
# features

def walk(tree):
    yield tree
    k = tree[0]
    if k in ('par',):
        for x in walk(tree[1]):
            yield x
    elif k == 'un':
        for x in walk(tree[2]):
            yield x
    elif k == 'bin':
        for x in walk(tree[2]):
            yield x
        for x in walk(tree[3]):
            yield x


def n_operators(tree):
    return sum(1 for n in walk(tree) if n[0] in ('un', 'bin'))


def has_escape(tree):
    """A character constant written with a backslash whose value is not the
    code of the character after the backslash ('\\n', '\\0', ...)."""
    for n in walk(tree):
        if n[0] == 'lit' and n[1].startswith("'\\"):
            c = n[1][2]
            if SIMPLE_ESCAPES.get(c) != ord(c):
                return True
    return False


def has_octal_digit_escape(tree):
    """A character constant '\\1' ... '\\7' (one octal digit other than 0)."""
    for n in walk(tree):
        if n[0] == 'lit' and n[1].startswith("'\\") and n[1][2] in '1234567':
            return True
    return False


def has_negative_intermediate(tree, env):
    for n in walk(tree):
        try:
            if math_value(n, env) < 0:
                return True
        except (ArithmeticError, Undefined):
            pass
    return False


def has_nondecimal(tree):
    for n in walk(tree):
        if n[0] == 'lit' and (n[1].startswith("'") or (n[1].startswith('0') and len(n[1].rstrip('uUlL')) > 1)):
            return True
    return False


# --------------------------------------------------------------------------
# printing

PREC = {'*': 10, '/': 10, '%': 10, '+': 9, '-': 9, '<<': 8, '>>': 8, '&': 7, '^': 6, '|': 5}


def tokens(tree, parent_prec=0, right=False):
    k = tree[0]
    if k == 'lit' or k == 'ref':
        return [tree[1]]
    if k == 'par':
        return ['('] + tokens(tree[1]) + [')']
    if k == 'un':
        inner = tokens(tree[2], 11)
        return [tree[1]] + inner
    p = PREC[tree[1]]
    out = tokens(tree[2], p, False) + [tree[1]] + tokens(tree[3], p, True)
    if p < parent_prec or (p == parent_prec and right):
        out = ['('] + out + [')']
    return out


def text(tree, R=None):
    toks = tokens(tree)
    out = []
    prev = ''
    for t in toks:
        if not prev:
            sep = ''
        elif prev in '+-' and t in '+-' or (prev[-1:].isalnum() and t[:1].isalnum()) \
                or (prev[-1:] in 'eEpP' and prev[:1].isdigit() and t in '+-'):
            sep = ' '                       # never build '++', '--', glue words, or the pp-number '0xE+7'
        elif R is None:
            sep = ' ' if (t in PREC or prev in PREC) and len(toks) > 2 else ''
        else:
            sep = ('', ' ', ' ', '  ')[R.below(4)]
        out.append(sep + t)
        prev = t
    return ''.join(out)


# --------------------------------------------------------------------------
# generation

SUFFIXES = ['', '', '', '', 'u', 'U', 'l', 'L', 'ul', 'UL', 'uL', 'lu', 'LU', 'll', 'LL', 'ull', 'ULL',
            'uLL', 'llu', 'LLU']
EDGE = [0, 1, 2, 3, 7, 8, 10, 31, 32, 63, 64, 127, 128, 255, 256, 1000, 32767, 32768, 65535, 65536,
        2 ** 31 - 1, 2 ** 31, 2 ** 32 - 1, 2 ** 32, 2 ** 63 - 1, 2 ** 63, 2 ** 64 - 1]
CHARS = "aAzZ09 !#$%&()*+,-./:;<=>@[]^_`{|}~"
ESCAPES = ['n', 't', 'r', '0', 'a', 'b', 'f', 'v', '\\', "'", '?', 'n', '0', '1', '7']     # not '\"': cffi warns about string literals
BINOPS = ['+', '-', '*', '/', '%', '<<', '>>', '&', '|', '^']


def gen_literal(R, chars=True, maxbits=64):
    c = R.below(16)
    if c == 15 and chars:
        if R.chance(1, 2):
            return ['lit', "'\\%s'" % R.choice(ESCAPES)]
        return ['lit', "'%s'" % R.choice(CHARS)]
    if c <= 7:
        v = R.below(41)
    elif c <= 11:
        v = R.choice(EDGE)
    else:
        bits = R.choice([8, 16, 31, 32, 33, 63, 64])
        v = R.below(1 << bits)
    if v >> maxbits:
        v &= (1 << maxbits) - 1
    base = R.choice(['d', 'd', 'd', 'o', 'x', 'X'])
    suffix = R.choice(SUFFIXES)
    for _ in range(8):
        digits = '%d' % v if base == 'd' else ('0%o' % v if v else '00') if base == 'o' else \
                 ('0x%x' % v) if base == 'x' else ('0X%X' % v)
        try:
            literal(digits + suffix)
            return ['lit', digits + suffix]
        except Undefined:
            # does not fit any candidate type: make it unsigned / hexadecimal / smaller
            if 'u' not in suffix.lower():
                suffix = 'u' + suffix if R.chance(1, 2) else suffix + 'U'
            else:
                v >>= 1
    return ['lit', '1']


def gen_expr(R, depth, env, chars=True):
    """A random tree whose C evaluation is defined."""
    if depth <= 0 or R.chance(1, 7):
        if env and R.chance(1, 5):
            return ['ref', R.choice(sorted(env))]
        return gen_literal(R, chars)
    c = R.below(12)
    if c == 0:
        return gen_literal(R, chars)
    if c == 1:
        return ['par', gen_expr(R, depth - 1, env, chars)]
    if c <= 3:
        sub = gen_expr(R, depth - 1, env, chars)
        op = '-' if R.chance(3, 4) else '+'
        t = ['un', op, sub]
        try:
            evaluate(t, env)
            return t
        except Undefined:
            return sub
    left = gen_expr(R, depth - 1, env, chars)
    right = gen_expr(R, depth - 1, env, chars)
    start = R.below(len(BINOPS))
    for i in range(len(BINOPS)):
        op = BINOPS[(start + i) % len(BINOPS)]
        t = ['bin', op, left, right]
        try:
            evaluate(t, env)
            return t
        except Undefined:
            if op in ('<<', '>>') and i < 3:
                # make the shift count small rather than giving up on shifts
                small = ['lit', '%d' % R.below(32)]
                t = ['bin', op, left, small]
                try:
                    evaluate(t, env)
                    return t
                except Undefined:
                    pass
    return left
