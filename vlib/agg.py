"""G-AGG (DESIGN section 3): random struct/union *translation units* for layout
work, shared by C01 (layout vs gcc) and C20 (ffi.new initialisers).

A unit is a JSON-serialisable list of aggregates; later aggregates may embed
earlier ones.  Every aggregate is one declaration group (= one ffi.cdef() call,
so that it can carry its own packed=/pack= option).

    unit   = [agg, ...]                                   (1..6)
    agg    = {'kind': 'struct'|'union', 'typedef': bool, 'pack': None|'packed'|1|2|4|8|16,
              'members': [member, ...]}
    member = ['f', name, type]            plain field
           | ['bf', name-or-'', tname, width]   bitfield (name '' = unnamed; width 0 only unnamed)
           | ['anon', body]               anonymous struct/union member (fields promoted)
           | ['flex', name, type]         trailing flexible array 'type name[]' (top level struct only)
    body   = {'kind': ..., 'members': [...]}
    type   = ['prim', spelling]           spelling may carry a 'const '/'volatile ' prefix
           | ['ptr', type]  | ['vptr']    pointer to type / void *
           | ['optr', tag]                pointer to a never-completed struct
           | ['self']                     pointer to the enclosing top-level aggregate
           | ['fptr', k]                  k-th entry of FUNCPTRS
           | ['arr', n, type]             array
           | ['agg', j]                   earlier aggregate j of the unit, by value
           | ['inl', body]                anonymous struct/union type used for a named member

Soundness constraints of ISO C / gcc (not of cffi) are built in: every body has a
named member, names are unique per unit, the flexible array is last in a top-level
struct that has another direct named member, aggregates with a flexible array are
never embedded by value, no zero-length arrays, packing only on aggregates without
any bitfield in their declaration group.
"""
from hypothesis import strategies as st
from . import gen

INT_PRIMS = ['char', 'short', 'int', 'long', 'long long', 'signed char', 'unsigned char',
             'unsigned short', 'unsigned int', 'unsigned long', 'unsigned long long', '_Bool', 'bool']
FLOAT_PRIMS = ['float', 'double', 'long double', 'float _Complex', 'double _Complex']
CHAR_PRIMS = ['wchar_t', 'char16_t', 'char32_t']
STDINT_PRIMS = ['int8_t', 'uint8_t', 'int16_t', 'uint16_t', 'int32_t', 'uint32_t', 'int64_t',
                'uint64_t', 'int_least8_t', 'uint_least8_t', 'int_least16_t', 'uint_least16_t',
                'int_least32_t', 'uint_least32_t', 'int_least64_t', 'uint_least64_t',
                'int_fast8_t', 'uint_fast8_t', 'int_fast16_t', 'uint_fast16_t', 'int_fast32_t',
                'uint_fast32_t', 'int_fast64_t', 'uint_fast64_t', 'intptr_t', 'uintptr_t',
                'intmax_t', 'uintmax_t', 'ptrdiff_t', 'size_t', 'ssize_t']
ALL_PRIMS = INT_PRIMS + FLOAT_PRIMS + CHAR_PRIMS + STDINT_PRIMS
# small types are what creates padding: make them frequent
COMMON_PRIMS = ['char', 'char', 'short', 'int', 'long', 'double', 'long double', 'unsigned char',
                'float', '_Bool', 'uint16_t', 'int64_t']

FUNCPTRS = ['int (*%s)(int)', 'void (*%s)(void)', 'long double (*%s)(char, ...)',
            'void *(*%s)(const char *, int (*)(void))', 'int (*(*%s)(int))[3]']

C_HEADERS = ('#include <stddef.h>\n#include <stdint.h>\n#include <stdbool.h>\n#include <wchar.h>\n'
             '#include <uchar.h>\n#include <sys/types.h>\n#include <stdio.h>\n#include <string.h>\n')

PACKS = [None, None, None, None, 'packed', 1, 2, 4, 8, 16]


def bf_info(tname):
    for t, bits, signed in gen.BITFIELD_TYPES:
        if t == tname:
            return bits, signed
    raise KeyError(tname)


# --------------------------------------------------------------------------
# strategy
# --------------------------------------------------------------------------

def units(max_aggs=6, max_members=8, max_depth=4, bitfields=True, packing=True, flex=True,
          prims=None, min_aggs=1):
    """Hypothesis strategy for one unit."""
    prim_pool = prims or ALL_PRIMS

    @st.composite
    def unit(draw):
        counter = [0]

        def fresh():
            counter[0] += 1
            return 'a%d' % counter[0]

        def prim():
            if draw(st.integers(0, 2)) == 0:
                p = draw(st.sampled_from(prim_pool))
            else:
                p = draw(st.sampled_from([q for q in COMMON_PRIMS if q in prim_pool] or prim_pool))
            q = draw(st.integers(0, 15))
            if q == 0:
                p = 'const ' + p
            elif q == 1:
                p = 'volatile ' + p
            return ['prim', p]

        def scalar_or_agg(depth, embeddable):
            """element type for arrays / direct field type (no array)"""
            k = draw(st.integers(0, 19))
            if k < 9:
                return prim()
            if k < 11:
                j = draw(st.integers(0, 4))
                if j == 0:
                    return ['vptr']
                if j == 1:
                    return ['optr', 'opq%d' % draw(st.integers(0, 1))]
                if j == 2:
                    return ['self']
                if j == 3 and embeddable_ptr:
                    return ['ptr', ['agg', draw(st.sampled_from(embeddable_ptr))]]
                return ['ptr', draw(st.sampled_from([['prim', 'char'], ['prim', 'const char'],
                                                     ['ptr', ['prim', 'int']], ['vptr'],
                                                     ['arr', 3, ['prim', 'short']]]))]
            if k < 12:
                return ['fptr', draw(st.integers(0, len(FUNCPTRS) - 1))]
            if k < 16 and embeddable:
                return ['agg', draw(st.sampled_from(embeddable))]
            if k < 19 and depth < max_depth:
                return ['inl', body(depth + 1, False)]
            return prim()

        def ftype(depth, embeddable):
            if draw(st.integers(0, 4)) == 0:
                t = scalar_or_agg(depth, embeddable)
                for _ in range(draw(st.integers(1, 2))):
                    t = ['arr', draw(st.integers(1, 5)), t]
                return t
            return scalar_or_agg(depth, embeddable)

        def bitfield(named):
            tname, bits, signed = draw(st.sampled_from(gen.BITFIELD_TYPES))
            if tname == '_Bool':
                w = 1 if named else draw(st.integers(0, 1))
            elif named:
                w = draw(st.one_of(st.integers(1, bits), st.integers(1, min(bits, 12)),
                                   st.sampled_from([1, bits, bits - 1, bits // 2])))
            else:
                w = draw(st.one_of(st.integers(0, bits), st.just(0), st.just(0),
                                   st.integers(1, min(bits, 9))))
            return ['bf', fresh() if named else '', tname, w]

        use_bf = [bitfields]

        def body(depth, top, kind=None, allow_flex=False):
            kind = kind or draw(st.sampled_from(['struct', 'struct', 'union']))
            nmax = max_members if depth == 0 else max(2, max_members // (depth + 1))
            n = draw(st.integers(1, nmax))
            members = []
            while len(members) < n:
                k = draw(st.integers(0, 11))
                if k < 3 and use_bf[0]:
                    # bitfields come in runs
                    for _ in range(draw(st.integers(1, 4))):
                        members.append(bitfield(draw(st.integers(0, 4)) != 0))
                elif k == 3 and depth < max_depth:
                    members.append(['anon', body(depth + 1, False)])
                else:
                    members.append(['f', fresh(), ftype(depth, embeddable)])
            if not any(m[0] == 'f' or (m[0] == 'bf' and m[1]) for m in members):
                members.insert(draw(st.integers(0, len(members))), ['f', fresh(), prim()])
            if allow_flex and kind == 'struct' and draw(st.integers(0, 5)) == 0:
                t = scalar_or_agg(max_depth, embeddable)     # no inline types here
                if draw(st.integers(0, 3)) == 0:
                    t = ['arr', draw(st.integers(1, 3)), t]
                members.append(['flex', fresh(), t])
            return {'kind': kind, 'members': members}

        n_aggs = draw(st.integers(min_aggs, max_aggs))
        aggs = []
        embeddable = []       # indices of earlier aggregates that may be embedded by value
        embeddable_ptr = []   # ... that may be pointed to
        for i in range(n_aggs):
            # about half of the declaration groups are bitfield-free (and so may be packed)
            use_bf[0] = bitfields and draw(st.integers(0, 9)) < 5
            b = body(0, True, allow_flex=flex)
            a = {'kind': b['kind'], 'typedef': draw(st.integers(0, 3)) == 0,
                 'pack': None, 'members': b['members']}
            if packing and not has_bitfield(a):
                a['pack'] = draw(st.sampled_from(PACKS))
            aggs.append(a)
            embeddable_ptr.append(i)
            if not has_flex(a):
                embeddable.append(i)
        return aggs
    return unit()


# --------------------------------------------------------------------------
# predicates over the tree
# --------------------------------------------------------------------------

def _bodies_of_type(t):
    if t[0] == 'inl':
        yield t[1]
    elif t[0] in ('arr',):
        for b in _bodies_of_type(t[2]):
            yield b
    elif t[0] == 'ptr':
        for b in _bodies_of_type(t[1]):
            yield b


def walk_members(body):
    """all members of a declaration group, descending into anonymous and inline bodies
    (not into referenced earlier aggregates)"""
    for m in body['members']:
        yield m
        if m[0] == 'anon':
            for x in walk_members(m[1]):
                yield x
        elif m[0] in ('f', 'flex'):
            for b in _bodies_of_type(m[2]):
                for x in walk_members(b):
                    yield x


def has_bitfield(body):
    return any(m[0] == 'bf' for m in walk_members(body))


def has_flex(body):
    return any(m[0] == 'flex' for m in body['members'])


def features(unit, i):
    """class labels of aggregate i (for evidence histograms)"""
    a = unit[i]
    out = set([a['kind']])
    out.add('pack=%s' % a['pack'])
    if a['typedef']:
        out.add('typedef-anonymous')

    def tfeat(t):
        if t[0] == 'arr':
            out.add('array')
            tfeat(t[2])
        elif t[0] == 'agg':
            out.add('embeds-earlier')
            if unit[t[1]]['pack'] != a['pack']:
                out.add('embeds-other-packing')
            if has_bitfield(unit[t[1]]) and a['pack'] is not None:
                out.add('packed-embeds-bitfield-struct')
        elif t[0] == 'inl':
            out.add('inline-named-member')
        elif t[0] in ('ptr', 'vptr', 'optr', 'self'):
            out.add('pointer')
        elif t[0] == 'fptr':
            out.add('funcptr')
        elif t[0] == 'prim':
            p = t[1].replace('const ', '').replace('volatile ', '')
            if p != t[1]:
                out.add('qualified')
            if p == 'long double':
                out.add('long-double')
            elif 'Complex' in p:
                out.add('complex')
            elif p in CHAR_PRIMS:
                out.add('wide-char')
            elif p in STDINT_PRIMS:
                out.add('stdint-name')
    depth = [0]

    def bfeat(body, d, in_union):
        depth[0] = max(depth[0], d)
        prev_bf = False
        for m in body['members']:
            if m[0] == 'bf':
                out.add('bitfield')
                if in_union or body['kind'] == 'union':
                    out.add('bitfield-in-union')
                if not m[1]:
                    out.add('bitfield-zero-width' if m[3] == 0 else 'bitfield-unnamed')
                if m[3] == bf_info(m[2])[0]:
                    out.add('bitfield-full-width')
                if prev_bf:
                    out.add('bitfield-run')
                prev_bf = True
                continue
            if m[0] == 'anon':
                out.add('anonymous-member')
                if prev_bf:
                    out.add('bitfield-then-nonbitfield')
                bfeat(m[1], d + 1, in_union or body['kind'] == 'union')
            elif m[0] == 'flex':
                out.add('flexible-array')
                tfeat(m[2])
            else:
                if prev_bf:
                    out.add('bitfield-then-nonbitfield')
                tfeat(m[2])
                for b in _bodies_of_type(m[2]):
                    bfeat(b, d + 1, False)
            prev_bf = False
    bfeat(a, 0, False)
    out.add('depth=%d' % depth[0])
    return sorted(out)


# --------------------------------------------------------------------------
# rendering
# --------------------------------------------------------------------------

def type_name(unit, i, prefix=''):
    a = unit[i]
    if a['typedef']:
        return '%st%d' % (prefix, i)
    return '%s %ss%d' % (a['kind'], prefix, i)


def declarator(t, inner, unit, i, prefix, packed_attr):
    """C declarator of `inner` with type t (standard inside-out construction)"""
    k = t[0]
    if k == 'prim':
        return ('%s %s' % (t[1], inner)).rstrip()
    if k == 'vptr':
        return 'void *%s' % inner
    if k == 'optr':
        return 'struct %s%s *%s' % (prefix, t[1], inner)
    if k == 'self':
        if unit[i]['typedef']:
            return 'void *%s' % inner       # an anonymous typedef'd struct cannot name itself
        return '%s *%s' % (type_name(unit, i, prefix), inner)
    if k == 'fptr':
        return FUNCPTRS[t[1]] % inner
    if k == 'ptr':
        if t[1][0] == 'arr':
            return declarator(t[1], '(*%s)' % inner, unit, i, prefix, packed_attr)
        return declarator(t[1], '*%s' % inner, unit, i, prefix, packed_attr)
    if k == 'arr':
        return declarator(t[2], '%s[%d]' % (inner, t[1]), unit, i, prefix, packed_attr)
    if k == 'agg':
        return ('%s %s' % (type_name(unit, t[1], prefix), inner)).rstrip()
    if k == 'inl':
        return ('%s %s' % (render_body(t[1], unit, i, prefix, packed_attr), inner)).rstrip()
    raise ValueError(t)


def render_body(body, unit, i, prefix, packed_attr, tag=''):
    parts = []
    for m in body['members']:
        if m[0] == 'f':
            parts.append(declarator(m[2], m[1], unit, i, prefix, packed_attr) + ';')
        elif m[0] == 'bf':
            parts.append('%s %s:%d;' % (m[2], m[1], m[3]) if m[1] else '%s :%d;' % (m[2], m[3]))
        elif m[0] == 'anon':
            parts.append(render_body(m[1], unit, i, prefix, packed_attr) + ';')
        elif m[0] == 'flex':
            parts.append(declarator(m[2], m[1] + '[]', unit, i, prefix, packed_attr) + ';')
        else:
            raise ValueError(m)
    attr = ' __attribute__((packed))' if packed_attr else ''
    return '%s%s%s { %s }' % (body['kind'], attr, (' ' + tag) if tag else '', ' '.join(parts))


def render_agg(unit, i, prefix='', for_c=False):
    """-> declaration text of aggregate i.  for_c: with the packing expressed the gcc way
    (cffi gets it through cdef(packed=/pack=))."""
    a = unit[i]
    packed_attr = for_c and a['pack'] == 'packed'
    if a['typedef']:
        txt = 'typedef %s %st%d;' % (render_body(a, unit, i, prefix, packed_attr), prefix, i)
    else:
        txt = render_body(a, unit, i, prefix, packed_attr, tag='%ss%d' % (prefix, i)) + ';'
    if for_c and isinstance(a['pack'], int):
        txt = '#pragma pack(push, %d)\n%s\n#pragma pack(pop)' % (a['pack'], txt)
    return txt


def cdef_kwargs(a):
    if a['pack'] == 'packed':
        return {'packed': True}
    if a['pack'] is not None:
        return {'pack': a['pack']}
    return {}


def embedded_closure(unit, i):
    """indices of aggregate i and of every aggregate it mentions (by value or through a pointer)"""
    seen, todo = set(), [i]
    while todo:
        j = todo.pop()
        if j in seen:
            continue
        seen.add(j)
        for m in walk_members(unit[j]):
            if m[0] in ('f', 'flex'):
                t = m[2]
                while t[0] in ('arr', 'ptr'):
                    t = t[2] if t[0] == 'arr' else t[1]
                if t[0] == 'agg':
                    todo.append(t[1])
    return sorted(seen)


def canonical(unit, i):
    """prefix-free text that identifies aggregate i including everything it embeds"""
    return '\n'.join(sorted('%s /*pack=%s*/' % (render_agg(unit, j), unit[j]['pack'])
                            for j in embedded_closure(unit, i)))


def make_ffi(unit, prefix=''):
    """fresh in-line FFI with one cdef() call per aggregate"""
    import cffi
    ffi = cffi.FFI()
    for i, a in enumerate(unit):
        ffi.cdef(render_agg(unit, i, prefix), **cdef_kwargs(a))
    return ffi


# --------------------------------------------------------------------------
# field paths
# --------------------------------------------------------------------------

def field_paths(unit, i, limit=80):
    """Deterministic list of access paths below aggregate i:
       ('f', path, type)            non-bitfield field (also intermediate ones, array elements)
       ('bf', path, tname, width)   named bitfield
    path = list of member names (str) and array indices (int).  Fields of anonymous
    members are promoted.  For arrays only the first and last index are followed."""
    out = []

    def from_type(t, path):
        if len(out) >= limit:
            return
        if t[0] == 'arr':
            for idx in sorted(set([0, t[1] - 1])):
                out.append(('f', path + [idx], t[2]))
                from_type(t[2], path + [idx])
        elif t[0] == 'agg':
            from_body(unit[t[1]], path)
        elif t[0] == 'inl':
            from_body(t[1], path)

    def from_body(body, path):
        for m in body['members']:
            if len(out) >= limit:
                return
            if m[0] == 'f':
                out.append(('f', path + [m[1]], m[2]))
                from_type(m[2], path + [m[1]])
            elif m[0] == 'bf':
                if m[1]:
                    out.append(('bf', path + [m[1]], m[2], m[3]))
            elif m[0] == 'anon':
                from_body(m[1], path)
            elif m[0] == 'flex':
                out.append(('f', path + [m[1]], ['flexarr', m[2]]))
                out.append(('f', path + [m[1], 1], m[2]))
    from_body(unit[i], [])
    return out[:limit]


def c_path(path):
    return ''.join(('[%d]' % p) if isinstance(p, int) else ('.' + p) for p in path).lstrip('.')


# --------------------------------------------------------------------------
# what initialisers mean (C semantics; used by C20's reference model)
# --------------------------------------------------------------------------

INT_RANGES = {'char': None, 'short': (16, True), 'int': (32, True), 'long': (64, True),
              'long long': (64, True), 'signed char': (8, True), 'unsigned char': (8, False),
              'unsigned short': (16, False), 'unsigned int': (32, False), 'unsigned long': (64, False),
              'unsigned long long': (64, False), '_Bool': (1, False), 'bool': (1, False),
              'intptr_t': (64, True), 'uintptr_t': (64, False), 'intmax_t': (64, True),
              'uintmax_t': (64, False), 'ptrdiff_t': (64, True), 'size_t': (64, False),
              'ssize_t': (64, True)}
for _b in (8, 16, 32, 64):
    INT_RANGES['int%d_t' % _b] = (_b, True)
    INT_RANGES['uint%d_t' % _b] = (_b, False)
    INT_RANGES['int_least%d_t' % _b] = (_b, True)
    INT_RANGES['uint_least%d_t' % _b] = (_b, False)
    INT_RANGES['int_fast%d_t' % _b] = (8 if _b == 8 else 64, True)
    INT_RANGES['uint_fast%d_t' % _b] = (8 if _b == 8 else 64, False)
del INT_RANGES['char']


def strip_quals(p):
    return p.replace('const ', '').replace('volatile ', '')


def ctor_members(body):
    """members that a sequence initialiser fills, in order: every named member of a struct
    (fields of anonymous members promoted, recursively); for a union only its first member
    (unnamed bitfields are not members that can be initialised)."""
    out = []
    for m in body['members']:
        if m[0] == 'bf' and not m[1]:
            continue
        if m[0] == 'anon':
            out.extend(ctor_members(m[1]))
        else:
            out.append(m)
        if body['kind'] == 'union':
            break
    return out


def named_members(body):
    """name -> member, with the fields of anonymous members promoted"""
    out = {}
    for m in body['members']:
        if m[0] == 'anon':
            out.update(named_members(m[1]))
        elif m[1]:
            out[m[1]] = m
    return out


def union_leading_unnamed_bitfield(body):
    """True iff some union in this declaration group starts with an unnamed bitfield"""
    def chk(b):
        ms = b['members']
        if b['kind'] == 'union' and ms and ms[0][0] == 'bf' and not ms[0][1] and len(ms) > 1:
            return True
        for m in ms:
            if m[0] == 'anon' and chk(m[1]):
                return True
            if m[0] in ('f', 'flex'):
                for bb in _bodies_of_type(m[2]):
                    if chk(bb):
                        return True
        return False
    return chk(body)
