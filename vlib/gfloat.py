"""G-FLOAT (DESIGN section 3): doubles as 64-bit patterns.

Strategies yield *ints* (the IEEE-754 binary64 bit pattern) so that a case stays
JSON-serialisable and NaN payloads / signed zeros survive a replay; convert with
`from_bits`.  Mix: random 64-bit patterns (NaNs, infinities, subnormals occur),
neighbours (nextafter) of every power of two, of FLT_MAX / FLT_MIN / the smallest
float subnormal, of halfway points between adjacent floats (round-to-nearest-even
ties), of integer-type limits with and without fractional parts, +-1e300.
"""
import struct, math
from hypothesis import strategies as st


def from_bits(b):
    return struct.unpack('<d', struct.pack('<Q', b & (2 ** 64 - 1)))[0]


def to_bits(x):
    return struct.unpack('<Q', struct.pack('<d', x))[0]


def f32_from_bits(b):
    return struct.unpack('<f', struct.pack('<I', b & (2 ** 32 - 1)))[0]


def f32_bits_of_double(x):
    """Bits of the float that round-to-nearest conversion of double x gives
    (overflow -> inf), computed by the struct-free route: ctypes.c_float."""
    import ctypes
    return struct.unpack('<I', bytes(ctypes.c_float(x)))[0]


def is_nan_bits(b):
    return (b >> 52) & 0x7ff == 0x7ff and b & ((1 << 52) - 1) != 0


def is_finite_bits(b):
    return (b >> 52) & 0x7ff != 0x7ff


def model_narrow(b):
    """binary64 bit pattern -> binary32 bit pattern under round-to-nearest-even;
    None for NaN (any NaN is acceptable)."""
    sign = b >> 63
    e = (b >> 52) & 0x7ff
    m = b & ((1 << 52) - 1)
    if e == 0x7ff:
        return None if m else (sign << 31) | 0x7f800000
    if e == 0:
        return sign << 31                     # < 2**-1022: far below half the smallest float subnormal
    mant = (1 << 52) | m                      # value = mant * 2**(e - 1075)
    E = e - 1023
    if E >= -126:
        q, rem = mant >> 29, mant & ((1 << 29) - 1)
        if rem > (1 << 28) or (rem == (1 << 28) and (q & 1)):
            q += 1
        if q == 1 << 24:
            q >>= 1
            E += 1
        if E > 127:
            return (sign << 31) | 0x7f800000
        return (sign << 31) | ((E + 127) << 23) | (q - (1 << 23))
    s = 926 - e                               # result = round(mant / 2**s) units of 2**-149
    q, rem = mant >> s, mant & ((1 << s) - 1)
    half = 1 << (s - 1)
    if rem > half or (rem == half and (q & 1)):
        q += 1
    return (sign << 31) | q


def _steps(x, d):
    for _ in range(abs(d)):
        x = math.nextafter(x, math.inf if d > 0 else -math.inf)
    return x


FLT_MAX = f32_from_bits(0x7f7fffff)
FLT_MIN = f32_from_bits(0x00800000)
FLT_TRUE_MIN = f32_from_bits(0x00000001)
_EDGES = [0.0, -0.0, 1.0, -1.0, 0.5, -0.5, 1e300, -1e300, 1.7976931348623157e308, 5e-324,
          2.2250738585072014e-308, FLT_MAX, FLT_MIN, FLT_TRUE_MIN, FLT_TRUE_MIN / 2,
          # overflow threshold of float: FLT_MAX + half an ulp(float)
          FLT_MAX + 2.0 ** 102, 0.1, 1 / 3.0, 16777216.0, 16777217.0, 33554431.0,
          math.inf, -math.inf, math.nan]


def _edge_bits():
    out = []
    for e in _EDGES:
        for s in (1.0, -1.0):
            if e != e:
                out.append(to_bits(e))
                continue
            for d in (-2, -1, 0, 1, 2):
                out.append(to_bits(_steps(s * e, d)))
    return sorted(set(out))


EDGE_BITS = _edge_bits()
INT_LIMIT_KS = [7, 8, 15, 16, 31, 32, 63, 64, 65, 127]


@st.composite
def _near_pow2(draw):
    k = draw(st.one_of(st.integers(-1080, 1030), st.sampled_from(INT_LIMIT_KS),
                       st.integers(-160, 135)))
    try:
        x = math.ldexp(1.0, k)
    except OverflowError:
        x = math.inf
    x = _steps(x, draw(st.integers(-3, 3)))
    if draw(st.booleans()):
        x = -x
    return to_bits(x)


@st.composite
def _float_tie(draw):
    """A value half way between two adjacent floats (where round-to-nearest-even
    decides), moved by -1..1 double ulps."""
    fb = draw(st.one_of(st.integers(0, 0x7f7fffff), st.sampled_from(
        [0, 1, 2, 0x007fffff, 0x00800000, 0x3f800000, 0x3f800001, 0x4b7fffff, 0x7f7ffffe, 0x7f7fffff])))
    a = f32_from_bits(fb)
    b = f32_from_bits(fb + 1) if fb < 0x7f7fffff else 2.0 ** 128
    mid = (a + b) / 2          # exact in double
    x = _steps(mid, draw(st.integers(-1, 1)))
    if draw(st.booleans()):
        x = -x
    return to_bits(x)


@st.composite
def _near_int_limit(draw):
    k = draw(st.sampled_from(INT_LIMIT_KS))
    n = draw(st.sampled_from([2 ** k, 2 ** k - 1, 2 ** (k - 1), 2 ** (k - 1) - 1, 2 ** k + 1]))
    frac = draw(st.sampled_from([0.0, 0.5, 0.25, 0.99, -0.5, -0.01]))
    x = float(n) + frac
    x = _steps(x, draw(st.integers(-1, 1)))
    if draw(st.booleans()):
        x = -x
    return to_bits(x)


@st.composite
def _exact_float(draw):
    """A double that is exactly representable as float (incl. float subnormals)."""
    fb = draw(st.integers(0, 0x7f7fffff))
    x = f32_from_bits(fb)
    return to_bits(-x if draw(st.booleans()) else x)


@st.composite
def _smallish(draw):
    """Human-scale values with fractional parts."""
    x = draw(st.integers(-70000, 70000)) + draw(st.sampled_from([0.0, 0.5, 0.25, 0.75, 0.999, 0.001]))
    return to_bits(x)


@st.composite
def _specials(draw):
    """NaNs (quiet, signalling, any payload, either sign) and infinities."""
    sign = draw(st.integers(0, 1)) << 63
    m = draw(st.one_of(st.sampled_from([0, 0, 1, 1 << 51, (1 << 51) | 1, (1 << 52) - 1, 1 << 50, 1 << 29,
                                        1 << 28, (1 << 29) - 1]), st.integers(0, (1 << 52) - 1)))
    return sign | (0x7ff << 52) | m


@st.composite
def _float_subnormal_zone(draw):
    """Doubles whose magnitude lies around the float subnormal range 2**-149 .. 2**-126,
    where narrowing rounds at a value-dependent bit position."""
    e = draw(st.integers(1023 - 152, 1023 - 124))
    m = draw(st.one_of(st.integers(0, (1 << 52) - 1),
                       st.integers(0, 52).flatmap(lambda k: st.sampled_from(
                           [1 << k, (1 << k) - 1, (1 << k) + 1, (3 << k) & ((1 << 52) - 1)])),
                       st.sampled_from([0, 1, (1 << 52) - 1, 1 << 51])))
    return (draw(st.integers(0, 1)) << 63) | (e << 52) | m


def double_bits(finite_only=False):
    base = st.one_of(st.integers(0, 2 ** 64 - 1), st.sampled_from(EDGE_BITS), _near_pow2(),
                     _float_tie(), _near_int_limit(), _exact_float(), _smallish(),
                     _float_subnormal_zone(), _specials())
    if finite_only:
        return base.filter(is_finite_bits)
    return base


def classify(b):
    """Coarse class labels for histograms."""
    e = (b >> 52) & 0x7ff
    m = b & ((1 << 52) - 1)
    if e == 0x7ff:
        return 'nan' if m else 'inf'
    if e == 0:
        return 'zero' if m == 0 else 'subnormal-double'
    x = abs(from_bits(b))
    if x > FLT_MAX:
        return 'above-FLT_MAX'
    if x < FLT_MIN:
        return 'below-FLT_MIN'
    return 'float-exact' if (m & ((1 << 29) - 1)) == 0 else 'float-inexact'
