"""C18 -- ffi.unpack(p, n) equals [p[i] for i in range(n)].

Case: an item type (every primitive cffi knows, data/function pointers,
structs, arrays, enums), n in 0..40, the address of the first item modulo 16
(so aligned and misaligned starts), the bit patterns of the items, and the
kind of cdata handed to unpack (plain pointer, 'T[n]' array, sliced 'T[]'
view).  The patterns are written into a char[] allocation; both sides are
then evaluated on the same memory and compared: same exception type, or
element-wise equal results (ints exactly, floats/complex by bit pattern,
long double by its 10 value bytes, pointer and aggregate cdata by type and
address, character types after joining the element-wise reads).
"""
import struct
from hypothesis import strategies as st
from vlib.core import Violation, HarnessError

ID = 'C18'
LEVEL = 'exploration'
RULE = ('Hypothesis-generated (item type: all primitive types of cffi incl. _Bool, long double, complex, '
        'wchar_t/char16_t/char32_t, plus data pointers, function pointer, structs of size 3 and 12, int[3], '
        'enums) x n in 0..40 x start address mod 16 in 0..15 x item bit patterns (type-aware: boundary '
        'values, valid and invalid _Bool / char32 units, surrogates, NaNs, random bits) x view (T*, T[n], '
        'sliced T[]); oracle = element-wise reading of the same memory. An evaluation is one '
        '(unpack, list comprehension) comparison; non-trivial iff the start is misaligned for the type, '
        'or an item pattern is invalid for the type (element read raises), or n >= 2; distinct by '
        '(type, start mod alignment, n, view, which item is the first invalid one).')
TECHNIQUE = 'differential property-based testing: ffi.unpack vs element-wise reads on identical memory (ASan build in the thorough tier)'
LEVEL_TEXT = ('Randomised exploration: for every generated type/length/alignment/content, ffi.unpack and the '
              'element-wise list agreed (values or exception type); both sides are cffi code, so a defect '
              'shared by convert_to_object and the unpack fast paths would not be seen here (covered by C03-C05).')
LEVEL_NOTE = ('Trusted: p[i] (convert_to_object) as the reference semantics, per the property statement; '
              'ffi.buffer/ffi.cast to place the bit patterns; x86-64 tolerates misaligned loads.')
ASSUMPTIONS = ['element-wise reading p[i] is the reference (the property is an equivalence, not an absolute value claim)',
               'for char16_t the joined element-wise string and the unpack result are compared as UTF-16 code-unit '
               'sequences (a high+low surrogate pair in memory is one astral character in the unpack result)',
               'exceptions are compared by type',
               'items are placed inside a test-owned char[] allocation (n items readable)']
BUDGET = {'quick': 16000, 'thorough': 320000}
TIME = {'quick': 12, 'thorough': 800}
CRASHY = True
ASAN_TIERS = ('thorough',)

KNOWN_CHAR32 = 'char32-unit-above-0x10FFFF'

EXTRA_TYPES = {            # name -> category
    'void *': 'ptr', 'char *': 'ptr', 'int * *': 'ptr', 'struct s12 *': 'ptr', 'struct opq *': 'ptr',
    'int(*)[2]': 'ptr', 'fn_t': 'ptr', 'void(*)(void)': 'ptr',
    'struct s12': 'agg', 'struct s3': 'agg', 'union u8': 'agg', 'int[3]': 'agg', 'char[5]': 'agg',
    'enum e_u': 'int', 'enum e_s': 'int', 'float _Complex': 'complex', 'double _Complex': 'complex',
}
CDEF = ('struct s12 { int32_t a; int16_t b; char c[6]; }; struct s3 { char a; char b[2]; }; '
        'union u8 { double d; char c[3]; }; enum e_u { EA, EB=7 }; enum e_s { EN=-1, EP=5 }; '
        'typedef int (*fn_t)(int); struct opq;')


def _type_table():
    """name -> category, from cffi's own table of primitives (no cffi objects needed)"""
    from cffi import model
    t = {}
    for name, k in model.PrimitiveType.ALL_PRIMITIVE_TYPES.items():
        if name == '_cffi_float_complex_t' or name == '_cffi_double_complex_t':
            t[name] = 'complex'
        elif name == '_Bool':
            t[name] = 'bool'
        elif name == 'char':
            t[name] = 'char'
        elif name in ('wchar_t', 'char32_t'):
            t[name] = 'char32'
        elif name == 'char16_t':
            t[name] = 'char16'
        elif name == 'long double':
            t[name] = 'longdouble'
        elif k == 'f':
            t[name] = 'float'
        elif k == 'j':
            t[name] = 'complex'
        elif k == 'i':
            t[name] = 'int'
        elif k == 'c':
            t[name] = 'char'
        else:
            raise HarnessError('unknown primitive kind %r for %r' % (k, name))
    t.update(EXTRA_TYPES)
    return t


def strategy(ctx):
    table = _type_table()
    names = sorted(table)
    # a few types get extra weight: the ones with dedicated fast paths or validity rules
    weighted = names + ['_Bool'] * 6 + ['char32_t', 'wchar_t', 'char16_t'] * 4 + \
        ['unsigned int', 'int', 'short', 'unsigned short', 'long', 'unsigned long', 'signed char', 'unsigned char',
         'float', 'double', 'void *', 'fn_t', 'char', 'char', 'long double', 'struct s12', 'struct s3'] * 2
    rnd = st.integers(0, 2 ** 128 - 1)

    def patterns(cat):
        if cat == 'bool':
            return st.one_of(st.sampled_from([0, 1]), st.sampled_from([0, 1]), st.sampled_from([0, 1]),
                             st.sampled_from([0, 1]), st.sampled_from([2, 255, 128, 3, 0x100, 0x101]))
        if cat == 'char32':
            ok = st.one_of(st.integers(0x20, 0x7e), st.integers(0, 0xffff), st.integers(0x10000, 0x10ffff),
                           st.sampled_from([0, 0xd800, 0xdfff, 0x10ffff, 0xffff, 0x10000]))
            return st.one_of(ok, ok, ok, ok, ok, ok, st.sampled_from([0x110000, 0xffffffff, 0x80000000, 0x7fffffff]),
                             st.integers(0x110000, 0xffffffff))
        if cat == 'char16':
            return st.one_of(st.integers(0x20, 0x7e), st.integers(0, 0xffff), st.integers(0xd800, 0xdbff),
                             st.integers(0xdc00, 0xdfff), st.sampled_from([0, 0xd7ff, 0xe000, 0xffff]))
        if cat in ('float', 'longdouble', 'complex'):
            specials = [0, 0x80000000, 0x7f800000, 0xff800000, 0x7fc00000, 0x7f800001, 1, 0x7f7fffff, 0x3f800000,
                        0x8000000000000000, 0x7ff0000000000000, 0xfff0000000000000, 0x7ff8000000000000,
                        0x7ff0000000000001, 0x3ff0000000000000, 0x7fefffffffffffff, 0x000fffffffffffff,
                        0x7fff8000000000000000, 0xffffc000000000000000, 0x3fff8000000000000000, 0x00000000000000000001]
            return st.one_of(rnd, rnd, st.sampled_from(specials),
                             st.tuples(st.sampled_from(specials), st.sampled_from(specials)).map(lambda t: t[0] | (t[1] << 64)),
                             st.tuples(st.sampled_from(specials), st.sampled_from(specials)).map(lambda t: t[0] | (t[1] << 32)))
        ones = [(1 << b) - 1 for b in (7, 8, 15, 16, 31, 32, 63, 64)]
        tops = [1 << b for b in (7, 15, 31, 63)]
        return st.one_of(rnd, st.integers(0, 3), st.sampled_from(ones + tops + [t + 1 for t in tops]),
                         st.sampled_from([2 ** 64 - 1, 2 ** 32 - 1, 2 ** 64 - 2, 2 ** 63 - 1]))

    @st.composite
    def case(draw):
        T = draw(st.sampled_from(weighted))
        n = draw(st.one_of(st.integers(0, 40), st.integers(0, 5), st.integers(1, 12)))
        amod = draw(st.one_of(st.integers(0, 15), st.sampled_from([0, 0, 8, 4, 2, 1])))
        elems = draw(st.lists(patterns(table[T]), min_size=1, max_size=max(1, min(n, 12))))
        view = draw(st.sampled_from(['ptr', 'ptr', 'array', 'slice']))
        return {'T': T, 'n': n, 'amod': amod, 'elems': elems, 'view': view}
    return case()


def setup(ctx):
    import cffi
    ffi = cffi.FFI()
    ffi.cdef(CDEF)
    table = _type_table()
    info = {}
    for name, cat in table.items():
        ct = ffi.typeof(name)
        info[name] = {'cat': cat, 'size': ffi.sizeof(ct), 'align': ffi.alignof(ct), 'ct': ct,
                      'ptr': ffi.typeof(ffi.getctype(name, '*'))}
    ld = ffi.new('long double[1]')
    return {'ffi': ffi, 'info': info, 'ld': ld}


def prop(case, ctx):
    ffi = ctx.state['ffi']
    T = case['T']; n = case['n']
    inf = ctx.state['info'].get(T)
    if inf is None:
        raise HarnessError('unknown type %r' % (T,))
    cat, size, align = inf['cat'], inf['size'], inf['align']
    elems = case['elems']
    mask = (1 << (8 * size)) - 1
    units = [elems[i % len(elems)] & mask for i in range(n)]
    raw = b''.join(u.to_bytes(size, 'little') for u in units)

    backing = ffi.new('char[]', n * size + 48)
    base = int(ffi.cast('uintptr_t', backing))
    start = base + ((case['amod'] - base) % 16)
    ffi.buffer(backing)[start - base:start - base + len(raw)] = raw
    # the memory just behind the requested items continues the pattern (it is not zero): what unpack(p, n)
    # returns must not depend on it (e.g. a surrogate pair cut in two by n)
    beyond = b''.join((elems[i % len(elems)] & mask).to_bytes(size, 'little') for i in range(n, n + 2))
    room = len(ffi.buffer(backing)) - (start - base + len(raw))
    beyond = beyond[:max(0, min(len(beyond), room))]
    ffi.buffer(backing)[start - base + len(raw):start - base + len(raw) + len(beyond)] = beyond
    p = ffi.cast(inf['ptr'], start)
    view = case['view']
    if view == 'array':
        obj = ffi.cast(ffi.getctype(T, '(*)[%d]' % n), start)[0]
    elif view == 'slice':
        obj = p[0:n]
    else:
        obj = p

    # classification of the content (independent of the results)
    first_invalid = None
    if cat == 'bool':
        bad = [i for i, u in enumerate(units) if (u & 0xff) > 1]
        first_invalid = bad[0] if bad else None
    elif cat == 'char32':
        bad = [i for i, u in enumerate(units) if u > 0x10ffff]
        first_invalid = bad[0] if bad else None
    misaligned = (start % align) != 0

    if cat == 'char32' and n >= 2 and first_invalid is not None and ctx.skip_known(KNOWN_CHAR32):
        ctx.event('skipped:' + KNOWN_CHAR32)
        return

    def run(fn):
        try:
            return ('ok', fn())
        except (ValueError, TypeError, SystemError, OverflowError) as e:
            return ('exc', type(e), str(e))

    got = run(lambda: ffi.unpack(obj, n))
    ref = run(lambda: [obj[i] for i in range(n)])

    ctx.note((T, start % align, n, view, first_invalid), misaligned or first_invalid is not None or n >= 2,
             ['cat=' + cat, 'view=' + view, 'misaligned' if misaligned else 'aligned',
              'n=0' if n == 0 else 'n=1' if n == 1 else 'n>=2',
              'item-invalid-for-type' if first_invalid is not None else 'items-valid',
              'size=%d' % size])

    def fail(msg):
        ctx.fail("%s: ffi.unpack(<%s %s at address %%16==%d>, %d): %s" % (T, view, T, start % 16, n, msg),
                 type=T, n=n, view=view, memory=raw.hex(),
                 unpack=repr(got)[:600], elementwise=repr(ref)[:600])

    if got[0] != ref[0]:
        fail('unpack %s but element-wise reading %s' % (
            'raised %s (%s)' % (got[1].__name__, got[2]) if got[0] == 'exc' else 'returned %.200r' % (got[1],),
            'raised %s (%s)' % (ref[1].__name__, ref[2]) if ref[0] == 'exc' else 'returned %.200r' % (ref[1],)))
    if got[0] == 'exc':
        if got[1] is not ref[1]:
            fail('unpack raised %s, element-wise reading raised %s' % (got[1].__name__, ref[1].__name__))
        if first_invalid is None:
            fail('both sides raised %s on content that is valid for the type: %s' % (got[1].__name__, got[2]))
        ctx.event('both-raise:' + got[1].__name__)
        return
    if first_invalid is not None and cat == 'bool':
        fail('a _Bool byte other than 0/1 was converted by both sides')

    g, r = got[1], ref[1]
    if cat == 'char':
        if type(g) is not bytes or g != b''.join(r) or len(g) != n:
            fail('bytes differ: %r vs joined %r' % (g, b''.join(r)))
        return
    if cat in ('char16', 'char32'):
        if type(g) is not str:
            fail('result is not a str: %r' % (g,))
        j = ''.join(r)
        if cat == 'char16':
            a = g.encode('utf-16-le', 'surrogatepass'); b = j.encode('utf-16-le', 'surrogatepass')
            if a != b or len(a) != 2 * n:
                fail('UTF-16 units differ: %s vs %s' % (a.hex(), b.hex()))
            if g != j:
                ctx.event('char16-pair-joined-by-unpack')
        elif g != j or len(g) != n:
            fail('str differs: %r vs joined %r' % (g, j))
        return
    if type(g) is not list or len(g) != n or len(r) != n:
        fail('result is not a list of %d items' % n)
    for i in range(n):
        a, b = g[i], r[i]
        if cat in ('int', 'bool'):
            ok = type(a) is type(b) and a == b
        elif cat == 'float':
            ok = type(a) is float and type(b) is float and struct.pack('<d', a) == struct.pack('<d', b)
        elif cat == 'complex':
            ok = (type(a) is complex and type(b) is complex and
                  struct.pack('<dd', a.real, a.imag) == struct.pack('<dd', b.real, b.imag))
        elif cat == 'longdouble':
            ok = isinstance(a, ffi.CData) and isinstance(b, ffi.CData) and ffi.typeof(a) is ffi.typeof(b) is inf['ct']
            if ok:
                ld = ctx.state['ld']
                ld[0] = a; ba = bytes(ffi.buffer(ld))[:10]
                ld[0] = b; bb = bytes(ffi.buffer(ld))[:10]
                ok = ba == bb
        elif cat == 'ptr':
            ok = (isinstance(a, ffi.CData) and isinstance(b, ffi.CData) and ffi.typeof(a) is ffi.typeof(b) is inf['ct']
                  and int(ffi.cast('uintptr_t', a)) == int(ffi.cast('uintptr_t', b)) == units[i])
        elif cat == 'agg':
            ok = isinstance(a, ffi.CData) and isinstance(b, ffi.CData) and ffi.typeof(a) is ffi.typeof(b) is inf['ct']
            if ok:
                aa = a if inf['ct'].kind == 'array' else ffi.addressof(a)
                bb = b if inf['ct'].kind == 'array' else ffi.addressof(b)
                ok = int(ffi.cast('uintptr_t', aa)) == int(ffi.cast('uintptr_t', bb)) == start + i * size
        else:
            raise HarnessError('category %r' % (cat,))
        if not ok:
            fail('item %d differs: unpack %r, element-wise %r' % (i, a, b))


def pre(ctx):
    """deterministic sweep: every item type x {aligned, misaligned} x {pointer, array, slice} with a fixed
    content (the random part weights the types; this makes sure that none is ever left out)"""
    table = _type_table()
    fixed = {'bool': [[0, 1, 1, 0, 1], [1, 0, 2, 1]],
             'char16': [[0x41, 0xd83d, 0xde00, 0x20ac, 0], [0xdc00, 0x41, 0xd800]],
             'char32': [[0x41, 0x1f600, 0x20ac, 0, 0x10ffff], [0x41, 0x110000, 0x42]]}
    generic = [[0, 1, 2 ** 128 - 1, 0x8000000000000000, 0x3ff0000000000000, 0x7ff8000000000000,
                0x0123456789abcdef0123456789abcdef, 0x7f7fffff7f7fffff, 0x80, 0x7f]]
    for T in sorted(table):
        for elems in fixed.get(table[T], generic):
            for amod in (0, 1):
                for view in ('ptr', 'array', 'slice'):
                    prop({'T': T, 'n': len(elems) + 2, 'amod': amod, 'elems': elems, 'view': view}, ctx)
    ctx.extra['item_types_swept'] = len(table)
