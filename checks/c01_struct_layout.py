"""C01 -- ABI-mode struct/union layout equals gcc's layout.

Case: a batch of G-AGG translation units (vlib/agg.py).  One gcc program per
batch prints, for every aggregate, sizeof/_Alignof, offsetof of every
non-bitfield field path (promoted anonymous members, nested members, array
elements, the flexible array) and, for every named bitfield, the bytes of a
zeroed object after storing all-ones into that field.

cffi side (in-line FFI, one cdef() per aggregate with its packed=/pack=):
ffi.sizeof / ffi.alignof / ffi.offsetof must equal gcc's numbers; the bit set of
each bitfield is computed twice -- from typeof(T).fields metadata
(offset*8+bitshift .. +bitsize, little endian) and from the bytes of
ffi.buffer(p) after writing all-ones through cffi -- and both must equal gcc's
dump.  Any exception from cffi on these declarations is a violation.
"""
from hypothesis import strategies as st
from vlib.core import HarnessError
from vlib import agg, cc

ID = 'C01'
LEVEL = 'exploration'
RULE = ('Hypothesis-generated translation units of 1-6 struct/union declarations (G-AGG: all '
        'primitive spellings, pointers, function pointers, 1-2-D arrays, earlier aggregates by value, '
        'anonymous and inline-typed nested members to depth 4, named/unnamed/zero-width bitfields of the '
        '11 explicit-sign types, trailing flexible array, packed=True / pack=1,2,4,8,16 on bitfield-free '
        'groups); oracle = gcc -O0 on the identical declarations (sizeof, _Alignof, offsetof per field '
        'path, byte dump per bitfield).  An evaluation is one aggregate compared in full; non-trivial = '
        '>=2 members and at least one of {padding byte, bitfield, nested/anonymous aggregate, array, '
        'packing that changes the layout}; distinct by canonical declaration text (incl. embedded '
        'aggregates and packing).')
TECHNIQUE = 'property-based differential testing against gcc (batched compile-and-run oracle)'
LEVEL_TEXT = ('Random search over the combinatorial space of field sequences; every compared fact is '
              'taken from the platform compiler, none from a model of the layout algorithm.')
LEVEL_NOTE = ('Trusted: gcc 12 x86-64 SysV layout (offsetof/_Alignof/byte dumps at -O0), '
              '#pragma pack(push,N) == cdef(pack=N), __attribute__((packed)) on every struct/union of the '
              'group == cdef(packed=True).  MSVC/ARM bitfield modes are not exercised.')
ASSUMPTIONS = ['gcc -O0 x86-64 is "the platform C compiler"',
               'packed=True is rendered as __attribute__((packed)) on every struct/union defined in the '
               'cdef, pack=N as #pragma pack(push,N)',
               'bitfield storage bits on the C side = bytes of a zeroed object after assigning -1 to the field',
               'for arrays only the first and last element are followed; at most 80 field paths per aggregate']
BUDGET = {'quick': 64, 'thorough': 2400}
BATCH = {'quick': 16, 'thorough': 20}
MIN_PER_SHARD = 4
TIME = {'quick': 30, 'thorough': 720}


def strategy(ctx):
    # one gcc invocation per Hypothesis case (process creation is the scarce resource)
    # explicit batch size (st.lists alone averages ~6 elements whatever max_size is); still
    # shrinks to a single unit
    return st.integers(1, BATCH[ctx.tier]).flatmap(lambda n: st.lists(agg.units(), min_size=n, max_size=n))


def _c_program(batch):
    out = [agg.C_HEADERS,
           'static void dump(const void *p, size_t n) { const unsigned char *c = p; size_t i; '
           'for (i = 0; i < n; i++) printf("%02x", c[i]); printf("\\n"); }\n']
    body = []
    for u, unit in enumerate(batch):
        prefix = 'u%d_' % u
        for i in range(len(unit)):
            out.append(agg.render_agg(unit, i, prefix, for_c=True) + '\n')
            T = agg.type_name(unit, i, prefix)
            body.append('printf("A %d %d %%zu %%zu\\n", sizeof(%s), (size_t)_Alignof(%s));' % (u, i, T, T))
            bfs = []
            for k, p in enumerate(agg.field_paths(unit, i)):
                if p[0] == 'f':
                    if p[2][0] == 'flexarr':
                        body.append('printf("O %d %d %d %%zu 0\\n", offsetof(%s, %s));'
                                    % (u, i, k, T, agg.c_path(p[1])))
                    else:
                        body.append('printf("O %d %d %d %%zu %%zu\\n", offsetof(%s, %s), sizeof(((%s *)0)->%s));'
                                    % (u, i, k, T, agg.c_path(p[1]), T, agg.c_path(p[1])))
                else:
                    bfs.append((k, p))
            if bfs:
                body.append('{ %s v;' % T)
                for k, p in bfs:
                    body.append('  memset(&v, 0, sizeof v); v.%s = -1; printf("B %d %d %d "); dump(&v, sizeof v);'
                                % (agg.c_path(p[1]), u, i, k))
                body.append('}')
    out.append('int main(void) {\n%s\nreturn 0; }\n' % '\n'.join(body))
    return ''.join(out)


def _parse(text):
    A, O, B = {}, {}, {}
    for line in text.splitlines():
        w = line.split()
        if not w:
            continue
        if w[0] == 'A':
            A[(int(w[1]), int(w[2]))] = (int(w[3]), int(w[4]))
        elif w[0] == 'O':
            O[(int(w[1]), int(w[2]), int(w[3]))] = (int(w[4]), int(w[5]))
        elif w[0] == 'B':
            B[(int(w[1]), int(w[2]), int(w[3]))] = int.from_bytes(bytes.fromhex(w[4]), 'little')
        else:
            raise HarnessError('unparsable oracle output line %r' % line)
    return A, O, B


def prop(batch, ctx):
    A, O, B = _parse(cc.compile_and_run(_c_program(batch), ctx.tmp))
    for u, unit in enumerate(batch):
        _check_unit(u, unit, A, O, B, ctx)


def _meta_walk(ffi, T, path):
    """-> (byte offset of the enclosing storage, CField or None, ctype) following
    typeof(T).fields by hand (independent of ffi.offsetof)"""
    t = ffi.typeof(T)
    off = 0
    fld = None
    for p in path:
        if isinstance(p, int):
            t = t.item
            off += p * ffi.sizeof(t)
            fld = None
        else:
            fld = dict(t.fields)[p]
            off += fld.offset
            t = fld.type
    return off, fld, t


def _check_unit(u, unit, A, O, B, ctx):
    prefix = 'u%d_' % u
    decls = [(agg.render_agg(unit, i, prefix), agg.cdef_kwargs(a)) for i, a in enumerate(unit)]
    shown = '\n'.join('%s   // cdef kwargs %r' % d for d in decls)
    import cffi
    ffi = cffi.FFI()
    if u % 3 == 1:
        # staged declaration: every tagged aggregate is first declared opaque and used (its ctype gets
        # built), the definition arrives in a later cdef() and must re-complete the existing ctype
        staged = 0
        for i, a in enumerate(unit):
            T = agg.type_name(unit, i, prefix)
            if T.startswith(('struct ', 'union ')):
                try:
                    ffi.cdef(T + ';')
                    opaque = ffi.typeof(T + ' *')
                    ffi.typeof(T)
                except Exception as e:
                    ctx.fail('forward declaration of %s rejected: %s: %s' % (T, type(e).__name__, e), unit=shown)
                staged += 1
        if staged:
            ctx.event('declared-opaque-and-used-before-definition')
    for i, (txt, kw) in enumerate(decls):
        try:
            ffi.cdef(txt, **kw)
        except Exception as e:
            ctx.fail('cdef() rejected a declaration of the class: %s: %s' % (type(e).__name__, e),
                     decl=txt, kwargs=kw, unit=shown)
    for i, a in enumerate(unit):
        T = agg.type_name(unit, i, prefix)
        gsize, galign = A[(u, i)]
        paths = agg.field_paths(unit, i)
        try:
            csize, calign = ffi.sizeof(T), ffi.alignof(T)
        except Exception as e:
            ctx.fail('declaration of the class rejected at sizeof/alignof: %s: %s' % (type(e).__name__, e),
                     type=T, unit=shown)
        # ---- classification (from the compiler's numbers) ----
        direct = [(k, p) for k, p in enumerate(paths) if len(p[1]) == 1]
        nmembers = len(a['members'])
        feats = agg.features(unit, i)
        padding = False
        if a['kind'] == 'struct' and not agg.has_bitfield(a):
            pos = 0
            for k, p in direct:
                if p[0] == 'f':
                    o, s = O[(u, i, k)]
                    if o != pos:
                        padding = True
                    pos = o + s
            if pos != gsize:
                padding = True
        elif a['kind'] == 'union':
            padding = any(O[(u, i, k)][1] != gsize for k, p in direct if p[0] == 'f')
        pack_changes = False
        if a['pack'] is not None:
            # packing matters iff some member's natural alignment exceeds the pack value
            pack_changes = 'pack-effective' in _pack_effect(unit, i, A, u)
        interesting = (padding or 'bitfield' in feats or 'anonymous-member' in feats
                       or 'inline-named-member' in feats or 'embeds-earlier' in feats
                       or 'array' in feats or pack_changes)
        cls = list(feats)
        if padding:
            cls.append('has-padding')
        if pack_changes:
            cls.append('packing-changes-layout')
        ctx.note(agg.canonical(unit, i), nmembers >= 2 and interesting, cls)
        # ---- size / alignment ----
        if csize != gsize:
            ctx.fail('sizeof(%s): cffi %d, gcc %d' % (T, csize, gsize), unit=shown)
        if calign != galign:
            ctx.fail('alignof(%s): cffi %d, gcc %d' % (T, calign, galign), unit=shown)
        # ---- fields ----
        p = None
        for k, pth in enumerate(paths):
            path = pth[1]
            if pth[0] == 'f':
                goff = O[(u, i, k)][0]
                try:
                    coff = ffi.offsetof(T, *path)
                    moff, fld, _ = _meta_walk(ffi, T, path)
                except Exception as e:
                    ctx.fail('offsetof(%s, %s) raised %s: %s' % (T, agg.c_path(path), type(e).__name__, e),
                             unit=shown)
                ctx.event('offsetof-compared')
                if coff != goff:
                    ctx.fail('offsetof(%s, %s): cffi %d, gcc %d' % (T, agg.c_path(path), coff, goff), unit=shown)
                if moff != goff:
                    ctx.fail('typeof(%s).fields walk to %s gives offset %d, gcc %d'
                             % (T, agg.c_path(path), moff, goff), unit=shown)
                if fld is not None and fld.bitsize != -1:
                    ctx.fail('non-bitfield %s.%s has bitsize %d' % (T, agg.c_path(path), fld.bitsize), unit=shown)
                continue
            # ---- named bitfield ----
            _, _, tname, width = pth
            gbits = B[(u, i, k)]
            if bin(gbits).count('1') != width:
                raise HarnessError('gcc dump of %s.%s has %d bits set, width %d\n%s'
                                   % (T, agg.c_path(path), bin(gbits).count('1'), width, shown))
            try:
                moff, fld, ftype = _meta_walk(ffi, T, path)
                mbits = ((1 << fld.bitsize) - 1) << (moff * 8 + fld.bitshift)
                if p is None:
                    p = ffi.new(T + ' *')
                    buf = ffi.buffer(p)
                else:
                    buf[:] = b'\0' * len(buf)
                obj = p
                for e in path[:-1]:
                    obj = obj[e] if isinstance(e, int) else getattr(obj, e)
                bits, signed = agg.bf_info(tname)
                setattr(obj, path[-1], -1 if signed else (1 if tname == '_Bool' else (1 << width) - 1))
                wbits = int.from_bytes(bytes(buf), 'little')
            except Exception as e:
                ctx.fail('bitfield %s.%s: %s: %s' % (T, agg.c_path(path), type(e).__name__, e), unit=shown)
            ctx.event('bitfield-compared')
            if fld.bitsize != width:
                ctx.fail('bitfield %s.%s: bitsize %d, declared %d' % (T, agg.c_path(path), fld.bitsize, width),
                         unit=shown)
            if mbits != gbits:
                ctx.fail('bitfield %s.%s: storage bits per typeof().fields %#x, gcc %#x'
                         % (T, agg.c_path(path), mbits, gbits), unit=shown,
                         offset=moff, bitshift=fld.bitshift, bitsize=fld.bitsize)
            if wbits != gbits:
                ctx.fail('bitfield %s.%s: bits written by cffi %#x, by gcc %#x'
                         % (T, agg.c_path(path), wbits, gbits), unit=shown)


def _pack_effect(unit, i, A, u):
    """'pack-effective' iff some direct member type has a natural alignment above the pack
    value (so the packing option changes the layout or at least the alignment)."""
    a = unit[i]
    pk = 1 if a['pack'] == 'packed' else a['pack']
    big = {'short': 2, 'int': 4, 'long': 8, 'double': 8, 'float': 4, 'long long': 8, 'wchar_t': 4,
           'char16_t': 2, 'char32_t': 4}

    def talign(t):
        if t[0] == 'arr':
            return talign(t[2])
        if t[0] == 'flexarr':
            return talign(t[1])
        if t[0] == 'agg':
            return A[(u, t[1])][1]
        if t[0] == 'inl':
            return max([malign(m) for m in t[1]['members']] or [1])
        if t[0] == 'prim':
            p = t[1].replace('const ', '').replace('volatile ', '')
            if p == 'long double':
                return 16
            if p in big:
                return big[p]
            if p.startswith('unsigned '):
                return big.get(p[9:], 1)
            if 'Complex' in p:
                return 4 if 'float' in p else 8
            if '64' in p or p in ('intptr_t', 'uintptr_t', 'intmax_t', 'uintmax_t', 'ptrdiff_t',
                                  'size_t', 'ssize_t') or 'fast16' in p or 'fast32' in p:
                return 8
            if '32' in p:
                return 4
            if '16' in p:
                return 2
            return 1
        return 8    # pointers

    def malign(m):
        if m[0] in ('f', 'flex'):
            return talign(m[2])
        if m[0] == 'anon':
            return max([malign(x) for x in m[1]['members']] or [1])
        return 1
    if any(malign(m) > pk for m in a['members']):
        return ['pack-effective']
    return []
