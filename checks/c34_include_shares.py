"""C34 -- ffi.include() shares declarations instead of copying them.

One Hypothesis case = one G-CDEF spec cut into a chain of 2-3 cdefs (later
declarations use earlier ones by construction) + a "glue" struct appended to
the last cdef that embeds an earlier struct/union by value, uses an earlier
enumerator (or #define) as an array length, and has fields of an earlier enum
and typedef type.  The chain is realised
  inline  FFI().include(prev); cdef(part)
  abi     out-of-line Python modules (emit_python_code into a scratch dir on sys.path)
  api     compiled API modules (one gcc build per link; only for a fraction of the cases)
with topologies  A<-B,  A<-B<-C  and  A<-B<-C where C also includes A directly.

Oracle, for every declaration of an earlier part seen through every later ffi:
 * ffi_k.typeof(x) is ffi_j.typeof(x) for typedefs, struct/union (complete and
   opaque), enums, function-pointer typedefs, and the pointer types to them;
 * integer constants (#define, static const with value, enumerators) have the
   spec's value (integer_const out-of-line; as an array length in-line);
 * the glue struct's field types are the defining ffi's ctype objects, its
   array length is the constant's value, its layout follows from the sizes and
   alignments the defining ffi reports;
 * api: every function, global and constant of an included module is reachable
   through the including lib: same call results, same global address, stores
   through one lib visible through the other, same constant values; with
   `partial` one struct of an included module is declared with "...;" while the C
   struct has a hidden extra member, so that its layout can only come from the
   included module.
"""
import os, sys, itertools, importlib
from hypothesis import strategies as st
from vlib.core import HarnessError
from vlib import cc, cdefgen, cdefx
from vlib.cdefgen import declarator, resolve, INT_RANGE

ID = 'C34'
LEVEL = 'exploration'
TECHNIQUE = 'identity/value comparison across include() chains in three realisations'
RULE = ('Hypothesis-generated G-CDEF specs (4-12 declarations) cut at random points into chains of 2-3 '
        'cdefs (A<-B, A<-B<-C, A<-B<-C with C including A too) plus a glue struct in the last cdef that '
        'embeds an earlier aggregate by value and uses an earlier enumerator/#define as array length; every '
        'chain realised in-line and as out-of-line ABI modules, about one in eight also as compiled API '
        'modules.  An evaluation is one (earlier declaration, later ffi, realisation) identity/value '
        'comparison, one glue-struct check, or one function/global/constant reached through an including '
        'lib.  Non-trivial = evaluations of chains whose glue struct embeds an earlier struct/union by '
        'value and uses an earlier enumerator as an array length; distinct by (declaration, distance in '
        'the chain, realisation).')
LEVEL_TEXT = ('Random search: in the sampled chains every shared declaration was the same ctype object / value '
              'through every including ffi (except the listed known finding); not exhaustive.')
LEVEL_NOTE = ('Trusted: Python object identity; the spec as the reference for constant values; gcc -O0 for the '
              'API realisation.  Layout of the glue struct is recomputed from sizes/alignments reported by the '
              'defining ffi with the natural-alignment rule (no bitfields, no packing in the glue struct).')
ASSUMPTIONS = ['natural alignment rule for the glue struct (plain members only)',
               'in-line FFIs have no integer_const(): constants are observed as array lengths (0 < v < 2**40)',
               'ABI out-of-line modules are never dlopen()ed: only types and integer constants are compared',
               'wchar_t results/globals that hold no code point are left out']
BUDGET = {'quick': 400, 'thorough': 24000}
TIME = {'quick': 20, 'thorough': 840}
MIN_PER_SHARD = 10
API_ONE_IN = {'quick': 8, 'thorough': 10}
KNOWN_ENUM = 'included-enum-recreated'

_count = itertools.count()


def strategy(ctx):
    small = st.integers(0, 2 ** 16)
    raw = st.integers(0, 2 ** 64 - 1)
    one_in = API_ONE_IN[ctx.tier]

    @st.composite
    def case(draw):
        spec = draw(cdefgen.specs(features=cdefgen.DEFAULT_FEATURES, min_decls=4, max_decls=12))
        return {'spec': spec, 'topo': draw(st.integers(0, 2)), 'cuts': [draw(small), draw(small)],
                'glue': [draw(small), draw(small), draw(small), draw(small)],
                'api': draw(st.integers(0, one_in - 1)) == one_in - 1, 'partial': draw(st.booleans()),
                'raw': draw(st.lists(raw, min_size=6, max_size=6)),
                # the base ffi grows after it was included and is then include()d again (0 = no;
                # otherwise the position, modulo the size of the base cdef, at which it is cut)
                'regrow': draw(st.sampled_from([0, 0, 0, 1, 2, 3, 5]))}
    return case()


def setup(ctx):
    d = os.path.join(ctx.tmp, 'c34pkg_%d' % os.getpid())
    os.makedirs(d, exist_ok=True)
    if d not in sys.path:
        sys.path.insert(0, d)
    return d


# ------------------------------------------------------------------ chain construction

def build_chain(case):
    """-> (decls incl. glue, parts: list of lists of decl indices, includes: per part the list of
    included part numbers, glue info)"""
    case = cdefx.normalise(case)
    decls = list(case['spec']['decls'])
    n = len(decls)
    nparts = 2 if case['topo'] == 0 else 3
    nparts = max(1, min(nparts, n))
    c = case['cuts']
    if nparts == 1:
        bounds = [0, n]
    elif nparts == 2:
        bounds = [0, 1 + c[0] % (n - 1), n]
    else:
        c1 = 1 + c[0] % (n - 2)
        c2 = c1 + 1 + c[1] % (n - 1 - c1)
        bounds = [0, c1, c2, n]
    parts = [list(range(bounds[i], bounds[i + 1])) for i in range(nparts)]
    includes = [[]] + [[k - 1] for k in range(1, nparts)]
    if case['topo'] == 2 and nparts == 3:
        includes[2] = [1, 0]
    glue = None
    if nparts >= 2:
        glue = make_glue(case, decls, parts)
        decls.append(glue['decl'])
        parts[-1].append(len(decls) - 1)
    return case, decls, parts, includes, glue


def make_glue(case, decls, parts):
    earlier = [i for p in parts[:-1] for i in p]
    g = case['glue']
    aggs = [decls[i] for i in earlier if decls[i]['k'] == 'struct']
    enums = [decls[i] for i in earlier if decls[i]['k'] == 'enum']
    tds = [decls[i] for i in earlier if decls[i]['k'] in ('typedef', 'fptd')]
    econsts, dconsts = [], []
    for i in earlier:
        d = decls[i]
        if d['k'] == 'enum':
            econsts += [(nm, v) for (nm, _), v in zip(d['items'], cdefx.enum_values(d)) if 1 <= v <= 300]
        elif d['k'] == 'define' and 1 <= d['value'] <= 9:
            dconsts.append((d['name'], d['value']))
    fields, info = [], {'nested': None, 'const': None, 'constkind': None, 'enum': None, 'td': None}
    if aggs:
        a = aggs[g[0] % len(aggs)]
        fields.append(['gn', ['agg', a['kw'], a['tag']], None])
        info['nested'] = a
    consts = econsts or dconsts
    if consts:
        nm, v = consts[g[1] % len(consts)]
        fields.append(['ga', ['arr', nm, ['prim', ['int', 'short', 'long', 'unsigned char'][g[1] % 4]]], None])
        info['const'] = (nm, v)
        info['constkind'] = 'enumerator' if econsts else 'define'
    if enums:
        e = enums[g[2] % len(enums)]
        fields.append(['ge', ['enum', e['tag']], None])
        info['enum'] = e
    if tds:
        t = tds[g[3] % len(tds)]
        fields.append(['gt', ['td', t['name']], None])
        info['td'] = t
    fields.append(['gz', ['prim', 'int'], None])
    info['decl'] = {'k': 'struct', 'kw': 'struct', 'tag': 'verif_glue', 'fields': fields, 'tdname': None}
    return info


def shared_names(d):
    """type names by which a declaration is visible to an including ffi"""
    k = d['k']
    if k in ('typedef', 'fptd'):
        return [d['name']]
    if k == 'struct':
        return ['%s %s' % (d['kw'], d['tag'])] + ([d['tdname']] if d['tdname'] else [])
    if k == 'opaque':
        return ['%s %s' % (d['kw'], d['tag'])]
    if k == 'enum':
        return ['enum ' + d['tag']]
    return []


def mentions_enum(t, decls):
    """does the ctype denoted by t contain an enum type (not through a struct/union)?"""
    k = t[0]
    if k == 'enum':
        return True
    if k == 'ptr':
        return mentions_enum(t[1], decls)
    if k == 'arr':
        return mentions_enum(t[2], decls)
    if k == 'fptr':
        return mentions_enum(t[1], decls) or any(mentions_enum(a, decls) for a in t[2])
    if k == 'td':
        for d in decls:
            if d['k'] == 'typedef' and d['name'] == t[1]:
                return mentions_enum(d['type'], decls)
            if d['k'] == 'fptd' and d['name'] == t[1]:
                return mentions_enum(['fptr', d['ret'], d['args']], decls)
        return False
    return False


def decl_has_enum_ctype(d, decls):
    if d['k'] == 'enum':
        return True
    if d['k'] == 'typedef':
        return mentions_enum(d['type'], decls)
    if d['k'] == 'fptd':
        return mentions_enum(['fptr', d['ret'], d['args']], decls)
    return False


def int_constants(d):
    k = d['k']
    if k == 'define':
        return [(d['name'], d['value'])]
    if k == 'const' and d.get('withval', True):
        return [(d['name'], d['value'])]
    if k == 'enum':
        return [(nm, v) for (nm, _), v in zip(d['items'], cdefx.enum_values(d))]
    return []


# ------------------------------------------------------------------ realisations

def cdef_of(decls, part):
    return '\n'.join(cdefx.line(decls[i]) for i in part) + '\n'


def _regrow_split(part, regrow):
    """the base cdef in two halves (both non-empty) or None"""
    if not regrow or len(part) < 2:
        return None
    c = 1 + regrow % (len(part) - 1)
    return part[:c], part[c:]


# a small independent FFI that the last module of the chain includes *in addition to* (and after) its
# predecessor: what it declares is reachable only through the second direct include
SIDE_CDEF = """
#define C34_SIDE_K 4242
static const int C34_SIDE_S = -5;
enum { C34_SIDE_E = 17 };
typedef struct { int q; char r; } c34_side_t;
union c34_side_u { int i; double d; };
"""


def check_side(top, side, kind, env):
    try:
        if hasattr(top, 'integer_const'):
            const = top.integer_const
        else:                                   # in-line FFI: constants are attributes of a dlopen()ed lib
            _lib = top.dlopen(None)
            const = lambda name: getattr(_lib, name)
        got = [const('C34_SIDE_K'), const('C34_SIDE_S'), const('C34_SIDE_E'),
               top.typeof('c34_side_t') is side.typeof('c34_side_t'),
               top.typeof('union c34_side_u') is side.typeof('union c34_side_u'),
               top.sizeof('c34_side_t')]
    except Exception as e:
        _fail(env, kind, 'a name declared by the second direct include() of the last module is not found through it: '
              '%s: %s' % (type(e).__name__, e), side_cdef=SIDE_CDEF)
    if got != [4242, -5, 17, True, True, 8]:
        _fail(env, kind, 'names of the second direct include(): constants / type identity / size are %r' % (got,),
              side_cdef=SIDE_CDEF)
    env['ctx'].event('second-direct-include:' + kind)


def realise_inline(decls, parts, includes, regrow=0):
    import cffi
    ffis = []
    halves = _regrow_split(parts[0], regrow)
    for k, part in enumerate(parts):
        f = cffi.FFI()
        for j in includes[k]:
            f.include(ffis[j])
        if k == 0 and halves:
            f.cdef(cdef_of(decls, halves[0]))
        else:
            f.cdef(cdef_of(decls, part)) if not (k == 1 and halves) else None
        if k == 1 and halves:
            # the base grows after it was included; including it again must bring the rest in
            ffis[0].cdef(cdef_of(decls, halves[1]))
            for j in includes[k]:
                f.include(ffis[j])
            f.cdef(cdef_of(decls, part))
        ffis.append(f)
    if halves and len(parts) == 1:
        ffis[0].cdef(cdef_of(decls, halves[1]))
    if len(parts) >= 2:
        side = cffi.FFI()
        side.cdef(SIDE_CDEF)
        ffis[-1].include(side)
        ffis[-1]._c34_side = side
    return ffis


def realise_abi(decls, parts, includes, pkgdir, regrow=0):
    import cffi
    stem = 'c34a_%d_%d' % (os.getpid(), next(_count))
    builders, mods = [], []
    halves = _regrow_split(parts[0], regrow)
    for k, part in enumerate(parts):
        f = cffi.FFI()
        for j in includes[k]:
            f.include(builders[j])
        if k == 0 and halves:
            f.cdef(cdef_of(decls, halves[0]))
        elif k == 1 and halves:
            builders[0].cdef(cdef_of(decls, halves[1]))
            for j in includes[k]:
                f.include(builders[j])
            f.cdef(cdef_of(decls, part))
        else:
            f.cdef(cdef_of(decls, part))
        builders.append(f)
    if halves and len(parts) == 1:
        builders[0].cdef(cdef_of(decls, halves[1]))
    side = None
    if len(parts) >= 2:
        side = cffi.FFI()
        side.cdef(SIDE_CDEF)
        side.set_source(stem + '_side', None)
        side.emit_python_code(os.path.join(pkgdir, stem + '_side.py'))
        builders[-1].include(side)
    for k, f in enumerate(builders):
        name = '%s_%d' % (stem, k)
        f.set_source(name, None)
        f.emit_python_code(os.path.join(pkgdir, name + '.py'))
    importlib.invalidate_caches()
    for k in range(len(parts)):
        mods.append(importlib.import_module('%s_%d' % (stem, k)))
    out = [m.ffi for m in mods]
    if side is not None:
        _SIDES[id(out[-1])] = (out[-1], importlib.import_module(stem + '_side').ffi)
    return out


_SIDES = {}


def pick_partial(case, decls, parts):
    """index of a struct of a non-last part to declare with '...;' (C gets a hidden member), or None"""
    if not case['partial']:
        return None
    if any(d['k'] == 'struct' and d['kw'] == 'struct' and any(b for _, _, b in d['fields']) for d in decls):
        return None          # "using both bitfields and '...;'" would propagate to an embedding struct
    cands = [i for p in parts[:-1] for i in p if decls[i]['k'] == 'struct' and decls[i]['kw'] == 'struct']
    return cands[case['glue'][0] % len(cands)] if cands else None


def realise_api(case, decls, parts, includes, tmp):
    import cffi
    spec = {'decls': decls}
    clines = cdefgen.c_source(spec).rstrip('\n').split('\n')
    header, clines = clines[:len(clines) - len(decls)], clines[len(clines) - len(decls):]
    partial = pick_partial(case, decls, parts)
    if partial is not None:
        head, tail = clines[partial].split('{', 1)
        clines[partial] = head + '{ long verif_hidden;' + tail
    stem = 'c34c_%d_%d' % (os.getpid(), next(_count))
    builders, mods = [], []
    for k, part in enumerate(parts):
        f = cffi.FFI()
        for j in includes[k]:
            f.include(builders[j])
        lines = []
        for i in part:
            ln = cdefx.line(decls[i])
            if i == partial:
                head, tail = ln.rsplit('}', 1)
                ln = head + '...; }' + tail
            lines.append(ln)
        f.cdef('\n'.join(lines) + '\n')
        src = list(header)
        for j in range(k):
            src += [clines[i] for i in parts[j] if decls[i]['k'] not in ('func', 'gvar')]
        src += [clines[i] for i in part]
        name = '%s_%d' % (stem, k)
        f.set_source(name, '\n'.join(src) + '\n')
        builders.append(f)
        try:
            m = cc.build_api_module(f, name, tmp)
        except cc.CompileFailed as e:
            raise ApiBuildFailed(k, str(e)[-1500:], '\n'.join(lines), '\n'.join(src))
        sys.modules[name] = m          # the next link imports it by name
        mods.append(m)
    return mods, partial


class ApiBuildFailed(Exception):
    pass


# ------------------------------------------------------------------ property

def prop(case, ctx):
    case, decls, parts, includes, glue = build_chain(case)
    if len(parts) < 2:
        ctx.note(('degenerate', len(decls)), False, 'chain too short')
        return
    nontrivial = bool(glue and glue['nested'] and glue['constkind'] == 'enumerator')
    topo = ['A<-B', 'A<-B<-C', 'A<-B<-C,A'][case['topo']] if len(parts) == 3 or case['topo'] == 0 else 'A<-B'
    ctx.event('topology ' + topo)
    if glue:
        ctx.event('glue: nested=%s const=%s enum=%s td=%s' % (bool(glue['nested']), glue['constkind'],
                                                              bool(glue['enum']), bool(glue['td'])))
    env = {'ctx': ctx, 'decls': decls, 'parts': parts, 'glue': glue, 'nontrivial': nontrivial, 'case': case}

    def run(kind, thunk):
        try:
            return thunk()
        except ApiBuildFailed as e:
            ctx.fail('api: module %d of the chain does not compile' % e.args[0], gcc=e.args[1], cdef=e.args[2],
                     source=e.args[3])
        except HarnessError:
            raise
        except Exception as e:
            ctx.fail('%s: building the include() chain failed: %s: %s' % (kind, type(e).__name__, e),
                     cdefs=[cdef_of(decls, p) for p in parts], includes=includes)

    regrow = case.get('regrow', 0)
    if regrow and len(parts) > 1 and len(parts[0]) >= 2:
        ctx.event('base ffi grows after being included, then is included again')
    ffis = run('inline', lambda: realise_inline(decls, parts, includes, regrow))
    check_shared(env, 'inline', ffis)
    if getattr(ffis[-1], '_c34_side', None) is not None:
        check_side(ffis[-1], ffis[-1]._c34_side, 'inline', env)
    ffis = run('abi', lambda: realise_abi(decls, parts, includes, ctx.state, regrow))
    check_shared(env, 'abi', ffis)
    side = _SIDES.pop(id(ffis[-1]), None)
    if side is not None:
        check_side(ffis[-1], side[1], 'abi', env)
    if case['api']:
        mods, partial = run('api', lambda: realise_api(case, decls, parts, includes, ctx.tmp))
        ctx.event('api chain' + (' with a "...;" struct in an included module' if partial is not None else ''))
        check_shared(env, 'api', [m.ffi for m in mods])
        check_libs(env, mods, partial)


def _fail(env, kind, msg, **kw):
    env['ctx'].fail('%s: %s' % (kind, msg), cdefs=[cdef_of(env['decls'], p) for p in env['parts']], **kw)


def check_shared(env, kind, ffis):
    ctx, decls, parts = env['ctx'], env['decls'], env['parts']
    for j, part in enumerate(parts[:-1]):
        for i in part:
            d = decls[i]
            for k in range(j + 1, len(parts)):
                for name in shared_names(d):
                    if kind != 'inline' and decl_has_enum_ctype(d, decls) and ctx.skip_known(KNOWN_ENUM):
                        continue
                    ctx.note((d, k - j, kind, name), env['nontrivial'],
                             '%s: %s identity at distance %d' % (kind, 'opaque' if d['k'] == 'opaque' else
                                                                 d['kw'] if d['k'] == 'struct' else d['k'], k - j))
                    for tn in (name, name + ' *'):
                        try:
                            a, b = ffis[j].typeof(tn), ffis[k].typeof(tn)
                        except Exception as e:
                            _fail(env, kind, 'typeof(%r) through ffi %d or %d: %s: %s'
                                  % (tn, j, k, type(e).__name__, e))
                        if a is not b:
                            _fail(env, kind, 'ffi%d.typeof(%r) is not ffi%d.typeof(%r): %r vs %r (declared in '
                                  'part %d)' % (k, tn, j, tn, b, a, j), decl=cdefx.line(d))
                    if d['k'] == 'struct':
                        try:
                            same = (ffis[k].sizeof(name) == ffis[j].sizeof(name) and
                                    ffis[k].alignof(name) == ffis[j].alignof(name) and
                                    [(f[0], f[1].offset) for f in ffis[k].typeof(name).fields] ==
                                    [(f[0], f[1].offset) for f in ffis[j].typeof(name).fields])
                        except Exception as e:
                            _fail(env, kind, 'layout of %s through ffi %d: %s: %s' % (name, k, type(e).__name__, e))
                        if not same:
                            _fail(env, kind, 'layout of %s differs between ffi %d and ffi %d' % (name, j, k))
                for cname, v in int_constants(d):
                    ctx.note((d, cname, k - j, kind), env['nontrivial'],
                             '%s: %s constant at distance %d' % (kind, d['k'], k - j))
                    check_const(env, kind, ffis[k], k, cname, v)
    if env['glue']:
        check_glue(env, kind, ffis)


def check_const(env, kind, ffi, k, cname, v):
    if kind == 'inline':
        if not 0 < v < 2 ** 40:
            env['ctx'].event('inline: constant not usable as array length (not judged)')
            return
        try:
            got = ffi.sizeof('char[%s]' % cname)
        except Exception as e:
            _fail(env, kind, 'constant %s as array length through ffi %d: %s: %s' % (cname, k, type(e).__name__, e))
    else:
        try:
            got = ffi.integer_const(cname)
        except Exception as e:
            _fail(env, kind, 'ffi%d.integer_const(%r): %s: %s' % (k, cname, type(e).__name__, e))
        # (not judged: out-of-line type strings like 'char[NAME]' resolve NAME only among the module's own
        # globals, see parse_c_type.c; integer_const()/lib.NAME is the documented way to see a constant)
    if got != v:
        _fail(env, kind, 'constant %s seen through ffi %d is %r, declared %d' % (cname, k, got, v))


def _where(env, d):
    i = env['decls'].index(d)
    for j, p in enumerate(env['parts']):
        if i in p:
            return j
    raise HarnessError('declaration not in any part')


def check_glue(env, kind, ffis):
    ctx, glue = env['ctx'], env['glue']
    last = ffis[-1]
    ctx.note((glue['decl'], kind), env['nontrivial'], '%s: glue struct' % kind)
    try:
        ct = last.typeof('struct verif_glue')
        fl = dict(ct.fields)
        total, talign = last.sizeof(ct), last.alignof(ct)
    except Exception as e:
        _fail(env, kind, 'glue struct: %s: %s' % (type(e).__name__, e), glue=cdefx.line(glue['decl']))
    want = {}
    if glue['nested']:
        a = glue['nested']
        want['gn'] = ffis[_where(env, a)].typeof('%s %s' % (a['kw'], a['tag']))
    if glue['enum'] and not (kind != 'inline' and ctx.skip_known(KNOWN_ENUM)):
        want['ge'] = ffis[_where(env, glue['enum'])].typeof('enum ' + glue['enum']['tag'])
    if glue['td'] and not (kind != 'inline' and decl_has_enum_ctype(glue['td'], env['decls'])
                           and ctx.skip_known(KNOWN_ENUM)):
        want['gt'] = ffis[_where(env, glue['td'])].typeof(glue['td']['name'])
    for fn, w in want.items():
        if fl[fn].type is not w:
            _fail(env, kind, 'glue field %s has ctype %r, which is not the defining ffi\'s %r' % (fn, fl[fn].type, w),
                  glue=cdefx.line(glue['decl']))
    if glue['const']:
        nm, v = glue['const']
        if fl['ga'].type.length != v:
            _fail(env, kind, 'glue array length %r, constant %s = %d' % (fl['ga'].type.length, nm, v))
    # natural-alignment layout from what the ffi reports about the member types
    off, maxal = 0, 1
    for fn, ft, _ in glue['decl']['fields']:
        t = fl[fn].type
        if fn == 'gn':
            t = want['gn']
            src = ffis[_where(env, glue['nested'])]
            sz, al = src.sizeof(t), src.alignof(t)
        else:
            sz, al = last.sizeof(t), last.alignof(t)
        off = (off + al - 1) // al * al
        if fl[fn].offset != off:
            _fail(env, kind, 'glue field %s at offset %d, expected %d from the member sizes/alignments'
                  % (fn, fl[fn].offset, off), glue=cdefx.line(glue['decl']))
        off += sz
        maxal = max(maxal, al)
    exp_total = (off + maxal - 1) // maxal * maxal
    if (total, talign) != (exp_total, maxal):
        _fail(env, kind, 'glue struct size/alignment %r, expected %r' % ((total, talign), (exp_total, maxal)),
              glue=cdefx.line(glue['decl']))


def check_libs(env, mods, partial):
    ctx, decls, parts, case = env['ctx'], env['decls'], env['parts'], env['case']
    kind = 'api'
    if partial is not None:
        d = decls[partial]
        name = '%s %s' % (d['kw'], d['tag'])
        home = [j for j, p in enumerate(parts) if partial in p][0]
        base = mods[home].ffi
        hidden = base.sizeof('long')
        first = d['fields'][0][0]
        for k in range(home, len(mods)):
            m = mods[k]
            try:
                off, size = m.ffi.offsetof(name, first), m.ffi.sizeof(name)
            except Exception as e:
                _fail(env, kind, 'partial %s through ffi %d: %s: %s' % (name, k, type(e).__name__, e))
            if off < hidden or (off, size) != (base.offsetof(name, first), base.sizeof(name)):
                _fail(env, kind, 'partial %s through ffi %d: first field at %d, size %d; module %d says %d, %d'
                      % (name, k, off, size, home, base.offsetof(name, first), base.sizeof(name)))
        ctx.note((d, 'partial'), env['nontrivial'], 'api: "...;" struct layout from the included module')
    for j, part in enumerate(parts[:-1]):
        for i in part:
            d = decls[i]
            # half of the names are looked up through the farthest including lib first: a lookup
            # through a nearer lib caches the name there, which can hide a broken chained search
            ks = list(range(j + 1, len(parts)))
            if i % 2:
                ks.reverse()
                ctx.event('api: farthest lib queried first')
            for k in ks:
                lj, lk, fj, fk = mods[j].lib, mods[k].lib, mods[j].ffi, mods[k].ffi
                if d['k'] == 'func':
                    if (any(cdefx.prim_of(a, decls) == 'ptr' and mentions_enum(a, decls) for a in d['args'])
                            and ctx.skip_known(KNOWN_ENUM)):
                        continue     # a pointer made by ffi k to its own copy of the enum is rejected by lib j
                    ctx.note((d, k - j, 'call'), env['nontrivial'], 'api: function reached at distance %d' % (k - j))
                    prims = [cdefx.prim_of(a, decls) for a in d['args']]
                    vals = [cdefx.arg_value(cdefx.mix(case, i, n), p) for n, p in enumerate(prims)]
                    pr = cdefx.prim_of(d['ret'], decls)
                    try:
                        want = getattr(lj, d['name'])(*[cdefx.to_py(fj, v, a, p)
                                                        for v, a, p in zip(vals, d['args'], prims)])
                    except (ValueError, SystemError):
                        if pr == 'wchar_t':
                            ctx.event('wchar_t result is no code point: call left out')
                            continue
                        raise
                    try:
                        got = getattr(lk, d['name'])(*[cdefx.to_py(fk, v, a, p)
                                                       for v, a, p in zip(vals, d['args'], prims)])
                    except Exception as e:
                        _fail(env, kind, 'function %s of module %d through lib %d: %s: %s'
                              % (d['name'], j, k, type(e).__name__, e))
                    if pr != 'void':
                        got, want = cdefx.from_py(fk, got, pr), cdefx.from_py(fj, want, pr)
                    if got != want:
                        _fail(env, kind, '%s%r through lib %d gives %r, through its own lib %r'
                              % (d['name'], tuple(vals), k, got, want))
                elif d['k'] == 'gvar':
                    if d['type'][0] == 'ptr' and mentions_enum(d['type'], decls) and ctx.skip_known(KNOWN_ENUM):
                        continue
                    ctx.note((d, k - j, 'global'), env['nontrivial'], 'api: global reached at distance %d' % (k - j))
                    n = d['name']
                    try:
                        aj = int(fj.cast('uintptr_t', fj.addressof(lj, n)))
                        ak = int(fk.cast('uintptr_t', fk.addressof(lk, n)))
                    except Exception as e:
                        _fail(env, kind, 'global %s of module %d through lib %d: %s: %s'
                              % (n, j, k, type(e).__name__, e))
                    if aj != ak:
                        _fail(env, kind, '&%s through lib %d is %#x, through its own lib %#x' % (n, k, ak, aj))
                    t = d['type']
                    if t[0] == 'arr':
                        pe = cdefx.prim_of(t[2], decls)
                        v = cdefx.pick(cdefx.mix(case, i + 31, k), *INT_RANGE[pe])
                        getattr(lk, n)[0] = v
                        if getattr(lj, n)[0] != v or len(getattr(lk, n)) != len(getattr(lj, n)):
                            _fail(env, kind, 'store to %s[0] through lib %d not seen through its own lib' % (n, k))
                    else:
                        p = cdefx.prim_of(t, decls)
                        v = cdefx.arg_value(cdefx.mix(case, i + 31, k), p)
                        try:
                            setattr(lk, n, cdefx.to_py(fk, v, t, p))
                            back = cdefx.from_py(fj, getattr(lj, n), p)
                        except Exception as e:
                            _fail(env, kind, 'global %s through lib %d: %s: %s' % (n, k, type(e).__name__, e))
                        if back != v:
                            _fail(env, kind, 'lib%d.%s = %r, its own lib reads %r' % (k, n, v, back))
                for cname, v in int_constants(d) + ([(d['name'], d['value'])] if d['k'] == 'const'
                                                    and not d.get('withval', True) else []):
                    ctx.note((d, cname, k - j, 'lib'), env['nontrivial'],
                             'api: constant reached at distance %d' % (k - j))
                    try:
                        got = getattr(lk, cname)
                    except Exception as e:
                        _fail(env, kind, 'constant %s of module %d through lib %d: %s: %s'
                              % (cname, j, k, type(e).__name__, e))
                    if got != v or getattr(lj, cname) != v:
                        _fail(env, kind, 'lib%d.%s = %r, declared %d' % (k, cname, got, v))
