"""C07 -- the Python type-string parser (in-line FFI) and the C parser
(ffi of an out-of-line module with the same declarations) denote the same type.

Case: one declaration context (vlib/typegen.py) plus a list of type strings.
Each string was rendered from a type *tree* with random spelling choices
(specifier order, qualifier positions, names, literal bases, redundant
parentheses, whitespace); some trees are deliberately invalid types, some
strings are near-miss mutants (then there is no tree).

Oracle per string: both FFIs reject, or both accept and denote the same type
(identical ctype object when no struct/union/enum is involved, same structure
with aggregates of equal kind and name otherwise).  For un-mutated strings of
valid trees, an accepted type must also equal the tree (ground truth).
"""
import io, contextlib
from hypothesis import strategies as st
from vlib.core import HarnessError, jdump, h64
from vlib import typegen as tg

ID = 'C07'
LEVEL = 'exploration'
TECHNIQUE = 'differential (Python parser vs C parser) + generator ground-truth tree, Hypothesis'
RULE = ('Hypothesis-generated declaration contexts (tagged/untagged/opaque structs, unions, enums, '
        'typedefs incl. array/function typedefs, #define/static const/enum constants) x type strings '
        'printed from G-TYPE trees with random spellings (6/10 valid trees, 2/10 invalid types, 2/10 '
        'near-miss token mutants).  An evaluation is one string given to both FFIs.  Non-trivial = '
        '>=3 declarator operators, or a specifier run of >=2 keywords that is not in canonical order, '
        'or a nested parenthesis; distinct by the normalised token string.')
LEVEL_TEXT = ('random search over the shared declarator grammar: no divergence between the two parsers, '
              'and no deviation from the generating tree, outside the listed known divergence classes')
LEVEL_NOTE = ('trusted: vlib/typegen.py printer/descriptor (ground truth), ctype attribute getters '
              '(kind, item, length, args, result), the backend unique-type cache for telling ellipsis; '
              'the compiled side is the ffi of an out-of-line ABI module (same parse_c_type.c as API mode)')
ASSUMPTIONS = ['x86-64 Linux: __stdcall/__cdecl are accepted and ignored by both parsers',
               'rejection = any exception (the exception type is C30\'s subject), except '
               'SystemError/MemoryError/RecursionError which are reported',
               'strings naming an undeclared struct/union/enum tag are outside the grammar (the in-line '
               'FFI declares them on the fly) and are left out']
BUDGET = {'quick': 3200, 'thorough': 128000}
TIME = {'quick': 10, 'thorough': 800}
ITEMS = {'quick': 40, 'thorough': 40}
MIN_PER_SHARD = 10


# --------------------------------------------------------------------------

CTX_BYTES, ITEM_BYTES = 192, 160


def make_case(raw):
    """(context entropy, [item entropy, ...]) -> case.  Pure function of the
    drawn bytes; see typegen.BytesR."""
    cbytes, ibytes = raw
    context = tg.gen_context(tg.BytesR(cbytes))
    info = tg.Info(context)
    items = []
    for data in ibytes:
        R = tg.BytesR(data)
        mode = R.below(10)
        depth = R.choice([1, 1, 2, 2, 3, 3, 4])
        if mode < 6:
            tree = tg.gen_tree(R, info, depth, want='object', exotic=(mode == 5))
        elif mode < 8:
            tree = tg.gen_tree(R, info, depth, want='any', valid=False, exotic=(mode == 7))
        else:
            tree = tg.gen_tree(R, info, depth, want='object')
        toks = tg.render_tokens(tree, R, info)
        if mode >= 8:
            toks = tg.mutate_tokens(toks, R, info)
            tree = None
        items.append({'s': tg.join_tokens(toks, R), 'tree': tree})
    return {'ctx': context, 'items': items}


def strategy(ctx):
    n = ITEMS[ctx.tier]
    return st.tuples(st.binary(min_size=CTX_BYTES, max_size=CTX_BYTES),
                     st.lists(st.binary(min_size=ITEM_BYTES, max_size=ITEM_BYTES),
                              min_size=n // 2, max_size=n, unique=True)).map(make_case)


_cache = {}


def build(context):
    """(in-line FFI, ffi of the generated out-of-line module) for a context."""
    import cffi
    key = jdump(context)
    if key in _cache:
        return _cache[key]
    cdef = tg.cdef_of(context)
    try:
        inline = cffi.FFI()
        inline.cdef(cdef)
        src = cffi.FFI()
        src.cdef(cdef)
        src.set_source('_c07_%x' % (h64(key) & 0xffffffff), None)
        buf = io.StringIO()
        with contextlib.redirect_stdout(io.StringIO()):
            src.emit_python_code(buf)
        glob = {}
        exec(compile(buf.getvalue(), '<c07 out-of-line module>', 'exec'), glob)
    except Exception as e:
        raise HarnessError('context does not build (%s: %s):\n%s' % (type(e).__name__, e, cdef))
    _cache.clear()
    _cache[key] = (inline, glob['ffi'], cdef)
    return _cache[key]


_FATAL = (SystemError, MemoryError, RecursionError)


def _typeof(ffi, s):
    try:
        return ffi.typeof(s), None
    except _FATAL:
        raise
    except Exception as e:
        return None, e


_CANON = {'unsigned': 0, 'signed': 0, 'short': 1, 'long': 1, 'int': 2, 'char': 2, 'float': 2,
          'double': 2, 'void': 2, '_Bool': 2, '_Complex': 3}


def nontrivial(tokens):
    ops = sum(1 for t in tokens if t in ('*', '[', '('))
    if ops >= 3:
        return True
    for i in range(len(tokens) - 1):
        if tokens[i] == '(' and tokens[i + 1] in ('*', '(', '['):
            return True
    run = []
    for t in tokens + ['']:
        if t in _CANON or t in tg.QUALS:
            run.append(t)
        else:
            words = [w for w in run if w in _CANON]
            if len(words) >= 2 and ([_CANON[w] for w in words] != sorted(_CANON[w] for w in words)
                                    or run[1:-1] != [w for w in run[1:-1] if w in _CANON]):
                return True
            run = []
    return False


def prop(case, ctx):
    context = case['ctx']
    info = tg.Info(context)
    inline, compiled, cdef = build(context)
    for item in case['items']:
        s, tree = item['s'], item['tree']
        tokens = tg.tokenize(s)
        if tg.undeclared_tag_use(tokens, info):
            ctx.event('left-out:undeclared-tag')
            continue
        tags = tg.pattern_tags(tokens, info)
        if any(ctx.skip_known(t) for t in tags):
            ctx.event('left-out:known-divergence')
            continue
        a, ea = _typeof(inline, s)
        b, eb = _typeof(compiled, s)
        expected = None
        if tree is not None:
            try:
                expected = tg.describe_tree(tree, info)
            except tg.Invalid:
                expected = 'invalid'
        kind = 'mutant' if tree is None else 'invalid-tree' if expected == 'invalid' else 'valid-tree'
        cls = [kind]
        detail = dict(string=s, cdef=cdef, tree=tree, patterns=tags)
        if ea is not None and eb is not None:
            cls.append(kind + ':both-reject')
        elif ea is None and eb is None:
            cls.append(kind + ':both-accept')
            da, db = tg.describe_ctype(a), tg.describe_ctype(b)
            if da != db:
                ctx.fail('both parsers accept %r but denote different types: in-line %r, compiled %r'
                         % (s, a.cname, b.cname), inline=da, compiled=db, **detail)
            if tg.has_aggregate(da):
                cls.append('with-aggregate')
            elif a is not b:
                ctx.fail('both parsers accept %r as %r but the ctype objects are not identical'
                         % (s, a.cname), **detail)
            if expected not in (None, 'invalid') and da != expected:
                ctx.fail('both parsers read %r as %r, the generating tree denotes %r'
                         % (s, a.cname, tg.name_of_desc(expected)), got=da, expected=expected, **detail)
            for t in tokens:
                if t in ('*', '[', '...', '__stdcall', '__cdecl') or t in tg.QUALS:
                    cls.append('has:' + t)
            if any(t in info.consts for t in tokens):
                cls.append('has:named-length')
            if any(t.startswith(('0x', '0X')) for t in tokens):
                cls.append('has:hex-length')
            if da[0] == 'func' or "'func'" in repr(da):
                cls.append('has:function-pointer')
        else:
            who, e = ('in-line', eb) if ea is None else ('compiled', ea)
            got = a if ea is None else b
            ctx.fail('%s FFI accepts %r as %r, the other rejects it (%s: %s)'
                     % (who, s, got.cname, type(e).__name__, str(e).split('\n')[0][:120]), **detail)
        nt = nontrivial(tokens)
        cls.append('nontrivial' if nt else 'trivial')
        ctx.note(' '.join(tokens), nt, cls)
