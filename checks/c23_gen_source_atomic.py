"""C23 -- the generated source is deterministic, regenerating identical content
leaves the file untouched, and a regeneration that crashes at any I/O step
leaves the complete old or the complete new file behind.

Two kinds of cases:

'w' (write path, in-process).  {'spec', 'cuts', 'modname', 'target': 'c'|'py'}
  1. determinism in the process: emit twice on one FFI, once on a fresh FFI
     built from the same inputs -> identical text; for 'py' also compile().
  2. for every previous state of the target file in
     {absent, identical, different (same length), longer (new text + tail),
      shorter (prefix), empty}:
       regeneration through emit_c_code()/emit_python_code() ends with exactly
       the new text; identical => st_mtime_ns and st_ino unchanged and
       recompile(..., call_c_compiler=False) reports updated=False, anything
       else => updated=True;
  3. fault enumeration: the I/O primitives the write path uses (open, read,
     write, close, os.rename / os.replace / os.unlink, seen through the names
     `open` and `os` of cffi.recompiler) are counted in a first run; then, for
     every step k (and, for write steps, additionally after half of the data has
     been written), the file is put back into the previous state, the run is
     repeated and aborted at step k by a BaseException that nothing catches, and
     the target path must hold exactly the old or exactly the new content
     (it may be absent only if it was absent before).

'x' (determinism across processes and hash seeds).  {'specs', 'modname', 'hashseeds'}
  the emit_c_code / emit_python_code / compile() texts of every spec are hashed
  in this process (PYTHONHASHSEED=0) and in one fresh subprocess per drawn
  PYTHONHASHSEED; all digests must agree.
"""
import os, sys, io, json, hashlib, subprocess, contextlib, warnings, builtins
from hypothesis import strategies as st
from vlib.core import Violation, HarnessError, h64
from vlib import cdefgen, env

ID = 'C23'
LEVEL = 'fault_enumeration'
RULE = ('Hypothesis-generated G-CDEF cdefs (0-2 include() levels) x module names x target in {emit_c_code, '
        'emit_python_code(+compile())}.  Write-path cases: previous target state in {absent, identical, different, '
        'longer, shorter, empty} (all six) x every I/O step of _make_c_or_py_source as a crash point (all of them, '
        'plus a half-done write), checked against "old or new content"; identical content => mtime/inode kept and '
        'updated=False.  Cross-process cases: batches of cdefs emitted under 3 drawn PYTHONHASHSEED values in fresh '
        'subprocesses and in-process, digests compared.  An evaluation is one (cdef, target, previous state, crash '
        'point) or one (cdef, leg, hash seed); non-trivial = cdef with >= 3 declaration kinds and (write path) a '
        'pre-existing different target; distinct by (cdef text, target, previous state, step) / (cdef text, seed).')
TECHNIQUE = ('fault injection at every I/O primitive of the write path (per-case exhaustive) + differential '
             'across processes / PYTHONHASHSEED values')
LEVEL_TEXT = ('for every generated case all crash points of the write path are enumerated (exhaustive per case, '
              'cases are sampled); determinism is sampled over cdefs and hash seeds')
LEVEL_NOTE = ('a crash is modelled as a BaseException raised at (or half-way through) an I/O call made through the '
              'names `open` and `os` of cffi.recompiler; data already written is considered on disk.  OS-level '
              'atomicity of rename(2) is assumed.')
ASSUMPTIONS = ['the write path performs its I/O through builtins.open and os.rename/os.replace/os.unlink looked up '
               'in the cffi.recompiler module (a run in which an injected crash point is never reached is a harness error)',
               'rename(2)/replace is atomic; written data counts as on disk at the crash',
               'the parent process runs with PYTHONHASHSEED=0; children with the drawn seeds']
BUDGET = {'quick': 128, 'thorough': 6000}
MIN_PER_SHARD = 4
TIME = {'quick': 15, 'thorough': 800}

FEATURES = cdefgen.DEFAULT_FEATURES | frozenset(['anon', 'anon_td', 'file', 'gvar_any', 'variadic'])
MODNAMES = ['m', '_cffi_x1', 'pkg.mod', 'a.b.c', 'Mod_9']
PREV_STATES = ['absent', 'identical', 'different', 'longer', 'shorter', 'empty']
OLD_MTIME_NS = 1000000000 * 10**9 + 123456789          # 2001-09-09, with a sub-second part


PRELUDES = ['', '', '/* ascii only */\n', '/* \xa9 2026 Jos\xe9 */\n',
            'static const char *c23_s = "na\xefve \u4e2d\U0001f600";\n', '/* \u20ac\u20ac\u20ac */\n']


def strategy(ctx):
    wcase = st.fixed_dictionaries({
        'mode': st.just('w'),
        'spec': cdefgen.specs(FEATURES, 1, 10),
        'cuts': st.one_of(st.just([]), st.just([]), st.lists(st.integers(0, 10), min_size=1, max_size=2).map(sorted)),
        'modname': st.sampled_from(MODNAMES),
        'target': st.sampled_from(['c', 'py']),
        # text in front of the C source (not ASCII in half of the cases: characters and bytes differ)
        'prelude': st.sampled_from(PRELUDES),
    })
    xcase = st.fixed_dictionaries({
        'mode': st.just('x'),
        'specs': st.lists(cdefgen.specs(FEATURES, 1, 10), min_size=4, max_size=10),
        'modname': st.sampled_from(MODNAMES),
        'hashseeds': st.lists(st.integers(1, 4294967295), min_size=3, max_size=3, unique=True),
    })
    # a cross-process case costs 3 process creations: one case in eight
    return st.integers(0, 7).flatmap(lambda i: xcase if i == 0 else wcase)


# ---------------------------------------------------------------- building FFIs

def make_ffi(spec, cuts, modname, target, prelude=''):
    """FFI for the top level of the include chain, set_source() done"""
    import cffi
    levels = cdefgen.split_chain(spec, cuts)
    levels = [lv for lv in levels[:-1] if lv['decls']] + [levels[-1]]
    csrc = (prelude + cdefgen.c_source(spec)) if target == 'c' else None
    prev = None
    for i, lv in enumerate(levels):
        f = cffi.FFI()
        if prev is not None:
            f.include(prev)
        f.cdef(cdefgen.cdef_text(lv))
        top = i == len(levels) - 1
        f.set_source(modname if top else 'c23_base%d' % i, csrc)
        prev = f
    return prev


def make_ffi_history(spec, cuts, modname, target, prelude, emit_in_between):
    """the top-level FFI built in another order -- cdef(), [an emission], include() of the base chain and a
    typeof() of a struct that no cdef declared, -- so that declarations arrive after a first emission"""
    import cffi
    levels = cdefgen.split_chain(spec, cuts)
    levels = [lv for lv in levels[:-1] if lv['decls']] + [levels[-1]]
    csrc = (prelude + cdefgen.c_source(spec)) if target == 'c' else None
    prev = None
    for i, lv in enumerate(levels[:-1]):
        f = cffi.FFI()
        if prev is not None:
            f.include(prev)
        f.cdef(cdefgen.cdef_text(lv))
        f.set_source('c23_base%d' % i, csrc)
        prev = f
    top = cffi.FFI()
    top.cdef(cdefgen.cdef_text(levels[-1]))
    top.set_source(modname, csrc)
    if emit_in_between:
        emit_text(top, target)
    if prev is not None:
        top.include(prev)
    top.typeof('struct c23_never_declared *')
    return top


def emit_text(ffi, target):
    f = io.StringIO()
    with contextlib.redirect_stdout(io.StringIO()):
        (ffi.emit_c_code if target == 'c' else ffi.emit_python_code)(f)
    return f.getvalue()


def emit_file(ffi, target, path):
    with contextlib.redirect_stdout(io.StringIO()):
        (ffi.emit_c_code if target == 'c' else ffi.emit_python_code)(path)


def regenerate(ffi, path):
    """what FFI.emit_c_code()/emit_python_code() do, keeping the 'updated' flag they drop"""
    from cffi import recompiler
    module_name, source, source_extension, kwds = ffi._assigned_source
    with contextlib.redirect_stdout(io.StringIO()):
        r = recompiler.recompile(ffi, module_name, source, c_file=path, call_c_compiler=False,
                                 uses_ffiplatform=False, **kwds)
    return r[1]


def compile_text(ffi, modname, tmpdir):
    """ffi.compile() of an ABI-mode ffi: writes <tmpdir>/<mod path>.py"""
    with contextlib.redirect_stdout(io.StringIO()):
        p = ffi.compile(tmpdir=tmpdir, verbose=0)
    expect = os.path.join(tmpdir, *modname.split('.')) + '.py'
    if os.path.abspath(p) != os.path.abspath(expect):
        raise HarnessError('compile() returned %r, expected %r' % (p, expect))
    with open(p) as f:
        return f.read()


# ---------------------------------------------------------------- fault injection

class Crash(BaseException):
    pass


class _Injector(object):
    """counts the I/O steps of one run; raises Crash at step `crash_at` (before the
    operation, or -- partial=True, write steps only -- after half of the data)"""

    def __init__(self, crash_at=None, partial=False, watch=None):
        # `watch`: the target path; its content as visible in the file system at the very moment
        # of the crash is what a process death leaves behind (data still sitting in a Python-level
        # write buffer is lost), so it is recorded before the exception starts unwinding
        self.watch = watch
        self.at_crash = None
        self.n = 0
        self.log = []
        self.crash_at = crash_at
        self.partial = partial
        self.fired = False

    def step(self, what):
        k = self.n
        self.n += 1
        self.log.append(what)
        if k == self.crash_at and not (self.partial and what.startswith('write')):
            self.fired = True
            if self.watch is not None:
                self.at_crash = ('seen', _get(self.watch))
            raise Crash('%d:%s' % (k, what))
        return k

    def open(self, path, mode='r', *args, **kw):
        self.step('open(%s)' % mode)
        return _File(builtins.open(path, mode, *args, **kw), self)


class _File(object):
    def __init__(self, f, inj):
        self._f, self._inj = f, inj

    def read(self, *a):
        self._inj.step('read')
        return self._f.read(*a)

    def write(self, s):
        k = self._inj.step('write(%d chars)' % len(s))
        if k == self._inj.crash_at and self._inj.partial:
            self._f.write(s[:len(s) // 2])
            self._f.flush()
            self._inj.fired = True
            if self._inj.watch is not None:
                self._inj.at_crash = ('seen', _get(self._inj.watch))
            raise Crash('%d:half-done write' % k)
        return self._f.write(s)

    def __enter__(self):
        return self

    def __exit__(self, et, ev, tb):
        if et is not None and issubclass(et, Crash):
            self._f.close()                 # what was written stays; the crash goes on
            return False
        try:
            self._inj.step('close')
        finally:
            self._f.close()
        return False

    def close(self):
        try:
            self._inj.step('close')
        finally:
            self._f.close()

    def __getattr__(self, name):
        return getattr(self._f, name)


class _OS(object):
    def __init__(self, inj):
        self._inj = inj

    def __getattr__(self, name):
        return getattr(os, name)

    def rename(self, a, b):
        self._inj.step('rename')
        return os.rename(a, b)

    def replace(self, a, b):
        self._inj.step('replace')
        return os.replace(a, b)

    def unlink(self, p):
        self._inj.step('unlink')
        return os.unlink(p)

    remove = unlink


@contextlib.contextmanager
def injected(inj):
    from cffi import recompiler
    had_open = 'open' in recompiler.__dict__
    old_open = recompiler.__dict__.get('open')
    old_os = recompiler.os
    recompiler.open = inj.open
    recompiler.os = _OS(inj)
    try:
        yield
    finally:
        recompiler.os = old_os
        if had_open:
            recompiler.open = old_open
        else:
            del recompiler.open


# ---------------------------------------------------------------- the property

def _old_content(state, new):
    if state == 'absent':
        return None
    if state == 'identical':
        return new
    if state == 'different':
        i = len(new) // 2
        return new[:i] + ('#' if new[i] != '#' else '@') + new[i + 1:]
    if state == 'longer':
        return new + '/* tail of a longer previous file */\n'
    if state == 'shorter':
        return new[:len(new) * 2 // 3]
    if state == 'empty':
        return ''
    raise ValueError(state)


def _put(path, content):
    d = os.path.dirname(path)
    for n in os.listdir(d):                      # leftovers of aborted runs (target.~pid)
        os.unlink(os.path.join(d, n))
    if content is not None:
        with open(path, 'w') as f:
            f.write(content)
        os.utime(path, ns=(OLD_MTIME_NS, OLD_MTIME_NS))


def _get(path):
    try:
        with open(path) as f:
            return f.read()
    except FileNotFoundError:
        return None


def prop(case, ctx):
    with warnings.catch_warnings():
        warnings.simplefilter('ignore')
        if case['mode'] == 'w':
            _write_path(case, ctx)
        else:
            _cross_process(case, ctx)


def _write_path(case, ctx):
    spec, cuts, modname, target = case['spec'], case['cuts'], case['modname'], case['target']
    cdef = cdefgen.cdef_text(spec)
    prelude = case.get('prelude', '')
    detail = {'cdef': cdef, 'modname': modname, 'target': target, 'cuts': cuts, 'prelude': prelude}
    kinds = cdefgen.kinds(spec)
    ffi = make_ffi(spec, cuts, modname, target, prelude)
    if target == 'c' and not prelude.isascii():
        ctx.event('c-source-not-ascii')

    # 1. determinism inside the process
    new = emit_text(ffi, target)
    if emit_text(ffi, target) != new:
        ctx.fail('two emits from the same FFI differ', **detail)
    if emit_text(make_ffi(spec, cuts, modname, target, prelude), target) != new:
        ctx.fail('emits from two FFIs built from the same inputs differ', **detail)
    ctx.note([cdef, cuts, modname, target, prelude, 'repeat'], len(kinds) >= 3, 'determinism:in-process')
    # 1b. the text is a function of the declarations, not of what was emitted earlier from the same object
    try:
        ref = emit_text(make_ffi_history(spec, cuts, modname, target, prelude, False), target)
    except Exception:
        ref = None              # (this order of cdef()/include() is not accepted for the case: nothing to compare)
    if ref is not None:
        got = emit_text(make_ffi_history(spec, cuts, modname, target, prelude, True), target)
        if got != ref:
            ctx.fail('an emission made before include()/typeof() added declarations changes the next emission '
                     '(%d vs %d characters)' % (len(got), len(ref)), **detail)
        ctx.note([cdef, cuts, modname, target, 'history'], len(kinds) >= 3,
                 'determinism:after-an-earlier-emission' + ('+include' if len(cuts) else ''))

    d = os.path.join(ctx.tmp, 'c23-%d' % os.getpid())
    os.makedirs(d, exist_ok=True)
    path = os.path.join(d, 'out.c' if target == 'c' else 'out.py')
    if target == 'py':
        cd = os.path.join(ctx.tmp, 'c23c-%d' % os.getpid())
        os.makedirs(cd, exist_ok=True)
        t1 = compile_text(ffi, modname, cd)
        if t1 != new:
            ctx.fail('compile() wrote a text different from emit_python_code()', **detail)
        p = os.path.join(cd, *modname.split('.')) + '.py'
        os.utime(p, ns=(OLD_MTIME_NS, OLD_MTIME_NS))
        ino = os.stat(p).st_ino
        compile_text(ffi, modname, cd)
        s = os.stat(p)
        if s.st_mtime_ns != OLD_MTIME_NS or s.st_ino != ino:
            ctx.fail('second compile() with identical content touched the file', **detail)
        ctx.note([cdef, cuts, modname, 'compile'], len(kinds) >= 3, 'compile()-abi')

    total_points = 0
    for state in PREV_STATES:
        old = _old_content(state, new)
        detail['previous'] = state
        # 2. complete regeneration
        _put(path, old)
        ino = os.stat(path).st_ino if old is not None else None
        updated = regenerate(ffi, path)
        if _get(path) != new:
            ctx.fail('after regeneration the file does not hold the new text', **detail)
        s = os.stat(path)
        if state == 'identical':
            if updated is not False:
                ctx.fail('identical content reported as updated=%r' % (updated,), **detail)
            if s.st_mtime_ns != OLD_MTIME_NS or s.st_ino != ino:
                ctx.fail('identical content: file touched (mtime_ns %d -> %d, inode %s -> %s)'
                         % (OLD_MTIME_NS, s.st_mtime_ns, ino, s.st_ino), **detail)
        elif updated is not True:
            ctx.fail('different previous content (%s) reported as updated=%r' % (state, updated), **detail)
        # the public entry point behaves the same
        _put(path, old)
        ino = os.stat(path).st_ino if old is not None else None
        emit_file(ffi, target, path)
        s = os.stat(path)
        if _get(path) != new or (state == 'identical' and (s.st_mtime_ns != OLD_MTIME_NS or s.st_ino != ino)):
            ctx.fail('emit_%s_code(path): wrong content or identical file touched'
                     % ('c' if target == 'c' else 'python'), **detail)

        # 3. every crash point
        _put(path, old)
        count = _Injector()
        with injected(count):
            emit_file(ffi, target, path)
        if _get(path) != new:
            raise HarnessError('instrumented run produced a different result')
        points = [(k, False) for k in range(count.n)]
        points += [(k, True) for k, w in enumerate(count.log) if w.startswith('write')]
        for k, partial in points:
            _put(path, old)
            inj = _Injector(k, partial, watch=path)
            try:
                with injected(inj):
                    emit_file(ffi, target, path)
            except Crash:
                pass
            else:
                if not inj.fired:
                    raise HarnessError('crash point %d (%s) not reached; steps seen: %r' % (k, count.log[k], inj.log))
                ctx.fail('the injected crash at step %d (%s) was swallowed by the write path'
                         % (k, count.log[k]), **detail)
            # two observations: the file system at the moment of the crash (process death), and
            # the state after the exception has unwound (an abort that still runs clean-up code)
            for moment, got in (('at the moment of the crash', inj.at_crash[1] if inj.at_crash else _get(path)),
                                ('after unwinding', _get(path))):
                if got != old and got != new:
                    what = 'absent' if got is None else ('empty' if got == '' else
                           'a %d-char prefix of the new text' % len(got) if new.startswith(got) else
                           '%d chars, neither old nor new' % len(got))
                    ctx.fail('crash at step %d/%d (%s%s) with previous state %r leaves the target %s (%s)'
                             % (k, count.n, count.log[k], ', half written' if partial else '', state, what, moment),
                             steps=count.log, **detail)
            ctx.note([cdef, cuts, modname, target, state, k, partial],
                     len(kinds) >= 3 and state in ('different', 'longer', 'shorter', 'empty'),
                     ['prev=' + state, 'crash@' + count.log[k].split('(')[0] + ('/half' if partial else ''),
                      'target=' + target])
        total_points += len(points)
    ctx.extra['crash_points_enumerated'] = ctx.extra.get('crash_points_enumerated', 0) + total_points
    ctx.extra['exhaustively_enumerated_part'] = 'per case: all I/O steps of the write path x 6 previous states'
    _put(path, None)


# ---------------------------------------------------------------- across processes

# The code that computes the digests is a string so that the child process can run it
# without importing this module (hypothesis, vlib): process start-up is the cost here.
DIGEST_SRC = r'''
import sys, os, io, json, hashlib, contextlib, warnings, tempfile, shutil
def digests(jobs, modname):
    """jobs: [[cdef text, C source], ...] -> [[sha256 of emit_c_code text, of emit_python_code
    text, of the text written by compile()], ...]"""
    import cffi
    warnings.simplefilter('ignore')
    def h(t):
        return hashlib.sha256(t.encode('utf-8')).hexdigest()
    out = []
    tmp = tempfile.mkdtemp(prefix='verif-C23-digest-')
    try:
        for i, (cdef, csrc) in enumerate(jobs):
            row = []
            for src in (csrc, None):
                ffi = cffi.FFI()
                ffi.cdef(cdef)
                ffi.set_source(modname, src)
                f = io.StringIO()
                with contextlib.redirect_stdout(io.StringIO()):
                    (ffi.emit_python_code if src is None else ffi.emit_c_code)(f)
                row.append(h(f.getvalue()))
            d = os.path.join(tmp, str(i))
            os.makedirs(d)
            ffi = cffi.FFI()
            ffi.cdef(cdef)
            ffi.set_source(modname, None)
            with contextlib.redirect_stdout(io.StringIO()):
                p = ffi.compile(tmpdir=d, verbose=0)
            with open(p) as fp:
                row.append(h(fp.read()))
            out.append(row)
    finally:
        shutil.rmtree(tmp, ignore_errors=True)
    return out
'''
CHILD = DIGEST_SRC + r'''
job = json.load(sys.stdin)
print(json.dumps(digests(job['jobs'], job['modname'])))
'''
_ns = {}
exec(DIGEST_SRC, _ns)
digests = _ns['digests']


def _cross_process(case, ctx):
    specs, modname = case['specs'], case['modname']
    jobs = [[cdefgen.cdef_text(sp), cdefgen.c_source(sp)] for sp in specs]
    here = digests(jobs, modname)
    if os.environ.get('PYTHONHASHSEED') != '0':
        raise HarnessError('the check process must run with PYTHONHASHSEED=0')
    for seed in case['hashseeds']:
        cenv = dict(os.environ)
        cenv['PYTHONHASHSEED'] = str(seed)
        r = subprocess.run([sys.executable, '-c', CHILD],
                           input=json.dumps({'jobs': jobs, 'modname': modname}),
                           capture_output=True, text=True, env=cenv, cwd=env.VERIF)
        if r.returncode != 0:
            raise HarnessError('child failed rc=%s: %s' % (r.returncode, r.stderr[-2000:]))
        there = json.loads(r.stdout.strip().splitlines()[-1])
        for i, (a, b) in enumerate(zip(here, there)):
            for leg, x, y in zip(('emit_c_code', 'emit_python_code', 'compile()'), a, b):
                if x != y:
                    ctx.fail('%s text differs between this process (PYTHONHASHSEED=0) and a fresh process '
                             'with PYTHONHASHSEED=%d' % (leg, seed), cdef=cdefgen.cdef_text(specs[i]),
                             modname=modname)
            ctx.note([cdefgen.cdef_text(specs[i]), modname, seed], len(cdefgen.kinds(specs[i])) >= 3,
                     'determinism:cross-process', n=3)
