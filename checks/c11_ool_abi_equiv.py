"""C11 -- the out-of-line ABI module (set_source(name, None) + emit_python_code)
is equivalent to the in-line FFI built from the same cdef.

Case: a batch of items {'spec': G-CDEF spec, 'cuts': [...]}.  Every spec is
renamed apart (cdefgen.rename), the C sources of the whole batch are linked
into ONE shared object, and for each item:

 * the decls are cut into an ffi.include() chain (0-2 included levels);
 * in-line:     FFI() per level, include() + cdef(), dlopen(so) on the top one;
 * out-of-line: for each level set_source(modname, None), emit_python_code(),
   exec of the generated text (modules registered in sys.modules so that the
   generated 'from <base> import ffi' works), dlopen(so) on the top ffi.

Oracle (differential, in-line vs out-of-line, for every name the cdef declares):
 * typeof(name) for typedefs / struct / union / enum tags / function-pointer
   typedefs: recursively the same kind, C name, length, argument/result types,
   ellipsis; aggregates: same name, size, alignment and field list
   (name, offset, bitshift, bitsize, flags, type); enums: same elements; and any
   type without a struct/union/enum component must be the *same ctype object*;
 * getattr(lib, name) of every #define, static const and enumerator (all include
   levels): same value on both, equal to the declared one and to the out-of-line
   ffi.integer_const(name) (the in-line FFI has no integer_const());
 * list_types() equal;
 * dir(lib) (minus integer constants): same names; every function: same type,
   same address; every global variable: same type, same address, same value read.
"""
import os, re, sys, io, types, warnings, contextlib
from hypothesis import strategies as st
from vlib.core import Violation, HarnessError
from vlib import cdefgen, cc
from vlib.typecmp import TypeCmp, named_types, int_constants

ID = 'C11'
LEVEL = 'exploration'
RULE = ('Hypothesis-generated G-CDEF specs (typedef chains, structs/unions with bitfields, arrays, '
        'function pointers, anonymous nested members, typedef struct {...} T, opaque structs, enums, '
        '#define / static const integers, fixed and variadic functions, globals of primitive / array / '
        'pointer / typedef / aggregate / enum type, FILE, array lengths up to 2**31-1, 0-2 levels of '
        'ffi.include()); one shared object '
        'per batch of renamed-apart specs.  An evaluation is one compared cdef; non-trivial = the cdef '
        'has >= 4 declarations of >= 3 kinds; distinct by cdef text and include cuts.')
TECHNIQUE = 'differential: in-line FFI vs executed emit_python_code() module, same .so dlopen()ed by both'
LEVEL_TEXT = ('random search over a structured declaration generator; every declared name of every '
              'generated cdef is compared between the two FFIs (types recursively, constants, '
              'list_types, lib functions/variables with addresses)')
LEVEL_NOTE = ('no independent model: the in-line FFI is the reference.  The generator covers the '
              'ABI-compatible cdef subset listed in RULE (no "..." partial forms, no packed structs, '
              'no float constants).')
ASSUMPTIONS = ['the in-line FFI is the reference for "what the cdef means"',
               'gcc -O0 shared object built from the generator\'s matching C source defines every symbol',
               'both FFIs dlopen() the same path, hence the same handle and symbol addresses']
BUDGET = {'quick': 32, 'thorough': 2400}
BATCH = {'quick': 24, 'thorough': 24}
MIN_PER_SHARD = 2
TIME = {'quick': 15, 'thorough': 800}

FEATURES = cdefgen.DEFAULT_FEATURES | frozenset(['anon', 'anon_td', 'file', 'gvar_any', 'variadic', 'cycle'])

BIG_LENGTHS = [255, 256, 65535, 65536, 2**24 - 1, 2**24, 2**24 + 1, 0x01020304, 0x7F000000, 2**31 - 1]

TAG_NAME = 'tagged-aggregate-typedef-name'
TAG_FILE = 'file-list-types'
TAG_ENUMVAR = 'inline-enum-typed-global'
TAG_ANONINC = 'include-anonymous-struct-numbering'


PACKS = [{}, {'packed': True}, {'pack': 1}, {'pack': 2}, {'pack': 4}]


def strategy(ctx):
    item = st.fixed_dictionaries({
        'spec': cdefgen.specs(FEATURES, 1, 12).map(cdefgen.gcc_safe),
        'cuts': st.one_of(st.just([]), st.just([]),
                          st.lists(st.integers(0, 12), min_size=1, max_size=2).map(sorted)),
        # extra 'typedef char tbigN[LENGTH];' with lengths that need 3 and 4 bytes in the
        # 4-byte opcode encoding (indices into BIG_LENGTHS)
        'big': st.one_of(st.just([]), st.just([]), st.just([]),
                         st.lists(st.integers(0, len(BIG_LENGTHS) - 1), min_size=1, max_size=2)),
        # cdef(..., packed=True / pack=N), applied when the spec has no bitfield (index into PACKS)
        'pack': st.sampled_from([0, 0, 0, 0, 1, 2, 3, 4]),
    })
    # one gcc run per Hypothesis case (process creation is the scarce resource): make most
    # batches large; the small-batch alternative comes first so that failures shrink into it
    n = BATCH[ctx.tier]
    return st.one_of(st.lists(item, min_size=1, max_size=n),
                     st.lists(item, min_size=n * 2 // 3, max_size=n),
                     st.lists(item, min_size=n * 2 // 3, max_size=n))


# ---------------------------------------------------------------- spec helpers

def _walk_types(t, f):
    f(t)
    k = t[0]
    if k == 'ptr':
        _walk_types(t[1], f)
    elif k == 'arr':
        _walk_types(t[2], f)
    elif k == 'fptr':
        _walk_types(t[1], f)
        for a in t[2]:
            _walk_types(a, f)
    elif k == 'anon':
        for _, ft, _b in t[2]:
            _walk_types(ft, f)


def _decl_types(d):
    k = d['k']
    if k in ('typedef', 'gvar'):
        return [d['type']]
    if k == 'struct':
        return [ft for _, ft, _b in d['fields']]
    if k in ('func', 'fptd'):
        return [d['ret']] + list(d['args'])
    return []


def _facts(spec, whole=None):
    """predicates over the case used for classes and known-finding matchers"""
    decls = spec['decls']
    uses_file, has_anon, has_bf = [False], [False], False

    def f(t):
        if t == ['prim', 'FILE']:
            uses_file[0] = True
        if t[0] == 'anon':
            has_anon[0] = True
    forced = {}          # (kw, tag) -> first directly typedef'ed name
    for d in decls:
        for t in _decl_types(d):
            _walk_types(t, f)
        if d['k'] == 'struct':
            if any(b for _, _t, b in d['fields']):
                has_bf = True
            if d['tag'] and d['tdname']:
                forced.setdefault((d['kw'], d['tag']), d['tdname'])
        if d['k'] == 'enum' and d['tag'] and d.get('tdname'):
            forced.setdefault(('enum', d['tag']), d['tdname'])
        if d['k'] == 'typedef' and d['type'][0] == 'agg':
            forced.setdefault((d['type'][1], d['type'][2]), d['name'])
    enum_globals = []
    for d in decls:
        if d['k'] == 'gvar':
            r = cdefgen.resolve(d['type'], whole or spec) if d['type'][0] == 'td' else d['type']
            if r[0] == 'enum':
                enum_globals.append(d['name'])
    return {'file': uses_file[0], 'anon': has_anon[0], 'bitfield': has_bf,
            'forced': forced, 'enum_globals': enum_globals}


# ---------------------------------------------------------------- comparison

def _typeof(ffi, name, which, detail, ctx):
    try:
        return ffi.typeof(name)
    except Exception as e:
        ctx.fail('%s ffi.typeof(%r) raises %s: %s' % (which, name, type(e).__name__, e), **detail)


def _addr(ffi, cd):
    return int(ffi.cast('uintptr_t', cd))


def _plain(ffi, v):
    """a comparable Python value for something read from lib"""
    if isinstance(v, ffi.CData):
        t = ffi.typeof(v)
        if t.kind == 'array':
            return ['array', len(v), bytes(ffi.buffer(v))]
        if t.kind in ('struct', 'union'):
            return [t.kind, bytes(ffi.buffer(ffi.addressof(v)))]
        if t.kind in ('pointer', 'function'):
            return ['ptr', _addr(ffi, v)]
        if t.kind == 'enum':
            return ['enum', int(v)]
        return ['cdata', repr(v)]
    return v


def _read(ffi, lib, name):
    # differential: an error while converting the value (e.g. a wchar_t beyond U+10FFFF)
    # is an outcome like any other, it must be the same on both sides
    try:
        return _plain(ffi, getattr(lib, name))
    except Exception as e:
        return ['raises', type(e).__name__]


# ---------------------------------------------------------------- the property

def _build(levels, k, so, tmp, packkw={}):
    """-> (ffi1, lib1, ffi2, lib2, generated text of the top module, module names)"""
    import cffi
    inl = []
    modnames = []
    ffi2 = None
    text = None
    for lv, sp in enumerate(levels):
        f = cffi.FFI()
        for b in inl[-1:]:
            f.include(b)
        f.cdef(cdefgen.cdef_text(sp), **packkw)
        inl.append(f)
    # out-of-line: a fresh set of FFIs (set_source() can be called once per FFI, and the
    # in-line reference must not be the object that was recompiled)
    gen = []
    for lv, sp in enumerate(levels):
        f = cffi.FFI()
        for b in gen[-1:]:
            f.include(b)
        f.cdef(cdefgen.cdef_text(sp), **packkw)
        name = '_c11_%d_m%d_l%d' % (os.getpid(), k, lv)
        f.set_source(name, None)
        path = os.path.join(tmp, name + '.py')
        with contextlib.redirect_stdout(io.StringIO()):     # "generating <path>"
            f.emit_python_code(path)
        with open(path) as fp:
            text = fp.read()
        os.unlink(path)
        m = types.ModuleType(name)
        sys.modules[name] = m
        modnames.append(name)
        exec(compile(text, path, 'exec'), m.__dict__)
        ffi2 = m.ffi
        gen.append(f)
    ffi1 = inl[-1]
    return ffi1, ffi2, text, modnames


def prop(batch, ctx):
    renamed = []
    for k, it in enumerate(batch):
        r = cdefgen.rename(it['spec'], '_%d' % k)
        for i, b in enumerate(it.get('big', [])):
            r['decls'].append({'k': 'typedef', 'name': 'tbig%d_%d' % (i, k),
                               'type': ['arr', BIG_LENGTHS[b % len(BIG_LENGTHS)], ['prim', 'char']]})
        renamed.append(r)
    src = ''.join(cdefgen.c_source(r, abi=True, stdio=True) for r in renamed)
    so = cc.compile_shared(src, ctx.tmp)
    try:
        with warnings.catch_warnings():
            warnings.simplefilter('ignore')
            for k, it in enumerate(batch):
                _one(renamed[k], it['cuts'], k, so, ctx, it.get('pack', 0))
    finally:
        try:
            os.unlink(so)
        except OSError:
            pass


def _all_fields(d):
    """fields of a struct decl, including those of anonymous nested members"""
    out = []
    def walk(fields):
        for n, t, b in fields:
            out.append((n, t, b))
            if t and t[0] == 'anon':
                walk(t[2])
    walk(d['fields'])
    return out


def _one(spec, cuts, k, so, ctx, pack=0):
    decls = spec['decls']
    # a forward-declared aggregate ('struct S *' used before 'struct S {...}') that is completed in a
    # *later* include() level stays opaque for the types of the earlier module: known finding
    cycle_pairs = [(i, i + 1) for i, d in enumerate(decls)
                   if d['k'] == 'struct' and any(fn == 'mc' for fn, _t, _b in d['fields']) and i + 1 < len(decls)]
    if any(any(i < c <= j for c in cuts) for i, j in cycle_pairs) and \
            ctx.skip_known('include-completes-forward-declared-aggregate'):
        cuts = [c for c in cuts if not any(i < c <= j for i, j in cycle_pairs)]
    levels = [lv for lv in cdefgen.split_chain(spec, cuts)]
    # an empty included level is legal but pointless; drop empty levels except the top one
    levels = [lv for lv in levels[:-1] if lv['decls']] + [levels[-1]]
    cdef_txt = '\n/* ---- include()d by ---- */\n'.join(cdefgen.cdef_text(lv) for lv in levels)
    detail = {'cdef': cdef_txt}
    facts = _facts(spec)
    kinds = cdefgen.kinds(spec)
    top = levels[-1]['decls']
    topnames = set(d.get('name') for d in top)

    # anonymous nested aggregates are numbered $1, $2.. per FFI: the same number in two levels
    anon_levels = sum(1 for lv in levels if _facts(lv, spec)['anon'])
    if anon_levels >= 2 and ctx.skip_known(TAG_ANONINC):
        return
    skip_name = bool(facts['forced']) and ctx.skip_known(TAG_NAME)
    skip_file = facts['file'] and ctx.skip_known(TAG_FILE)
    enumvars = set(n for n in facts['enum_globals'] if n in topnames)
    skip_enumvar = bool(enumvars) and ctx.skip_known(TAG_ENUMVAR)

    if skip_name:
        table = dict((td, '%s %s' % kt) for kt, td in facts['forced'].items())
        rx = re.compile(r'\b(%s)\b' % '|'.join(re.escape(n) for n in sorted(table)))
        norm = lambda s: rx.sub(lambda m: table[m.group(1)], s)
    else:
        norm = lambda s: s

    has_bf = any(d['k'] == 'struct' and any(b is not None for _n, _t, b in _all_fields(d)) for d in decls)
    packkw = PACKS[pack % len(PACKS)] if not has_bf else {}
    if packkw.get('pack', 0) > 1 and any(d['k'] == 'struct' for d in decls) and \
            ctx.skip_known('ool-pack-n-not-supported'):
        packkw = {}
    if packkw:
        ctx.event('packed:%s' % sorted(packkw.items())[0][1])
    ffi1, ffi2, text, modnames = _build(levels, k, so, ctx.tmp, packkw)
    lib1 = lib2 = None
    try:
        def fail(what, path, a, b):
            ctx.fail('%s differs at %s: in-line %s, out-of-line %s' % (what, path, a, b), **detail)
        cmp = TypeCmp(ffi1, ffi2, fail, norm)
        detail['module'] = text

        # ---- named types (all levels: include()d names must resolve in the including ffi)
        tnames = named_types(decls)
        for n in tnames:
            t1 = _typeof(ffi1, n, 'in-line', detail, ctx)
            t2 = _typeof(ffi2, n, 'out-of-line', detail, ctx)
            cmp.same(t1, t2, 'typeof(%r)' % n)
            # pointer-to and array-of the named type, through the type-string parsers
            for form in (n + ' *', n + '[3]'):
                if form.endswith('[3]') and cmp.size(ffi1, t1)[0] != 'ok':
                    continue
                cmp.same(_typeof(ffi1, form, 'in-line', detail, ctx),
                         _typeof(ffi2, form, 'out-of-line', detail, ctx), 'typeof(%r)' % form)

        # ---- integer constants and enumerators
        consts = int_constants(decls)
        # (the in-line FFI has no integer_const(); its constants are read from lib below)
        for n in sorted(consts):
            v2 = ffi2.integer_const(n)
            if v2 != consts[n] or type(v2) is not int:
                ctx.fail('out-of-line integer_const(%r) = %r, declared %r' % (n, v2, consts[n]), **detail)

        # ---- list_types()
        lt1 = [list(x) for x in ffi1.list_types()]
        lt2 = [list(x) for x in ffi2.list_types()]
        if skip_file:
            lt2[0] = [x for x in lt2[0] if x != 'FILE']
            lt2[1] = [x for x in lt2[1] if x != '_IO_FILE']
        if lt1 != lt2:
            ctx.fail('list_types(): in-line %r, out-of-line %r' % (lt1, lt2), **detail)

        # ---- the library
        lib1 = ffi1.dlopen(so)
        lib2 = ffi2.dlopen(so)
        d1 = set(dir(lib1)) - set(consts)
        d2 = set(dir(lib2)) - set(consts)
        if skip_enumvar:
            d1 -= enumvars
            d2 -= enumvars
        if d1 != d2:
            ctx.fail('dir(lib) functions/variables: only in-line %r, only out-of-line %r'
                     % (sorted(d1 - d2), sorted(d2 - d1)), **detail)
        for n in sorted(consts):
            v1, v2 = getattr(lib1, n), getattr(lib2, n)
            if v1 != v2 or type(v1) is not type(v2):
                ctx.fail('lib.%s: in-line %r, out-of-line %r' % (n, v1, v2), **detail)
            if v1 != consts[n]:
                ctx.fail('lib.%s = %r on both, declared %r' % (n, v1, consts[n]), **detail)
        for d in top:
            n = d.get('name')
            if d['k'] == 'func':
                c1, c2 = getattr(lib1, n), getattr(lib2, n)
                cmp.same(ffi1.typeof(c1), ffi2.typeof(c2), 'typeof(lib.%s)' % n)
                a1, a2 = _addr(ffi1, c1), _addr(ffi2, c2)
                if a1 != a2 or a1 == 0:
                    ctx.fail('address of function %s: in-line %#x, out-of-line %#x' % (n, a1, a2), **detail)
                b1, b2 = ffi1.addressof(lib1, n), ffi2.addressof(lib2, n)
                cmp.same(ffi1.typeof(b1), ffi2.typeof(b2), 'typeof(addressof(lib, %r))' % n)
                if _addr(ffi1, b1) != a1 or _addr(ffi2, b2) != a1:
                    ctx.fail('addressof(lib, %r) != lib.%s' % (n, n), **detail)
            elif d['k'] == 'gvar':
                if skip_enumvar and n in enumvars:
                    continue
                try:
                    p1 = ffi1.addressof(lib1, n)
                except AttributeError as e:
                    ctx.fail('in-line lib has no global variable %r (%s); out-of-line: %r'
                             % (n, e, ffi2.addressof(lib2, n)), **detail)
                p2 = ffi2.addressof(lib2, n)
                # addressof() gives T* (for arrays: in-line the array itself, out-of-line T(*)[n]);
                # the variable's own type is what must agree
                T1, T2 = ffi1.typeof(p1), ffi2.typeof(p2)
                T1 = T1 if T1.kind == 'array' else T1.item
                T2 = T2 if T2.kind == 'array' else T2.item
                cmp.same(T1, T2, 'type of global %s' % n)
                a1, a2 = _addr(ffi1, p1), _addr(ffi2, p2)
                if a1 != a2 or a1 == 0:
                    ctx.fail('address of global %s: in-line %#x, out-of-line %#x' % (n, a1, a2), **detail)
                v1, v2 = _read(ffi1, lib1, n), _read(ffi2, lib2, n)
                if v1 != v2:
                    ctx.fail('value of global %s: in-line %r, out-of-line %r' % (n, v1, v2), **detail)
                init = d['init']
                if isinstance(init, int) and not isinstance(v1, list) and v1 != init:
                    if not (isinstance(v1, (bytes, str))):      # char / wchar_t read as characters
                        ctx.fail('value of global %s: %r on both, C initialiser %r' % (n, v1, init), **detail)
    finally:
        for f, l in ((ffi1, lib1), (ffi2, lib2)):
            if l is not None:
                try:
                    f.dlclose(l)
                except Exception:
                    pass
        for m in modnames:
            sys.modules.pop(m, None)

    nk = len(decls)
    cls = ['kind:' + x for x in kinds] + ['include-levels=%d' % (len(levels) - 1)]
    for key, label in (('file', 'uses-FILE'), ('anon', 'anonymous-nested-member'), ('bitfield', 'bitfield')):
        if facts[key]:
            cls.append(label)
    if anon_levels >= 2:
        cls.append('anonymous-members-in-2-include-levels')
    if facts['forced']:
        cls.append('tagged-aggregate-direct-typedef')
    if any(d['k'] in ('struct', 'enum') and d.get('tdname') and not d['tag'] for d in decls):
        cls.append('typedef-of-anonymous-aggregate-or-enum')
    if facts['enum_globals']:
        cls.append('enum-typed-global')
    if any(d['k'] == 'typedef' and d['name'].startswith('tbig') for d in decls):
        cls.append('array-length>=2**16')
    if any(d.get('ellipsis') for d in decls):
        cls.append('variadic-function')
    if any(d['k'] == 'gvar' and d['type'][0] in ('td', 'agg', 'enum') for d in decls):
        cls.append('global-of-named-type')
    ctx.note([cdef_txt], nk >= 4 and len(kinds) >= 3, cls)
