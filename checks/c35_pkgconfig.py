"""C35 -- pkg-config output is translated to build keywords without loss.

A stub `pkg-config` (tiny /bin/sh script, first on PATH) answers from files
chosen by its arguments (`<ans>/<flag>/<libname>.out|.rc|.err`).  The success
path costs one fork: the shell `exec`s /bin/cat on the answer file.

Case = a table of packages (per package and per flag: a list of
(separator, token) pairs -- the *tokens are the ground truth*, the bytes are
rendered from them --, a trailing separator, an exit behaviour and optional
undecodable bytes), a list of queries (lists of 0-4 package names, possibly an
unknown one), and a list of merge_flags() chains (in-process).

Model (written for this check, independent of str.split()):
  --cflags tokens: -I* -> include_dirs (payload), -D* -> define_macros
      (name, value after the first '=' or None), everything else ->
      extra_compile_args (whole token);
  --libs tokens:   -L* -> library_dirs, -l* -> libraries, everything else ->
      extra_link_args;
  per key: concatenation over the packages in call order, tokens in output
  order; no package => {}.
  Tokens whose prefix designates a keyword of the *other* output (-L/-l in
  --cflags, -I/-D in --libs) are accepted either whole in the extra_* list of
  their own output (what the code does) or in the designated keyword: the
  statement does not decide, both readings lose nothing.
  Any package with exit status != 0 (1, 2, 127, killed by a signal), with
  undecodable output, or a missing executable => PkgConfigError.
"""
import os, stat, shutil
from vlib.core import Violation, HarnessError

ID = 'C35'
LEVEL = 'exploration'
TECHNIQUE = 'model-based differential against a stub pkg-config first on PATH'
RULE = ('Hypothesis-generated stub tables (1-4 packages x {--cflags, --libs}: 0-7 tokens from -I -L -l -D -Dk=v '
        '-Dk=a=b -Dk= -W... -pthread -framework X bare words cross-kind tokens, non-ASCII payloads, random ASCII '
        'whitespace separators, exit status 0/1/2/127/signal, undecodable bytes) x queries of 0-4 package names '
        '(with version constraints, repeats, unknown names) and merge_flags chains; an evaluation is one '
        'flags_from_pkgconfig() call or one merge_flags chain compared with the model; non-trivial = a query '
        'with >= 2 packages whose outputs hold >= 4 token kinds, an error query with >= 2 packages, or a merge '
        'chain of >= 3 dicts sharing a key; distinct by (table, query) / chain content.')
LEVEL_TEXT = ('No disagreement with the reference model on generated stub tables; error paths (non-zero status, '
              'signal, undecodable output, missing executable) each raise PkgConfigError.')
LEVEL_NOTE = ('Trusts: /bin/sh (dash) + /bin/cat as the stub, UTF-8 filesystem encoding (LC_ALL=C.UTF-8), the '
              'reference model in this file; payloads are printable, contain no whitespace (str.isspace) and no '
              'backslash (cffi rejects backslashes by design on POSIX).')
ASSUMPTIONS = ['filesystem encoding is UTF-8 (harness sets LC_ALL=C.UTF-8)',
               'token payloads contain no character for which str.isspace() is true and no backslash',
               'tokens with a prefix of the other output kind (-L/-l in --cflags, -I/-D in --libs) may be '
               'classified either way',
               'merge_flags: TypeError is expected only when the key exists in both dicts and one value is not a list']
BUDGET = {'quick': 96, 'thorough': 5600}
MIN_PER_SHARD = 16
MAX_SHARDS = 8
TIME = {'quick': 15, 'thorough': 800}

STUB = r'''#!/bin/sh
# stub pkg-config for check C35: $1=--print-errors $2=flag $3=libname
f="$VERIF_C35_ANS/$2/$3"
if [ ! -e "$f.rc" ]; then
  echo "Package $3 was not found in the pkg-config search path." >&2
  exit 1
fi
read rc < "$f.rc"
case "$rc" in
  0) exec /bin/cat "$f.out" ;;
  sig) kill -9 $$ ;;
  *) [ -e "$f.err" ] && /bin/cat "$f.err" >&2
     /bin/cat "$f.out"
     exit "$rc" ;;
esac
'''

KEYS = ['include_dirs', 'library_dirs', 'libraries', 'define_macros', 'extra_compile_args', 'extra_link_args']
SEPS = [' ', ' ', ' ', '  ', '\t', '\n', '\r\n', ' \n', '\x0b', '\x0c', ' \t ']
# (the option letters themselves are frequent in the payload: '-llzma', '-LLibs', '-IInclude', '-L-odd')
PAY = list('abzAZ019/._-=+,:@%~"\'(){}$*?#!&;|<>[]^`') + list('lLIDW-lLI') + ['\xe9', '\xdf', '\u4e2d', '\U0001f600', '\u200b', '\ufeff', '\xd7']
assert not any(c.isspace() or c == '\\' for c in PAY)
BADBYTES = ['ff', 'c3', 'e4b8', 'f09f98', 'c0af', 'eda080', '80']


def setup(ctx):
    d = os.path.join(ctx.tmp, 'c35-%d' % os.getpid())
    os.makedirs(os.path.join(d, 'bin'), exist_ok=True)
    os.makedirs(os.path.join(d, 'empty'), exist_ok=True)
    p = os.path.join(d, 'bin', 'pkg-config')
    with open(p, 'w') as f:
        f.write(STUB)
    os.chmod(p, 0o755)
    return {'dir': d, 'n': 0}


# ---------------------------------------------------------------- generator

def strategy(ctx):
    from hypothesis import strategies as st
    pay = st.text(st.sampled_from(PAY), max_size=6)
    pay1 = st.text(st.sampled_from(PAY), min_size=1, max_size=6)
    ident = st.text(st.sampled_from(list('abAZ_09') + ['é']), min_size=0, max_size=4)

    def tok(kind):
        return {
            'I': pay.map(lambda p: ['-I' + p]),
            'L': pay.map(lambda p: ['-L' + p]),
            'l': pay.map(lambda p: ['-l' + p]),
            'D': ident.map(lambda p: ['-D' + p]),
            'Dkv': st.tuples(ident, pay.filter(lambda p: '=' not in p)).map(lambda t: ['-D%s=%s' % t]),
            'Dkab': st.tuples(ident, pay, pay).map(lambda t: ['-D%s=%s=%s' % t]),
            'Dk=': ident.map(lambda p: ['-D' + p + '=']),
            'W': pay.map(lambda p: ['-W' + p]),
            'pthread': st.just(['-pthread']),
            'framework': pay1.map(lambda p: ['-framework', p]),
            'bare': pay1.filter(lambda p: not p.startswith('-')).map(lambda p: [p]),
            'lower-i': pay.map(lambda p: ['-i' + p]),
            'dash': st.sampled_from([['-'], ['--'], ['-d'], ['-Wl,-rpath,/x'], ['-isystem', '/inc']]),
        }[kind]
    ckinds = ['I', 'I', 'D', 'Dkv', 'Dkv', 'Dkab', 'Dk=', 'W', 'pthread', 'framework', 'bare', 'lower-i', 'dash',
              'L', 'l']
    lkinds = ['L', 'L', 'l', 'l', 'l', 'W', 'pthread', 'framework', 'bare', 'dash', 'lower-i', 'I', 'D', 'Dkv']

    def output(kinds):
        one = st.sampled_from(kinds).flatmap(lambda k: tok(k).map(lambda ts: [k, ts]))

        @st.composite
        def out(draw):
            n = draw(st.sampled_from([0, 1, 2, 3, 4, 5, 6, 7]))
            r = draw(st.integers(0, 39))
            b = draw(st.integers(0, 29))
            return {
                'toks': draw(st.lists(st.tuples(st.sampled_from(SEPS), one).map(list), min_size=n, max_size=n)),
                'lead': draw(st.sampled_from(['', '', ' ', '\n'])),
                'tail': draw(st.sampled_from(['\n', '\n', ' \n', '', '  ', '\r\n'])),
                'rc': [1, 2, 127, 'sig'][r] if r < 4 else 0,
                'bad': [draw(st.sampled_from(BADBYTES)), draw(st.booleans())] if b == 0 else None,
            }
        return out()
    base = st.text(st.sampled_from(list('abcxyzLIB019_.+-') + ['é']), min_size=1, max_size=6).filter(
        lambda s: not s.startswith('-') and s not in ('.', '..'))
    name = st.one_of(base, base, st.tuples(base, st.sampled_from([' >= ', ' = ', ' < ', ' > ']),
                                           st.sampled_from(['1', '1.8.3', '0.9', '22.04'])).map(''.join))

    @st.composite
    def case(draw):
        names = draw(st.lists(name, min_size=1, max_size=4, unique=True))
        pkgs = [[n, draw(output(ckinds)), draw(output(lkinds))] for n in names]
        qs = []
        for _ in range(draw(st.integers(1, 3))):
            nq = draw(st.sampled_from([2, 3, 1, 2, 4, 3, 0, 4]))
            q = draw(st.lists(st.integers(0, len(names) + (1 if draw(st.integers(0, 14)) == 0 else 0) - 1),
                              min_size=nq, max_size=nq))
            qs.append([names[i] if i < len(names) else 'no-such-package' for i in q])
        sval = st.text(st.sampled_from(list('ab-lI/')), max_size=3)
        lval = st.lists(sval, max_size=3)
        nonlist = st.sampled_from([None, 'ab', 7, ['t', 'x']])      # ['t', ...] is rendered as a tuple
        mkey = st.sampled_from(['libraries', 'include_dirs', 'define_macros', 'k', 'extra_link_args'])
        mval = st.integers(0, 24).flatmap(lambda r: nonlist.map(lambda v: {'nonlist': v}) if r == 0 else lval)
        cfg = st.lists(st.tuples(mkey, mval).map(list),
                       max_size=4, unique_by=lambda kv: kv[0])
        merges = draw(st.lists(st.lists(cfg, min_size=1, max_size=5), max_size=6))
        return {'pkgs': pkgs, 'queries': qs, 'merges': merges}
    return case()


# ---------------------------------------------------------------- model

def render(o):
    """bytes the stub prints for one output description"""
    parts = [o['lead'].encode()]
    for sep, (kind, ts) in o['toks']:
        for t in ts:
            parts.append(sep.encode())
            parts.append(t.encode('utf-8'))
    if o.get('bad'):
        hx, glued = o['bad']
        bad = bytes.fromhex(hx)
        # an -I token with undecodable payload, or undecodable bytes glued to the last token
        parts.append(bad if glued else b' -I' + bad)
    parts.append(o['tail'].encode())
    return b''.join(parts)


def tokens(o):
    return [t for _, (kind, ts) in o['toks'] for t in ts]


def fails(o):
    return o['rc'] != 0 or bool(o.get('bad'))


def _macro(t):
    x = t[2:]
    if '=' in x:
        i = x.index('=')
        return (x[:i], x[i + 1:])
    return (x, None)


def model_pkg(cfl, lib, by_prefix_anywhere):
    r = {k: [] for k in KEYS}
    for t in tokens(cfl):
        if t.startswith('-I'):
            r['include_dirs'].append(t[2:])
        elif t.startswith('-D'):
            r['define_macros'].append(_macro(t))
        elif by_prefix_anywhere and t.startswith('-L'):
            r['library_dirs'].append(t[2:])
        elif by_prefix_anywhere and t.startswith('-l'):
            r['libraries'].append(t[2:])
        else:
            r['extra_compile_args'].append(t)
    for t in tokens(lib):
        if t.startswith('-L'):
            r['library_dirs'].append(t[2:])
        elif t.startswith('-l'):
            r['libraries'].append(t[2:])
        elif by_prefix_anywhere and t.startswith('-I'):
            r['include_dirs'].append(t[2:])
        elif by_prefix_anywhere and t.startswith('-D'):
            r['define_macros'].append(_macro(t))
        else:
            r['extra_link_args'].append(t)
    return r


def model_query(table, q, by_prefix_anywhere):
    """-> dict or 'error'"""
    out = {}
    for n in q:
        if n not in table:
            return 'error'
        cfl, lib = table[n]
        if fails(cfl) or fails(lib):
            return 'error'
    for n in q:
        r = model_pkg(table[n][0], table[n][1], by_prefix_anywhere)
        for k in KEYS:
            out.setdefault(k, [])
            out[k] = out[k] + r[k]
    return out


def _kinds(table, q):
    ks = set()
    for n in q:
        if n in table:
            for o in table[n]:
                for _, (kind, ts) in o['toks']:
                    ks.add(kind)
    return ks


def _jsonable(d):
    return {k: [list(x) if isinstance(x, tuple) else x for x in v] if isinstance(v, list) else repr(v)
            for k, v in d.items()}


# ---------------------------------------------------------------- property

def _write_table(ans, pkgs):
    for flag in ('--cflags', '--libs'):
        os.makedirs(os.path.join(ans, flag))
    for n, cfl, lib in pkgs:
        for flag, o in (('--cflags', cfl), ('--libs', lib)):
            base = os.path.join(ans, flag, n)
            with open(base + '.out', 'wb') as f:
                f.write(render(o))
            with open(base + '.rc', 'w') as f:
                f.write('%s\n' % o['rc'])
            if o['rc'] not in (0, 'sig'):
                with open(base + '.err', 'wb') as f:
                    f.write(b'Package ' + n.encode() + b' \xff failed\n' if o['rc'] == 2 else b'some error\n')


def prop(case, ctx):
    from cffi import pkgconfig
    from cffi.error import PkgConfigError
    st_ = ctx.state
    if case.get('missing-executable'):
        return _missing(case, ctx, pkgconfig, PkgConfigError)
    st_['n'] += 1
    ans = os.path.join(st_['dir'], 'ans-%d' % st_['n'])
    pkgs = case['pkgs']
    _write_table(ans, pkgs)
    table = {n: (cfl, lib) for n, cfl, lib in pkgs}
    saved = {k: os.environ.get(k) for k in ('PATH', 'VERIF_C35_ANS')}
    os.environ['PATH'] = os.path.join(st_['dir'], 'bin') + os.pathsep + (saved['PATH'] or '/usr/bin:/bin')
    os.environ['VERIF_C35_ANS'] = ans
    try:
        for q in case['queries']:
            exp = model_query(table, q, False)
            exp2 = model_query(table, q, True)
            kinds = _kinds(table, q)
            cls = ['query:npkgs=%d' % min(len(q), 3), 'query:' + ('error' if exp == 'error' else 'ok')]
            if exp == 'error':
                for n in q:
                    if n not in table:
                        cls.append('error:unknown-package')
                    else:
                        for o in table[n]:
                            if o['rc'] != 0:
                                cls.append('error:rc=%s' % o['rc'])
                            elif o.get('bad'):
                                cls.append('error:undecodable')
            else:
                cls += ['tok:' + k for k in sorted(kinds)]
            nontrivial = len(q) >= 2 and (exp == 'error' or len(kinds) >= 4)
            ctx.note(['q', pkgs, q], nontrivial, cls)
            try:
                got = pkgconfig.flags_from_pkgconfig(list(q))
            except PkgConfigError as e:
                if exp != 'error':
                    ctx.fail('PkgConfigError for a query whose pkg-config runs all succeed: %s' % (str(e)[:200],),
                             query=q)
                continue
            if exp == 'error':
                ctx.fail('no PkgConfigError although a pkg-config run fails / is undecodable / package unknown',
                         query=q, got=_jsonable(got))
            if got != exp and got != exp2:
                diff = {k: [_jsonable({'x': got.get(k)})['x'] if isinstance(got.get(k), list) else repr(got.get(k)),
                            _jsonable({'x': exp.get(k)})['x'] if isinstance(exp.get(k), list) else repr(exp.get(k))]
                        for k in set(got) | set(exp) if got.get(k) != exp.get(k)}
                ctx.fail('flags_from_pkgconfig(%r) differs from the model in %s' % (q, sorted(diff)),
                         query=q, got_vs_expected=diff)
            if exp != exp2:
                ctx.event('cross-kind-token:' + ('as-code' if got == exp else 'by-prefix'))
    finally:
        for k, v in saved.items():
            if v is None:
                os.environ.pop(k, None)
            else:
                os.environ[k] = v
        shutil.rmtree(ans, ignore_errors=True)
    for chain in case.get('merges', []):
        _merge_chain(chain, ctx, pkgconfig)


def _val(v):
    if isinstance(v, dict):
        v = v['nonlist']
        return tuple(v[1:]) if isinstance(v, list) else v
    return list(v)


def _merge_chain(chain, ctx, pkgconfig):
    cfgs = [{k: _val(v) for k, v in pairs} for pairs in chain]
    exp = {}
    err = False
    for c in cfgs:
        for k, v in c.items():
            if k not in exp:
                exp[k] = list(v) if isinstance(v, list) else v
            elif not isinstance(exp[k], list) or not isinstance(v, list):
                err = True
                break
            else:
                exp[k] = exp[k] + v
        if err:
            break
    shared = any(sum(1 for c in cfgs if k in c) >= 3 for k in set().union(*cfgs)) if cfgs else False
    ctx.note(['m', chain], len(cfgs) >= 3 and shared,
             ['merge:' + ('typeerror' if err else 'ok'), 'merge:len=%d' % len(cfgs)])
    acc = {}
    try:
        for c in cfgs:
            r = pkgconfig.merge_flags(acc, c)
            if r is not acc:
                ctx.fail('merge_flags does not return its first argument', chain=chain)
    except TypeError:
        if not err:
            ctx.fail('merge_flags raised TypeError on list-only dicts', chain=chain)
        return
    if err:
        ctx.fail('merge_flags accepted a non-list value for a key present in both dicts', chain=chain,
                 got=_jsonable(acc))
    if acc != exp:
        ctx.fail('merge_flags chain result differs from per-key concatenation in call order',
                 chain=chain, got=_jsonable(acc), expected=_jsonable(exp))


def _missing(case, ctx, pkgconfig, PkgConfigError):
    saved = os.environ.get('PATH')
    os.environ['PATH'] = os.path.join(ctx.state['dir'], 'empty')
    try:
        ctx.note(['missing', case['names']], True, 'error:missing-executable')
        try:
            got = pkgconfig.flags_from_pkgconfig(list(case['names']))
        except PkgConfigError:
            return
        ctx.fail('no PkgConfigError although no pkg-config executable is on PATH', got=_jsonable(got))
    finally:
        os.environ['PATH'] = saved if saved is not None else '/usr/bin:/bin'


def pre(ctx):
    for names in (['libfoo'], ['a', 'b >= 1.2']):
        prop({'missing-executable': True, 'names': names}, ctx)
