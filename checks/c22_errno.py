"""C22 -- errno is passed to and from C calls and is thread-local.

Case: a program for 2-4 Python threads executed in lock-step (the harness
passes a baton, so the global order of operations is the generated sequence).
Operations: assign / read ffi.errno (in-line FFI, API-module ffi, out-of-line
ffi), call set_errno(v) / get_errno() / add_errno(k) through the four call
paths (API wrapper, libffi function pointer from ffi.addressof, in-line dlopen,
out-of-line dlopen), read an API-mode global (fetch-address path; also a macro
"global" whose address computation reads errno and leaves another value), and run a C
function that sets errno, invokes a callback (ffi.callback of either FFI, or
extern "Python") which reads and optionally assigns ffi.errno, and returns the
errno it sees afterwards.

Oracle: one errno cell per thread (reference model); every observed value must
equal the model's.
"""
import os, threading, queue
from hypothesis import strategies as st
from vlib.core import Violation, HarnessError
from vlib import cc

ID = 'C22'
LEVEL = 'exploration'
TECHNIQUE = 'model-based PBT over generated multi-thread programs executed in a harness-owned lock-step order; per-thread errno cell as reference model'
RULE = ('Case = 2-4 threads, 5-40 operations in a generated global order; operations: ffi.errno get/set on three '
        'FFI objects (values over the whole int range, plus out-of-range), set/get/add errno in C through 4 call '
        'paths, API global read, C->Python callback (3 callback kinds) that reads/assigns ffi.errno. An evaluation '
        'is one operation whose observed value is compared with the per-thread model. Non-trivial = the program '
        'has another thread executing an errno-changing operation between a thread\'s set and its dependent read; '
        'distinct by program.')
LEVEL_TEXT = ('Generated lock-step multi-thread programs against a per-thread errno model; interleavings are at '
              'operation granularity (exactly as generated); finds lost/foreign errno values, cannot prove absence.')
LEVEL_NOTE = ('Trusted: libc errno is itself thread-local; helper C functions only touch errno as written; the baton '
              'guarantees one operation at a time, so races inside a single C call are not explored.')
ASSUMPTIONS = ['operation-granularity interleavings only (one operation runs at a time)',
               'gcc-built helper module/library reflect the C source shown in the check']
BUDGET = {'quick': 1600, 'thorough': 120000}
TIME = {'quick': 30, 'thorough': 900}
MIN_PER_SHARD = 40

CSRC = r'''
#include <errno.h>
int c22_g = 1234;
void set_errno(int v) { errno = v; }
int get_errno(void) { return errno; }
int add_errno(int k) { errno = (int)((unsigned)errno + (unsigned)k); return errno; }
int run_cb(int (*cb)(int), int pre, int arg) { int r; errno = pre; r = cb(arg); (void)r; return errno; }
/* the same from a thread created here (its first entry into Python is this callback); the caller's own
   errno is left at 'pre' */
#include <pthread.h>
struct c22_targ { int (*cb)(int); int pre, arg, out; };
static void *c22_thr(void *p) { struct c22_targ *a = (struct c22_targ *)p; errno = a->pre; a->cb(a->arg); a->out = errno; return 0; }
int run_cb_thread(int (*cb)(int), int pre, int arg) {
    struct c22_targ a; pthread_t th;
    a.cb = cb; a.pre = pre; a.arg = arg; a.out = -12345;
    if (pthread_create(&th, 0, c22_thr, &a) != 0) c22_thr(&a);    /* (no thread available: same thread) */
    else pthread_join(th, 0);
    errno = pre;
    return a.out;
}
/* a "global variable" that is really a macro calling a function: the code that computes
   its address reads errno and leaves another value in it */
static int c22_store = 77;
int c22_seen = -1;
int c22_next = 0;
int *c22_get_mv(void) { c22_seen = errno; errno = c22_next; return &c22_store; }
#define c22_mv (*c22_get_mv())
'''
CDEF = '''
extern int c22_g;
void set_errno(int v); int get_errno(void); int add_errno(int k);
int run_cb(int (*cb)(int), int pre, int arg);
int run_cb_thread(int (*cb)(int), int pre, int arg);
'''

INT_MIN, INT_MAX = -2**31, 2**31 - 1


def _wrap(v):
    return (v + 2**31) % 2**32 - 2**31


def setup(ctx):
    import cffi
    tmp = ctx.tmp
    tag = '%d_%d' % (os.getpid(), ctx.shard if ctx.shard >= 0 else 99)
    # API module (with extern "Python")
    fa = cffi.FFI()
    fa.cdef(CDEF + 'extern "Python" int c22_extpy(int); extern "Python" int c22_noext(int); extern int c22_mv; extern int c22_seen; extern int c22_next;')
    name = '_c22_api_%s' % tag
    fa.set_source(name, CSRC)
    mod = cc.build_api_module(fa, name, tmp)
    so = cc.compile_shared(CSRC, tmp, stem='c22')
    # in-line
    fi = cffi.FFI()
    fi.cdef(CDEF)
    li = fi.dlopen(so)
    # out-of-line ABI
    fo = cffi.FFI()
    fo.cdef(CDEF)
    fo.set_source('_c22_ool', None)
    path = os.path.join(tmp, '_c22_ool_%s.py' % tag)
    fo.emit_python_code(path)
    ns = {}
    with open(path) as f:
        exec(compile(f.read(), path, 'exec'), ns)
    ffo = ns['ffi']
    lo = ffo.dlopen(so)
    st_ = {'api': mod, 'fi': fi, 'li': li, 'ffo': ffo, 'lo': lo,
           'ffis': [fi, mod.ffi, ffo]}
    st_['funcs'] = {}
    for fn in ('set_errno', 'get_errno', 'add_errno', 'run_cb', 'run_cb_thread'):
        st_['funcs'][fn] = [getattr(mod.lib, fn), mod.ffi.addressof(mod.lib, fn), getattr(li, fn), getattr(lo, fn)]
    return st_


PATHS = ['api-wrapper', 'libffi-addressof', 'inline-dlopen', 'ool-dlopen']


def strategy(ctx):
    val = st.one_of(st.integers(INT_MIN, INT_MAX), st.sampled_from([0, 1, -1, 2, 11, 34, INT_MIN, INT_MAX, 255, 256]),
                    st.integers(0, 140))

    @st.composite
    def op(draw, nthreads):
        t = draw(st.integers(0, nthreads - 1))
        k = draw(st.sampled_from(['set', 'get', 'c_set', 'c_get', 'c_add', 'glob', 'cb', 'set', 'get', 'c_set',
                                  'set_bad', 'gfetch', 'gfetch']))
        if k == 'set':
            return [t, 'set', draw(st.integers(0, 2)), draw(val)]
        if k == 'set_bad':
            return [t, 'set_bad', draw(st.integers(0, 2)),
                    draw(st.sampled_from([2**31, -2**31 - 1, 2**63, -2**63, 2**64, 2**100]))]
        if k == 'get':
            return [t, 'get', draw(st.integers(0, 2))]
        if k == 'c_set':
            return [t, 'c_set', draw(st.integers(0, 3)), draw(val)]
        if k == 'c_get':
            return [t, 'c_get', draw(st.integers(0, 3))]
        if k == 'c_add':
            return [t, 'c_add', draw(st.integers(0, 3)), draw(st.integers(-1000, 1000))]
        if k == 'glob':
            return [t, 'glob']
        if k == 'gfetch':
            # macro global: [errno the accessor leaves, how: 0 read / 1 write / 2 addressof]
            return [t, 'gfetch', draw(val), draw(st.integers(0, 2))]
        # callback: [path, cbkind, pre, assign-or-None]
        return [t, 'cb', draw(st.integers(0, 3)), draw(st.integers(0, 3)), draw(val),
                draw(st.one_of(st.none(), val)), draw(st.integers(0, 2)) == 0]     # last: from a C-created thread

    @st.composite
    def case(draw):
        n = draw(st.integers(2, 4))
        ops = draw(st.lists(op(n), min_size=5, max_size=40))
        return {'nthreads': n, 'ops': ops}
    return case()


class Worker(threading.Thread):
    def __init__(self, s):
        threading.Thread.__init__(self)
        self.daemon = True
        self.inq = queue.Queue()
        self.outq = queue.Queue()
        self.s = s

    def run(self):
        while True:
            item = self.inq.get()
            if item is None:
                return
            try:
                self.outq.put(('ok', self.execute(item)))
            except BaseException as e:
                self.outq.put(('exc', e))

    def execute(self, op):
        s = self.s
        k = op[1]
        if k == 'set':
            s['ffis'][op[2]].errno = op[3]
            return None
        if k == 'set_bad':
            try:
                s['ffis'][op[2]].errno = op[3]
            except OverflowError:
                return 'OverflowError'
            return 'accepted'
        if k == 'get':
            return s['ffis'][op[2]].errno
        if k == 'c_set':
            s['funcs']['set_errno'][op[2]](op[3])
            return None
        if k == 'c_get':
            return s['funcs']['get_errno'][op[2]]()
        if k == 'c_add':
            return s['funcs']['add_errno'][op[2]](op[3])
        if k == 'glob':
            return s['api'].lib.c22_g
        if k == 'gfetch':
            lib, affi = s['api'].lib, s['api'].ffi
            lib.c22_next = op[2]
            if op[3] == 0:
                v = lib.c22_mv
            elif op[3] == 1:
                lib.c22_mv = 77
                v = 77
            else:
                v = affi.addressof(lib, 'c22_mv')[0]
            return [lib.c22_seen, v]
        if k == 'cb':
            _, _, path, cbkind, pre, assign = op[:6]
            seen = []
            api = s['api']
            ffi_for_cb = [s['fi'], api.ffi, api.ffi, api.ffi][cbkind]

            def body(x):
                seen.append(ffi_for_cb.errno)
                if assign is not None:
                    ffi_for_cb.errno = assign
                return x + 1
            if cbkind == 3:
                # an extern "Python" function to which no Python code was ever attached: cffi prints a
                # notice and returns 0; the errno the C caller set must survive the call
                addr = int(api.ffi.cast('uintptr_t', api.lib.c22_noext))
            elif cbkind == 2:
                api.ffi.def_extern(name='c22_extpy')(body)
                cb = api.lib.c22_extpy
                fn = s['funcs']['run_cb'][path]
                # the extern "Python" pointer belongs to the API ffi; every path accepts a pointer cdata of
                # the same C type only from its own ffi family -> cast through an integer address
                addr = int(api.ffi.cast('uintptr_t', cb))
            else:
                cbobj = ffi_for_cb.callback('int(int)', body)
                addr = int(ffi_for_cb.cast('uintptr_t', cbobj))
            owner = [s['api'].ffi, s['api'].ffi, s['fi'], s['ffo']][path]
            cbptr = owner.cast('int(*)(int)', addr)
            inthread = len(op) > 6 and op[6] and cbkind != 3
            r = s['funcs']['run_cb_thread' if inthread else 'run_cb'][path](cbptr, pre, 5)
            return [r, seen]
        raise HarnessError('bad op %r' % (op,))


def prop(case, ctx):
    s = ctx.state
    n = case['nthreads']
    workers = [Worker(s) for _ in range(n)]
    for w in workers:
        w.start()
    model = [0] * n
    last_set_by = {}      # thread -> index of its last errno-changing op
    nontrivial = False
    pending_dep = {}      # thread -> True if another thread changed errno since this thread's last set
    try:
        for idx, op in enumerate(case['ops']):
            t, k = op[0], op[1]
            workers[t].inq.put(op)
            try:
                status, res = workers[t].outq.get(timeout=60)
            except queue.Empty:
                raise HarnessError('operation did not finish in 60 s: %r' % (op,))
            if status == 'exc':
                ctx.fail('operation %r raised %s: %s' % (op, type(res).__name__, res), step=idx)
            E = model[t]
            changes = False
            if k == 'set':
                model[t] = op[3]
                changes = True
            elif k == 'set_bad':
                if res != 'OverflowError':
                    ctx.fail('ffi.errno = %d was accepted' % op[3], step=idx)
            elif k == 'get':
                if res != E:
                    ctx.fail('thread %d: ffi.errno is %r, expected %r' % (t, res, E), step=idx, op=op)
                if pending_dep.get(t):
                    nontrivial = True
            elif k == 'c_set':
                model[t] = op[3]
                changes = True
            elif k == 'c_get':
                if res != E:
                    ctx.fail('thread %d: C sees errno %r via %s, expected %r' % (t, res, PATHS[op[2]], E),
                             step=idx, op=op)
                if pending_dep.get(t):
                    nontrivial = True
            elif k == 'c_add':
                model[t] = _wrap(E + op[3])
                changes = True
                if res != model[t]:
                    ctx.fail('thread %d: add_errno via %s returned %r, expected %r' % (t, PATHS[op[2]], res, model[t]),
                             step=idx, op=op)
            elif k == 'glob':
                if res != 1234:
                    ctx.fail('API global read %r' % (res,), step=idx)
            elif k == 'gfetch':
                seen, v = res
                if v != 77:
                    ctx.fail('macro global read %r' % (v,), step=idx)
                if seen != E:
                    ctx.fail('thread %d: the C code computing the address of an API-mode global saw errno %r, '
                             'expected %r' % (t, seen, E), step=idx, op=op)
                model[t] = op[2]
                changes = True
            elif k == 'cb':
                _, _, path, cbkind, pre, assign = op[:6]
                inthread = len(op) > 6 and op[6] and cbkind != 3
                r, seen = res
                if cbkind == 3:
                    if seen != []:
                        ctx.fail('unattached extern "Python" function ran Python code', step=idx, op=op)
                    assign = None
                elif seen != [pre]:
                    ctx.fail('thread %d: callback saw ffi.errno %r, C had set errno=%r' % (t, seen, pre),
                             step=idx, op=op)
                expect = pre if assign is None else assign
                if r != expect:
                    ctx.fail('thread %d: C saw errno %r after the callback, expected %r' % (t, r, expect),
                             step=idx, op=op)
                model[t] = pre if inthread else expect
                if inthread:
                    ctx.event('callback-from-a-C-created-thread')
                changes = True
            ctx.note((idx, op), False, [k] + ([PATHS[op[2]]] if k in ('c_set', 'c_get', 'c_add', 'cb') else []))
            if changes:
                pending_dep[t] = False
                for u in range(n):
                    if u != t:
                        pending_dep[u] = True
        # final read-back in every thread
        for t in range(n):
            workers[t].inq.put([t, 'get', 0])
            status, res = workers[t].outq.get(timeout=60)
            if status == 'exc' or res != model[t]:
                ctx.fail('thread %d: final ffi.errno %r, expected %r' % (t, res, model[t]))
            if pending_dep.get(t):
                nontrivial = True
    finally:
        for w in workers:
            w.inq.put(None)
        for w in workers:
            w.join(10)
    ctx.note(case, nontrivial, ['program-nontrivial' if nontrivial else 'program-trivial', '%d-threads' % n])
