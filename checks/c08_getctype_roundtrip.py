"""C08 -- C type names round-trip through getctype / typeof.

Case: one declaration context (vlib/typegen.py), a list of type trees T, and
for each T a few declarator texts x (from declarator trees: pointer, array,
pointer-to-function, an optional name, nested).

For both the in-line FFI and the ffi of the out-of-line module:
 * typeof(getctype(T)) is T;
 * typeof(getctype(T, x)) is the type obtained by applying the declarator x
   to T with the backend constructors (new_pointer_type / new_array_type /
   new_function_type), following C's declarator rules; combinations C forbids
   (array of void/incomplete, function returning an array or an incomplete
   type) are not generated;
 * for complete T that is not a function (pointer) type: 'extern <getctype(T,
   "v_i")>;' is accepted by gcc in the context and sizeof(v_i) == ffi.sizeof(T)
   (one gcc run per case).
"""
import io, contextlib
from hypothesis import strategies as st
from vlib.core import HarnessError, jdump, h64
from vlib import typegen as tg, cc

ID = 'C08'
LEVEL = 'exploration'
TECHNIQUE = 'round-trip + structural reconstruction with backend constructors + gcc sizeof oracle, Hypothesis'
RULE = ('Hypothesis-generated declaration contexts x ctypes T obtained from G-TYPE trees (canonical '
        'spelling, names without $) x declarator texts x printed from declarator trees (name?, *, [N], [], '
        '(*)(args), nested to depth 3, random whitespace), in the in-line FFI and in the ffi of the '
        'out-of-line module.  An evaluation is one (FFI, T, x) round trip (x may be empty) or one gcc-checked '
        'declaration.  Non-trivial = the name of T has a declarator part after its name position (array, '
        'function pointer, pointer to array/function) or x has >= 2 declarator operators; distinct by '
        '(FFI kind, T.cname, x).')
LEVEL_TEXT = ('random search over ctypes x declarator texts: every getctype result re-parses to the '
              'structurally expected unique ctype, and gcc accepts the named declarations with the same size')
LEVEL_NOTE = ('trusted: the backend constructors and unique-type cache as the reference for "the type the '
              'declarator denotes" (C27 checks the cache), vlib/typegen.py printer, gcc for acceptance/sizeof')
ASSUMPTIONS = ['T ranges over types both FFIs accept from the canonical spelling of a valid tree',
               'the gcc leg declares objects below 2**31 bytes only',
               'function-pointer ctypes are "function types" in the sense of the statement: no gcc leg for them']
BUDGET = {'quick': 160, 'thorough': 9600}
TIME = {'quick': 12, 'thorough': 800}
MIN_PER_SHARD = 6
NTYPES = 24
CTX_BYTES, ITEM_BYTES = 192, 96

ARG_POOL = ['int', 'char *', 'double', 'unsigned long', 'void *', 'short[4]', 'int (*)(void)', 'uint8_t']
NAMES = ['v', 'x0', 'arg']


# --------------------------------------------------------------------------
# declarator trees:  ['name', text] | ['ptr', D] | ['arr', N|None, D] | ['func', [arg indexes], ellipsis, D]

def gen_decl(R, depth):
    if depth <= 0:
        return ['name', R.choice(['', '', '', 'v', 'x0', 'arg'])]
    c = R.below(8)
    if c <= 1:
        return ['name', R.choice(['', '', 'v', 'x0'])]
    if c <= 3:
        return ['ptr', gen_decl(R, depth - 1)]
    if c <= 5:
        n = R.choice([None, 0, 1, 2, 3, 7, 16, 100])
        return ['arr', n, gen_decl(R, depth - 1)]
    args = [R.below(len(ARG_POOL)) for _ in range(R.choice([0, 1, 1, 2, 3]))]
    return ['func', args, bool(args) and R.chance(1, 4), ['ptr', gen_decl(R, depth - 1)]]


def decl_tokens(d):
    k = d[0]
    if k == 'name':
        return [d[1]] if d[1] else []
    if k == 'ptr':
        return ['*'] + decl_tokens(d[1])
    inner = decl_tokens(d[-1])
    if d[-1][0] == 'ptr':
        inner = ['('] + inner + [')']
    if k == 'arr':
        return inner + ['['] + ([str(d[1])] if d[1] is not None else []) + [']']
    args = []
    for i, a in enumerate(d[1]):
        args += ([','] if i else []) + tg.tokenize(ARG_POOL[a])
    if d[2]:
        args += [',', '...']
    return inner + ['('] + args + [')']


def n_ops(d):
    return 0 if d[0] == 'name' else 1 + n_ops(d[-1])


class Skip(Exception):
    pass


def apply_decl(d, X, ffi, B):
    """The ctype denoted by 'X d' (C declarator rules), built with the backend
    constructors; Skip for what C forbids."""
    k = d[0]
    if k == 'name':
        return X
    if k == 'ptr':
        return apply_decl(d[1], B.new_pointer_type(X), ffi, B)
    if k == 'arr':
        if X.kind == 'void' or (X.kind in ('struct', 'union') and X.fields is None) \
                or (X.kind == 'array' and X.length is None):
            raise Skip
        try:
            A = B.new_array_type(B.new_pointer_type(X), d[1])
        except OverflowError:
            raise Skip
        return apply_decl(d[2], A, ffi, B)
    # function returning X, wrapped in a pointer by the following ['ptr', ...]
    if X.kind == 'array' or (X.kind in ('struct', 'union') and X.fields is None):
        raise Skip
    args = tuple(ffi.typeof(ARG_POOL[a]) for a in d[1])
    F = B.new_function_type(args, X, d[2])
    assert d[3][0] == 'ptr'
    return apply_decl(d[3][1], F, ffi, B)           # F already is the pointer-to-function ctype


# --------------------------------------------------------------------------

def make_case(raw):
    cbytes, ibytes = raw
    context = tg.gen_context(tg.BytesR(cbytes))
    info = tg.Info(context)
    items = []
    for data in ibytes:
        R = tg.BytesR(data)
        # (one type in five may have huge array lengths: 2**31-1 .. 2**64; the invalid ones are left out)
        tree = tg.gen_tree(R, info, R.choice([0, 1, 1, 2, 2, 3]), want='object', exotic=R.chance(1, 5))
        decls = []
        for _ in range(1 + R.below(4)):
            d = gen_decl(R, R.choice([1, 1, 2, 2, 3]))
            decls.append({'d': d, 'x': tg.join_tokens(decl_tokens(d), R) + R.choice(['', '', ' ', '\t'])})
        items.append({'tree': tree, 'decls': decls})
    return {'ctx': context, 'items': items}


def strategy(ctx):
    return st.tuples(st.binary(min_size=CTX_BYTES, max_size=CTX_BYTES),
                     st.lists(st.binary(min_size=ITEM_BYTES, max_size=ITEM_BYTES),
                              min_size=NTYPES // 2, max_size=NTYPES, unique=True)).map(make_case)


_cache = {}


def build(context):
    import cffi
    key = jdump(context)
    if key in _cache:
        return _cache[key]
    cdef = tg.cdef_of(context)
    try:
        inline = cffi.FFI()
        inline.cdef(cdef)
        src = cffi.FFI()
        src.cdef(cdef)
        src.set_source('_c08_%x' % (h64(key) & 0xffffffff), None)
        buf = io.StringIO()
        with contextlib.redirect_stdout(io.StringIO()):
            src.emit_python_code(buf)
        glob = {}
        exec(compile(buf.getvalue(), '<c08 out-of-line module>', 'exec'), glob)
    except Exception as e:
        raise HarnessError('context does not build (%s: %s):\n%s' % (type(e).__name__, e, cdef))
    _cache.clear()
    _cache[key] = (inline, glob['ffi'], cdef)
    return _cache[key]


C_PRELUDE = '''#include <stdio.h>
#include <stdint.h>
#include <stddef.h>
#include <stdbool.h>
#include <wchar.h>
#include <uchar.h>
#include <sys/types.h>
#define __stdcall
#define __cdecl
typedef float _Complex _cffi_float_complex_t;
typedef double _Complex _cffi_double_complex_t;
'''


def name_is_nontrivial(T):
    k = T.kind
    if k in ('array', 'function'):
        return True
    if k == 'pointer':
        return name_is_nontrivial(T.item) if T.item.kind == 'pointer' else T.item.kind in ('array', 'function')
    return False


def prop(case, ctx):
    import cffi, _cffi_backend as B
    context = case['ctx']
    info = tg.Info(context)
    inline, compiled, cdef = build(context)
    cdecls = []           # (declaration text, expected size, what)
    for ti, item in enumerate(case['items']):
        s = ' '.join(tg.canonical_tokens(item['tree']))
        for mode, ffi in (('in-line', inline), ('compiled', compiled)):
            try:
                T = ffi.typeof(s)
            except (cffi.CDefError, cffi.FFIError, B.FFI.error, TypeError, ValueError, OverflowError,
                    NotImplementedError):
                ctx.event('left-out:type-rejected')      # agreement of the parsers is C07's subject
                continue
            if '$' in T.cname:
                ctx.event('left-out:$-name')
                continue
            nt = name_is_nontrivial(T)
            detail = dict(ffi=mode, T=T.cname, cdef=cdef, source=s)
            # ---- typeof(getctype(T)) is T
            name = ffi.getctype(T)
            if type(name) is not str:
                ctx.fail('getctype(%r) returns %r' % (T.cname, name), **detail)
            back = ffi.typeof(name)
            if back is not T:
                ctx.fail('%s: typeof(getctype(T)) is not T: getctype gives %r, which re-parses to %r'
                         % (mode, name, back.cname), **detail)
            ctx.note((mode, T.cname, ''), nt, [mode, 'T:' + T.kind, 'x:empty'])
            # ---- declarator texts
            for dc in item['decls']:
                d, x = dc['d'], dc['x']
                try:
                    want = apply_decl(d, T, ffi, B)
                except Skip:
                    ctx.event('left-out:forbidden-in-C')
                    continue
                got_name = ffi.getctype(T, x)
                try:
                    got = ffi.typeof(got_name)
                except Exception as e:
                    ctx.fail('%s: getctype(%r, %r) = %r does not re-parse (%s: %s); expected %r'
                             % (mode, T.cname, x, got_name, type(e).__name__, str(e).split('\n')[0][:100],
                                want.cname), x=x, **detail)
                if got is not want:
                    ctx.fail('%s: getctype(%r, %r) = %r re-parses to %r, the declarator denotes %r'
                             % (mode, T.cname, x, got_name, got.cname, want.cname), x=x, **detail)
                top = d[0] if d[0] != 'func' else 'funcptr'
                ctx.note((mode, T.cname, x.strip()), nt or n_ops(d) >= 2,
                         [mode, 'T:' + T.kind, 'x:' + top, 'x:ops=%d' % min(n_ops(d), 4)] +
                         (['x:named'] if any(n in tg.tokenize(x) for n in NAMES) else []))
            # ---- gcc leg
            if T.kind == 'function':
                continue
            try:
                size = ffi.sizeof(T)
            except (TypeError, ValueError, cffi.FFIError, B.FFI.error):
                continue                                   # incomplete: void, opaque, open array
            if size >= 2 ** 31:
                continue
            var = 'v_%d_%d' % (ti, len(cdecls))
            cdecls.append((ffi.getctype(T, var), size, '%s getctype(%r, %r)' % (mode, T.cname, var)))
    if not cdecls:
        return
    # one declaration per distinct text
    seen, uniq = set(), []
    for decl, size, what in cdecls:
        key = decl.replace(_var(decl), 'v')
        if key not in seen:
            seen.add(key)
            uniq.append((decl, size, what))
    head = C_PRELUDE + tg.cdef_of(context, for_c=True)
    prog = head + ''.join('extern %s;\n' % d for d, _, _ in uniq) + 'int main(void) {\n' + \
        ''.join('  printf("%%zu\\n", sizeof(%s));\n' % _var(d) for d, _, _ in uniq) + '  return 0;\n}\n'
    out = cc.compile_and_run(prog, ctx.tmp, allow_fail=True)
    if out is None:
        # find the declaration gcc refuses
        if cc.compile_and_run(head + 'int main(void) { return 0; }\n', ctx.tmp, allow_fail=True) is None:
            raise HarnessError('gcc rejects the context itself:\n' + head)
        for d, size, what in uniq:
            one = head + 'extern %s;\nint main(void) { return (int)sizeof(%s); }\n' % (d, _var(d))
            if cc.compile_and_run(one, ctx.tmp, allow_fail=True) is None:
                ctx.fail('gcc rejects the declaration %r produced by %s' % ('extern %s;' % d, what), cdef=cdef)
        raise HarnessError('gcc rejects the batch but none of its declarations:\n' + prog)
    sizes = out.split()
    for (d, size, what), got in zip(uniq, sizes):
        if int(got) != size:
            ctx.fail('%s: gcc gives sizeof = %s for %r, ffi.sizeof(T) = %d' % (what, got, d, size), cdef=cdef)
        ctx.note(('gcc', d.replace(_var(d), 'v')), '[' in d or '(' in d, ['gcc-declaration'])


def _var(decl):
    import re
    return re.search(r'v_\d+_\d+', decl).group()


def pre(ctx):
    """round lengths and empty parameter lists, all alive together: the name asked for is the name of the
    type obtained, for arrays of 2**k-1, 2**k, 2**k+1 items next to function pointers over the same types
    (in-line FFI and C-backend FFI)"""
    import cffi, _cffi_backend
    held = []
    n_eval = 0
    for ffi in (cffi.FFI(), _cffi_backend.FFI()):
        for T in ('char', 'int', 'double', 'char *', 'int *'):
            wanted = []
            for res in (T, T + ' *', 'void'):
                for params in ('void', T, T + ', ...'):
                    wanted.append(('(*)(%s)' % params, res))
            for k in list(range(0, 8)) + [2 ** e + d for e in range(4, 41) for d in (-1, 0, 1)]:
                if k * (8 if T.endswith('*') else {'char': 1, 'int': 4, 'double': 8}[T]) < 2 ** 63:
                    wanted.append(('[%d]' % k, T))
            for suffix, base in wanted:
                name = ffi.getctype(base, suffix)
                t = ffi.typeof(name)
                held.append(t)
                n_eval += 1
                if ffi.typeof(ffi.getctype(t)) is not t:
                    ctx.fail('typeof(getctype(t)) is not t for t = typeof(%r) = %r' % (name, t), sweep=True)
                if suffix.startswith('['):
                    ok = t.kind == 'array' and t.length == int(suffix[1:-1]) and t.item is ffi.typeof(base)
                else:
                    ok = (t.kind == 'function' and t.result is ffi.typeof(base)
                          and t.ellipsis == suffix.endswith('...)'))
                if not ok:
                    ctx.fail('getctype(%r, %r) = %r, but typeof() of that name is %r' % (base, suffix, name, t),
                             sweep=True)
    ctx.extra['round_length_sweep'] = n_eval
    ctx.note(['round-length-sweep', n_eval], True, ['round-length-sweep'])
