"""C09 -- integer constant expressions in a cdef evaluate as the C compiler
evaluates them.

Case: a pool of named constants (#define literals, enumerators) and a batch of
items, each an expression tree placed in one context: array length,
enumerator value, bit-field width, '#define NAME <literal>' or
'static const <type> NAME = <literal>'.

Oracles
 * gcc: one program per batch prints ((E) < 0, (unsigned long long)(E)) for
   every item (the static-const items print the declared object);
 * model (vlib/cexpr.py): C-typed evaluation (literal typing, integer
   promotions, usual arithmetic conversions).  It decides *definedness* (only
   defined expressions are generated) and is cross-checked against gcc on
   every item -- a disagreement is a harness error.
The value cffi reports (lib.NAME, ffi.integer_const, typeof().length /
sizeof, field.bitsize, enum relements) in the in-line and the out-of-line ABI
mode must equal the C value.
"""
import io, contextlib
from hypothesis import strategies as st
from vlib.core import HarnessError, jdump
from vlib import cexpr as cx, cc
from vlib.typegen import BytesR

ID = 'C09'
LEVEL = 'exploration'
TECHNIQUE = 'gcc-evaluated oracle (batched) + C-typed model evaluator for definedness, Hypothesis'
RULE = ('Hypothesis-generated batches of expression trees (depth <= 5) over dec/oct/hex literals with '
        'u/l suffixes, character constants incl. simple escapes, unary + -, + - * / % << >> & | ^, '
        'parentheses and references to pooled #define/enumerator constants, each placed in one of the '
        'contexts array length / enumerator / bit-field width / #define literal / static const literal; '
        'only expressions whose C evaluation the typed model finds defined.  An evaluation is one '
        '(expression, context) observed in the in-line and the out-of-line ABI FFI against gcc.  '
        'Non-trivial = >= 2 operators or a negative intermediate value or a non-decimal literal; '
        'distinct by expression text x context.')
LEVEL_TEXT = ('random search over expression trees x contexts: every value cffi reports equals the value '
              'gcc computes, outside the listed known classes')
LEVEL_NOTE = ('trusted: gcc -O0 as "the C compiler"; the typed model only selects defined expressions and '
              'is itself compared with gcc on every item; API mode is not built (its constants are '
              'computed by the C compiler itself)')
ASSUMPTIONS = ['x86-64 LP64, gcc 12: int 32 bits, long = long long = 64 bits, char signed',
               'right shift of negative values and out-of-range conversion to signed types follow gcc '
               '(implementation-defined, documented)',
               'references use #define and enumerator names only (a static const object is not a constant '
               'expression in C)',
               'unsuffixed decimal literals above LLONG_MAX are not generated (no type in C99)']
BUDGET = {'quick': 80, 'thorough': 3200}
TIME = {'quick': 12, 'thorough': 800}
BATCH = 100
MIN_PER_SHARD = 4
ITEM_BYTES, POOL_BYTES = 72, 64

STATIC_TYPES = [('signed char', 8, True), ('unsigned char', 8, False), ('short', 16, True),
                ('unsigned short', 16, False), ('int', 32, True), ('unsigned int', 32, False),
                ('long', 64, True), ('unsigned long', 64, False), ('long long', 64, True),
                ('unsigned long long', 64, False), ('int8_t', 8, True), ('uint16_t', 16, False),
                ('int32_t', 32, True), ('uint64_t', 64, False), ('size_t', 64, False)]


# --------------------------------------------------------------------------
# generation (pure functions of Hypothesis-drawn bytes)

def gen_pool(R):
    pool = []
    for i in range(R.below(4)):
        for _ in range(6):
            lit = cx.gen_literal(R, chars=False)
            tree = ['un', '-', lit] if R.chance(1, 4) else lit
            try:
                cx.evaluate(tree, {})
                break
            except cx.Undefined:
                tree = ['lit', '%d' % i]
        pool.append(['define', 'P%d' % i, tree])
    for i in range(R.below(4)):
        v = R.choice([0, 1, 2, 3, 5, 8, 31, 100, 255, 65536, 2 ** 31 - 1])
        tree = ['lit', '%d' % v]
        if R.chance(1, 3):
            tree = ['un', '-', tree]
        pool.append(['enum', 'Q%d' % i, tree])
    return pool


def env_of(pool):
    env = {}
    for kind, name, tree in pool:
        t, v = cx.evaluate(tree, {})
        env[name] = ('int', v) if kind == 'enum' else (t, v)
    return env


def math_env(pool):
    return {name: (None, cx.math_value(tree, {})) for kind, name, tree in pool}


def gen_item(R, env, menv):
    c = R.below(10)
    if c == 0:
        lit = cx.gen_literal(R, chars=False)
        tree = ['un', '-', lit] if R.chance(1, 3) else lit
        return {'ctx': 'define', 'tree': tree}
    if c == 1:
        tname, bits, signed = R.choice(STATIC_TYPES)
        if R.chance(3, 4):
            lit = cx.gen_literal(R, chars=False, maxbits=bits - (1 if signed else 0))
        else:
            lit = cx.gen_literal(R, chars=False)
        tree = ['un', '-', lit] if R.chance(1, 3) else lit
        return {'ctx': 'static', 'tree': tree, 'type': tname}
    depth = R.choice([0, 1, 2, 2, 3, 3, 4, 4, 5])
    tree = cx.gen_expr(R, depth, env)
    if R.chance(1, 5):
        # fold the value into a small positive range: exercises % and the narrow contexts
        for wrapper in (['bin', '+', ['bin', '%', ['par', tree], ['lit', R.choice(['29', '31', '0x1f', '017'])]],
                         ['lit', R.choice(['1', '32', '040'])]],
                        ['bin', '&', ['par', tree], ['lit', R.choice(['31', '0x1F', '7', '0xffff'])]]):
            try:
                cx.evaluate(wrapper, env)
                tree = wrapper
                break
            except cx.Undefined:
                pass
    v = cx.math_value_or_none(tree, menv)      # what cffi is going to compute
    want = R.below(6)
    if v is None:
        ctx = 'enum'          # cffi cannot evaluate it at all (typed-arithmetic class)
    elif want <= 1 and 1 <= v <= 32:
        ctx = 'bitfield'
    elif want <= 3 and 0 <= v < 2 ** 31:
        ctx = 'array'
    elif -2 ** 63 <= v < 2 ** 64:
        ctx = 'enum'
    else:
        tree = ['lit', '%d' % (abs(v) % 1000)]
        ctx = 'enum'
    return {'ctx': ctx, 'tree': tree, 'ws': [R.below(256) for _ in range(6)]}


def make_case(raw):
    pbytes, ibytes = raw
    pool = gen_pool(BytesR(pbytes))
    env = env_of(pool)
    menv = math_env(pool)
    items = []
    for data in ibytes:
        for attempt in range(3):
            try:
                it = gen_item(BytesR(data[attempt * 24:]), env, menv)
                cx.evaluate(it['tree'], env)
                break
            except cx.Undefined:
                it = {'ctx': 'enum', 'tree': ['lit', '1']}
        items.append(it)
    return {'pool': pool, 'items': items}


def strategy(ctx):
    return st.tuples(st.binary(min_size=POOL_BYTES, max_size=POOL_BYTES),
                     st.lists(st.binary(min_size=ITEM_BYTES, max_size=ITEM_BYTES),
                              min_size=BATCH // 2, max_size=BATCH, unique=True)).map(make_case)


# --------------------------------------------------------------------------
# rendering

def expr_text(item):
    ws = item.get('ws')
    return cx.text(item['tree'], BytesR(bytes(ws)) if ws else None)


def pool_lines(pool):
    lines = []
    for kind, name, tree in pool:
        if kind == 'define':
            lines.append('#define %s %s' % (name, cx.text(tree).replace(' ', '')))
    en = ['%s = %s' % (name, cx.text(tree).replace(' ', '')) for kind, name, tree in pool if kind == 'enum']
    if en:
        lines.append('enum { %s };' % ', '.join(en))
    return lines


def cdef_line(i, item):
    e = expr_text(item)
    c = item['ctx']
    if c == 'array':
        return 'typedef char A%d[%s];' % (i, e)
    if c == 'enum':
        return 'enum e%d { E%d = %s };' % (i, i, e)
    if c == 'bitfield':
        return 'struct s%d { int f : %s; };' % (i, e)
    if c == 'define':
        return '#define D%d %s' % (i, cx.text(item['tree']).replace(' ', ''))
    if c == 'static':
        return 'static const %s S%d = %s;' % (item['type'], i, cx.text(item['tree']).replace(' ', ''))
    raise ValueError(c)


def c_program(pool, items):
    out = ['#include <stdio.h>', '#include <stdint.h>', '#include <stddef.h>'] + pool_lines(pool)
    body = []
    for i, item in enumerate(items):
        c = item['ctx']
        if c == 'define':
            out.append(cdef_line(i, item))
            e = 'D%d' % i
        elif c == 'static':
            out.append(cdef_line(i, item))
            e = 'S%d' % i
        else:
            e = expr_text(item)
        body.append('  printf("%%d %%llu\\n", (%s) < 0, (unsigned long long)(%s));' % (e, e))
    return '\n'.join(out) + '\nint main(void) {\n' + '\n'.join(body) + '\n  return 0;\n}\n'


# --------------------------------------------------------------------------

def known_tags(item, env, menv):
    """Predicates over the case for the known defect classes."""
    tags = []
    tree = item['tree']
    try:
        t, cv = cx.evaluate(tree, env)
        if item['ctx'] == 'static':
            bits, signed = [(b, s) for n, b, s in STATIC_TYPES if n == item['type']][0]
            cv = cv & ((1 << bits) - 1)
            if signed and cv >> (bits - 1):
                cv -= 1 << bits
        if cv != cx.math_value_or_none(tree, menv):
            tags.append('typed-arithmetic')
    except cx.Undefined:
        pass
    return tags


def build_ffis(cdef):
    import cffi
    inline = cffi.FFI()
    inline.cdef(cdef)
    src = cffi.FFI()
    src.cdef(cdef)
    src.set_source('_c09_mod', None)
    buf = io.StringIO()
    with contextlib.redirect_stdout(io.StringIO()):
        src.emit_python_code(buf)
    glob = {}
    exec(compile(buf.getvalue(), '<c09 out-of-line module>', 'exec'), glob)
    return inline, glob['ffi']


def observe(ffi, lib, i, item, compiled):
    """[(what, value)] reported by one FFI for item i."""
    c = item['ctx']
    if c == 'array':
        t = ffi.typeof('A%d' % i)
        return [('typeof.length', t.length), ('sizeof', ffi.sizeof('A%d' % i))]
    if c == 'bitfield':
        return [('bitsize', dict(ffi.typeof('struct s%d' % i).fields)['f'].bitsize)]
    name = {'enum': 'E', 'define': 'D', 'static': 'S'}[c] + str(i)
    out = [('lib.' + name, getattr(lib, name))]
    if compiled:
        out.append(('integer_const', ffi.integer_const(name)))
    if c == 'enum':
        out.append(('relements', ffi.typeof('enum e%d' % i).relements[name]))
    return out


def prop(case, ctx):
    import cffi
    pool, items = case['pool'], case['items']
    try:
        env = env_of(pool)
    except cx.Undefined as e:
        raise HarnessError('pool constant with undefined C value: %s' % e)
    menv = math_env(pool)
    # ---- which items are checked
    todo = []
    for i, item in enumerate(items):
        try:
            cx.evaluate(item['tree'], env)
        except cx.Undefined as e:
            ctx.event('left-out:undefined-in-C')          # only reachable through hand-written cases
            continue
        tags = known_tags(item, env, menv)
        cv = cx.evaluate(item['tree'], env)[1]
        lo, hi = {'array': (0, 2 ** 31 - 1), 'bitfield': (1, 32), 'enum': (-2 ** 63, 2 ** 64 - 1)}.get(
            item['ctx'], (cv, cv))
        if not tags and not lo <= cv <= hi:
            ctx.event('left-out:value-unfit-for-context')     # e.g. 'int f : 55' (hand-written cases only)
            continue
        if any(ctx.skip_known(t) for t in tags):
            ctx.event('left-out:known-defect')
            continue
        todo.append((i, item, tags))
    if not todo:
        return
    # ---- the C compiler's values (one gcc run per batch)
    out = cc.compile_and_run(c_program(pool, [it for _, it, _ in todo]), ctx.tmp)
    rows = out.split('\n')
    cvals = {}
    for (i, item, tags), row in zip(todo, rows):
        neg, ull = row.split()
        v = int(ull) - (1 << 64) if neg == '1' else int(ull)
        cvals[i] = v
        # cross-check of the model (harness integrity, not the property)
        t, mv = cx.evaluate(item['tree'], env)
        if item['ctx'] == 'static':
            bits, signed = [(b, s) for n, b, s in STATIC_TYPES if n == item['type']][0]
            mv &= (1 << bits) - 1
            if signed and mv >> (bits - 1):
                mv -= 1 << bits
        if mv != v:
            raise HarnessError('typed model %d != gcc %d for %s (%s)' % (mv, v, cdef_line(i, item), t))
    # ---- cffi, both modes; the whole batch in one cdef, item by item if cffi refuses it
    head = '\n'.join(pool_lines(pool)) + '\n'
    groups = [todo]
    try:
        build_ffis(head + '\n'.join(cdef_line(i, it) for i, it, _ in todo) + '\n')
    except Exception:
        groups = [[t] for t in todo]
    for group in groups:
        cdef = head + '\n'.join(cdef_line(i, it) for i, it, _ in group) + '\n'
        try:
            inline, compiled = build_ffis(cdef)
        except (cffi.CDefError, cffi.FFIError, NotImplementedError) as e:
            if len(group) > 1:
                raise HarnessError('batch cdef fails only as a whole: %s' % e)
            # The statement lists the accepted forms (dec/oct/hex literals with u/l suffixes,
            # character constants, unary + -, the ten binary operators, the five contexts);
            # every generated item is made of these only and has a defined C value.
            ctx.fail('%s: rejected by cdef (%s: %s) although it only uses the listed forms and C computes %d'
                     % (cdef_line(*group[0][:2]), type(e).__name__, str(e).split('\n')[0][:200],
                        cvals[group[0][0]]), cdef=cdef, item=group[0][1])
        lib1, lib2 = inline.dlopen(None), compiled.dlopen(None)
        for i, item, tags in group:
            want = cvals[i]
            line = cdef_line(i, item)
            for mode, ffi, lib, comp in (('in-line', inline, lib1, False), ('out-of-line', compiled, lib2, True)):
                for what, got in observe(ffi, lib, i, item, comp):
                    if got != want or type(got) is not int:
                        ctx.fail('%s: %s FFI reports %s = %r, the C compiler computes %d'
                                 % (line, mode, what, got, want), cdef=cdef, item=item, known_tags=tags)
            tree = item['tree']
            nops = cx.n_operators(tree)
            nontrivial = nops >= 2 or cx.has_nondecimal(tree) or cx.has_negative_intermediate(tree, menv)
            cls = ['ctx:' + item['ctx'], 'operators:%s' % (nops if nops < 4 else '4+')]
            for n in cx.walk(tree):
                if n[0] == 'bin':
                    cls.append('op:' + n[1])
                elif n[0] == 'un':
                    cls.append('op:unary' + n[1])
                elif n[0] == 'ref':
                    cls.append('ref')
                elif n[0] == 'lit':
                    x = n[1]
                    if x[:2] == "'\\":
                        cls.append('lit:char-escape')
                    cls.append('lit:char' if x[0] == "'" else 'lit:hex' if x[:2].lower() == '0x' else
                               'lit:octal' if x[0] == '0' and len(x.rstrip('uUlL')) > 1 else 'lit:decimal')
                    if x[0] != "'" and x[-1] in 'uUlL':
                        cls.append('lit:suffix')
            if want < 0:
                cls.append('value<0')
            elif want >= 2 ** 31:
                cls.append('value>=2**31')
            ctx.note(line, nontrivial, sorted(set(cls)))
