"""C27 -- non-aggregate ctypes are canonical over any history.

Case: a list of operations interpreted against the real backend and a
reference model.  The model gives every object it holds a *structural key*
computed from how the object was requested (never from the object):
  ('prim', name) | ('void',) | ('ptr', K) | ('arr', Kitem, length) |
  ('func', Kresult, (Kargs...), ellipsis) | ('agg', serial)
(struct/union/enum objects are leaves, distinguished by the FFI / call that
created them; array parameters decay to pointers in function keys).
After every step, for all held objects:  key(a) == key(b)  <=>  a is b.

Operations: new_primitive_type / new_void_type / new_pointer_type /
new_array_type / new_function_type on held objects, new structs, typeof(text)
on in-line FFIs, on the ffi of a generated out-of-line module and on a bare
_cffi_backend.FFI(), creating and dropping FFI objects, dropping held
objects, gc.collect(), and the GC-window step: a type P built on a held type
S is put in a garbage cycle together with a finaliser that, *during* the
collection (when the cache's weak reference to P is already cleared but P is
not yet deallocated), rebuilds the same type from S; the rebuilt object must
be the one every later request returns.
"""
import gc, io, contextlib
from hypothesis import strategies as st
from vlib.core import HarnessError, jdump
from vlib import typegen as tg

ID = 'C27'
LEVEL = 'exploration'
TECHNIQUE = 'model-based history checking (operation lists, invariant after every step), Hypothesis'
RULE = ('Hypothesis-generated operation lists (quick 50, thorough 80 steps) over low-level type '
        'constructors, typeof() on several in-line FFIs / a generated module ffi / a bare backend FFI, FFI '
        'creation and drop, drops of held types, gc.collect() and the constructed GC-window step; invariant '
        '"equal structural key <=> same object" over all held objects after every step.  An evaluation is '
        'one history; non-trivial = it contains, for some key, a drop of the last holder, a collection and '
        'a later rebuild of that key (or a GC-window step whose type really died); distinct by the hash of '
        'the operation list.')
LEVEL_TEXT = ('random search over histories: canonical identity of non-aggregate ctypes holds after every '
              'step, including rebuilds after free and rebuilds inside a collection')
LEVEL_NOTE = ('trusted: CPython reference counting / gc semantics (weak references are cleared before '
              'finalisers run), the structural key model in the check; automatic gc is disabled inside a '
              'history so that collections happen only where the history says')
ASSUMPTIONS = ['x86-64 Linux: a single function ABI, so the ABI component of the key is constant',
               'GIL build: histories are single-threaded']
BUDGET = {'quick': 480, 'thorough': 32000}
TIME = {'quick': 12, 'thorough': 800}
STEPS = {'quick': 50, 'thorough': 80}
MIN_PER_SHARD = 10
STEP_BYTES = 40

PRIMS = ['int', 'char', 'unsigned long', 'double', 'short', 'long long', 'signed char', 'float',
         'uint8_t', 'size_t', '_Bool', 'wchar_t', 'long double', 'int32_t']
CONTEXT = {'decls': [
    ['agg', 'struct', 's0', True], ['agg', 'struct', 's1', False], ['agg', 'union', 'u0', True],
    ['enum', 'e0', [['E0_A', 0], ['E0_B', 1]]],
    ['typedef', 't0', ['prim', 'int']], ['typedef', 't1', ['ptr', ['agg', 'struct', 's0']]],
    ['typedef', 't2', ['arr', ['lit', 4, 'd'], ['prim', 'int']]],
    ['typedef', 't3', ['ptr', ['func', ['prim', 'int'], [['prim', 'char'], ['prim', 'long']], False, None]]],
]}
EMPTY = {'decls': []}


# --------------------------------------------------------------------------
# generation

def gen_ops(R, nsteps):
    info_full, info_empty = tg.Info(CONTEXT), tg.Info(EMPTY)
    info_full.allow_file = info_empty.allow_file = False
    ops = []
    for _ in range(nsteps):
        c = R.below(24)
        if c <= 1:
            ops.append(['prim', R.below(len(PRIMS))])
        elif c == 2:
            ops.append(['void'])
        elif c <= 5:
            ops.append(['ptr', R.below(64)])
        elif c <= 7:
            ops.append(['arr', R.below(64), R.choice([None, 0, 1, 2, 3, 4, 7])])
        elif c <= 9:
            ops.append(['func', R.below(64), [R.below(64) for _ in range(R.below(4))], R.chance(1, 3)])
        elif c == 10:
            ops.append(['struct', R.chance(1, 2)])
        elif c <= 14:
            which = R.below(8)
            info = info_full if R.chance(3, 4) else info_empty
            tree = tg.gen_tree(R, info, R.choice([0, 1, 1, 2, 2, 3]), want='object')
            ops.append(['typeof', which, tree, info is info_full])
        elif c == 15:
            ops.append(['ffi', R.choice(['inline', 'ool', 'ool', 'bare'])])
        elif c == 16:
            ops.append(['dropffi', R.below(8)])
        elif c <= 19:
            ops.append(['drop', R.below(64)])
        elif c == 20:
            ops.append(['dropmany', R.below(64), R.below(64)])
        elif c <= 22:
            ops.append(['gc'])
        else:
            ops.append(['window', R.below(64), R.choice(['ptr', 'ptr', 'arr', 'func', 'funcarg']), R.below(5)])
    return ops


def strategy(ctx):
    n = STEPS[ctx.tier]
    return st.lists(st.binary(min_size=STEP_BYTES, max_size=STEP_BYTES), min_size=n // 2, max_size=n).map(
        lambda chunks: {'ops': [op for ch in chunks for op in gen_ops(tg.BytesR(ch), 1)]})


# --------------------------------------------------------------------------
# the machine

class Finaliser(object):
    """Lives in a garbage cycle with the type under test; rebuilds the type
    while the collection is in progress."""
    def __init__(self, base, victim, rebuild, box):
        self.base, self.victim, self.rebuild, self.box = base, victim, rebuild, box
        self.me = self

    def __del__(self):
        try:
            self.box.append(self.rebuild(self.base))
        except BaseException as e:        # reported by the step that planted the finaliser
            self.box.append(e)


_ool_source = []


def ool_source():
    if not _ool_source:
        import cffi
        f = cffi.FFI()
        f.cdef(tg.cdef_of(CONTEXT))
        f.set_source('_c27_mod', None)
        buf = io.StringIO()
        with contextlib.redirect_stdout(io.StringIO()):
            f.emit_python_code(buf)
        _ool_source.append(compile(buf.getvalue(), '<c27 out-of-line module>', 'exec'))
    return _ool_source[0]


def tkey(desc, ffiserial):
    """typegen descriptor -> structural key."""
    k = desc[0]
    if k == 'prim':
        return ('prim', desc[1])
    if k == 'void':
        return ('void',)
    if k in ('struct', 'union', 'enum'):
        return ('agg', 'ffi%d:%s' % (ffiserial, desc[1]))
    if k == 'ptr':
        return ('ptr', tkey(desc[1], ffiserial))
    if k == 'arr':
        return ('arr', tkey(desc[2], ffiserial), desc[1])
    if k == 'func':
        return ('func', tkey(desc[1], ffiserial), tuple(tkey(a, ffiserial) for a in desc[2]), bool(desc[3]))
    raise ValueError(desc)


class Machine(object):
    def __init__(self, ctx):
        import _cffi_backend as B
        self.B = B
        self.ctx = ctx
        self.pool = []           # [key, ctype]
        self.ffis = []           # [serial, kind, ffi]
        self.serial = 0
        self.dropped = {}        # key -> 'dropped' | 'collected'   (no holder left in the pool)
        self.nontrivial = False
        self.info_full, self.info_empty = tg.Info(CONTEXT), tg.Info(EMPTY)

    # ---- helpers
    def pick(self, i):
        return self.pool[i % len(self.pool)] if self.pool else None

    def hold(self, key, obj):
        if self.dropped.pop(key, None) == 'collected':
            self.nontrivial = True
            self.ctx.event('rebuild-after-drop+collect')
        self.pool.append([key, obj])

    def forget(self, idx):
        key, obj = self.pool.pop(idx)
        if not any(k == key for k, _ in self.pool):
            self.dropped[key] = 'dropped'

    def new_ffi(self, kind):
        import cffi
        self.serial += 1
        if kind == 'inline':
            f = cffi.FFI()
            f.cdef(tg.cdef_of(CONTEXT))
        elif kind == 'ool':
            glob = {}
            exec(ool_source(), glob)
            f = glob['ffi']
        else:
            f = self.B.FFI()
        self.ffis.append([self.serial, kind, f])
        if len(self.ffis) > 5:
            del self.ffis[0]

    def construct(self, how, key, obj, extra=0):
        """(key, thunk) for a derived type of obj; the thunk may raise for what C forbids."""
        B = self.B
        if how == 'ptr':
            return ('ptr', key), lambda o: B.new_pointer_type(o)
        if how == 'arr':
            n = [None, 0, 2, 3, 5][extra % 5]
            return ('arr', key, n), lambda o: B.new_array_type(B.new_pointer_type(o), n)
        if how == 'func':
            if extra & 1:       # T (*)(T *, ...)
                return ('func', key, (('ptr', key),), True), \
                    lambda o: B.new_function_type((B.new_pointer_type(o),), o, True)
            return ('func', key, (), False), lambda o: B.new_function_type((), o, False)
        if how == 'funcarg':
            return ('func', ('void',), (('ptr', key),), False), \
                lambda o: B.new_function_type((B.new_pointer_type(o),), B.new_void_type(), False)
        raise ValueError(how)

    _ERRORS = (TypeError, ValueError, OverflowError, NotImplementedError)

    # ---- one step
    def step(self, op):
        B, ctx = self.B, self.ctx
        k = op[0]
        ctx.event('op:' + k)
        if k == 'prim':
            name = PRIMS[op[1]]
            self.hold(('prim', name), B.new_primitive_type(name))
        elif k == 'void':
            self.hold(('void',), B.new_void_type())
        elif k == 'struct':
            self.serial += 1
            s = B.new_struct_type('struct z%d' % self.serial)
            if op[1]:
                B.complete_struct_or_union(s, [('a', B.new_primitive_type('int'), -1)])
            self.hold(('agg', 'z%d' % self.serial), s)
        elif k in ('ptr', 'arr', 'func'):
            e = self.pick(op[1])
            if e is None:
                return
            try:
                if k == 'ptr':
                    self.hold(('ptr', e[0]), B.new_pointer_type(e[1]))
                elif k == 'arr':
                    self.hold(('arr', e[0], op[2]), B.new_array_type(B.new_pointer_type(e[1]), op[2]))
                else:
                    args = [self.pick(i) for i in op[2]]
                    akeys = tuple(('ptr', a[0][1]) if a[0][0] == 'arr' else a[0] for a in args)
                    f = B.new_function_type(tuple(a[1] for a in args), e[1], bool(op[3]))
                    self.hold(('func', e[0], akeys, bool(op[3])), f)
            except self._ERRORS:
                ctx.event('constructor-refused')
        elif k == 'typeof':
            if not self.ffis:
                self.new_ffi('inline')
            serial, kind, f = self.ffis[op[1] % len(self.ffis)]
            info = self.info_full if op[3] else self.info_empty
            if op[3] and kind == 'bare':
                return
            try:
                desc = tg.describe_tree(op[2], info)
            except tg.Invalid:
                return
            s = ' '.join(tg.canonical_tokens(op[2]))
            try:
                t = f.typeof(s)
            except Exception as e:
                if isinstance(e, (SystemError, MemoryError)):
                    raise
                ctx.event('typeof-refused')       # parser agreement / acceptance is C07's subject
                return
            ctx.event('typeof:' + kind)
            self.hold(tkey(desc, serial), t)
        elif k == 'ffi':
            self.new_ffi(op[1])
        elif k == 'dropffi':
            if self.ffis:
                del self.ffis[op[1] % len(self.ffis)]
        elif k == 'drop':
            if self.pool:
                self.forget(op[1] % len(self.pool))
        elif k == 'dropmany':
            if self.pool:
                a, b = sorted((op[1] % len(self.pool), op[2] % len(self.pool)))
                for idx in range(b, a - 1, -1):
                    self.forget(idx)
        elif k == 'gc':
            gc.collect()
            for key in self.dropped:
                self.dropped[key] = 'collected'
        elif k == 'window':
            e = self.pick(op[1])
            if e is None:
                return
            key, build = self.construct(op[2], e[0], e[1], op[3])
            try:
                victim = build(e[1])
            except self._ERRORS:
                ctx.event('constructor-refused')
                return
            held_elsewhere = any(o is victim for _, o in self.pool)
            box = []
            Finaliser(e[1], victim, build, box)
            del victim
            gc.collect()
            if len(box) != 1:
                raise HarnessError('the finaliser of the GC-window step ran %d times' % len(box))
            if isinstance(box[0], BaseException):
                ctx.fail('rebuilding %r inside the collection raised %s: %s'
                         % (key, type(box[0]).__name__, box[0]))
            again = build(e[1])
            if again is not box[0]:
                ctx.fail('type %r rebuilt during a collection (while its previous ctype object was dead but '
                         'not yet deallocated) is not the object returned by the next request: %r vs %r'
                         % (again.cname, box[0], again), key=repr(key))
            if not held_elsewhere:
                self.nontrivial = True
                ctx.event('window:type-really-died')
            self.hold(key, box[0])
            for kk in self.dropped:
                self.dropped[kk] = 'collected'
        else:
            raise ValueError(op)

    # ---- invariant
    def check(self, op):
        """key(a) == key(b) <=> a is b, over the held objects and the live
        objects they are built from (item, result, argument types)."""
        bykey, byid = {}, {}
        todo = [(key, obj) for key, obj in self.pool]
        while todo:
            key, obj = todo.pop()
            other = bykey.setdefault(key, obj)
            if other is not obj:
                self.ctx.fail('two live ctype objects describe the same C type %r but are distinct objects '
                              '(ids %#x, %#x)' % (obj.cname, id(other), id(obj)), key=repr(key), after=op)
            k2 = byid.setdefault(id(obj), key)
            if k2 != key:
                self.ctx.fail('one ctype object %r stands for two different C types: %r and %r'
                              % (obj.cname, k2, key), after=op)
            if other is obj and k2 == key and key[0] in ('ptr', 'arr', 'func') and (key, id(obj)) not in byid:
                byid[(key, id(obj))] = True
                if key[0] == 'func':
                    todo.append((key[1], obj.result))
                    args = obj.args
                    if len(args) != len(key[2]):
                        self.ctx.fail('function ctype %r has %d arguments, requested %d'
                                      % (obj.cname, len(args), len(key[2])), after=op)
                    todo.extend(zip(key[2], args))
                else:
                    todo.append((key[1], obj.item))


def prop(case, ctx):
    ops = case['ops']
    m = Machine(ctx)
    was_enabled = gc.isenabled()
    gc.disable()
    try:
        for i, op in enumerate(ops):
            m.step(op)
            m.check(op)
    finally:
        del m.pool[:]
        del m.ffis[:]
        if was_enabled:
            gc.enable()
        gc.collect()
    ctx.note(ops, m.nontrivial, ['history', 'nontrivial-history' if m.nontrivial else 'plain-history',
                                 'steps=%d' % (len(ops) // 10 * 10)])


# --------------------------------------------------------------------------
# pre(): shape sweep.  Arrays of every "round" length, pointers and function types of 0-2 arguments over
# the same few item types are built and all kept alive together: distinct C types must be distinct ctype
# objects with distinct names (the unique-type keys of the different kinds share one cache, so a key of one
# kind must never read like a key of another kind -- whatever numbers happen to be packed into it).

def pre(ctx):
    import _cffi_backend as B
    lengths = [None] + list(range(0, 10))
    for k in range(4, 41):
        lengths += [2 ** k - 1, 2 ** k, 2 ** k + 1]
    made = {}
    abis = range(0, 8)

    def put(key, obj):
        made[key] = obj

    for name in ('char', 'int', 'double', 'unsigned long'):
        T = B.new_primitive_type(name)
        TP = B.new_pointer_type(T)
        TPP = B.new_pointer_type(TP)
        V = B.new_void_type()
        put(('prim', name), T)
        put(('ptr', name), TP)
        put(('ptrptr', name), TPP)
        size = B.sizeof(T)
        for item, iname, isz in ((T, name, size), (TP, name + '*', 8)):
            IP = B.new_pointer_type(item)
            for n in lengths:
                if n is not None and n * isz >= 2 ** 63:
                    continue
                put(('arr', iname, n), B.new_array_type(IP, n))
        for res, rname in ((T, name), (TP, name + '*'), (TPP, name + '**'), (V, 'void')):
            for args, aname in (((), '()'), ((T,), '(T)'), ((TP,), '(T*)'), ((T, T), '(T,T)'), ((TP, T), '(T*,T)')):
                for ell in (False, True):
                    put(('func', rname, aname.replace('T', name), ell), B.new_function_type(args, res, ell))
                    # the calling convention is part of the C type: every ABI number libffi accepts here
                    # (x86-64: unix64, win64, gnuw64) gives its own ctype, distinct from the variadic /
                    # non-variadic twin under every other ABI
                    for abi in abis:
                        try:
                            f = B.new_function_type(args, res, ell, abi)
                        except SystemError:     # "libffi failed to build this function type"
                            continue
                        if abi == B.FFI_DEFAULT_ABI:
                            if f is not made[('func', rname, aname.replace('T', name), ell)]:
                                ctx.fail('function type %r built with the explicit default ABI is another object '
                                         'than the one built without abi argument' % (f,), sweep=True)
                            continue
                        put(('func', rname, aname.replace('T', name), ell, abi), f)
    by_id, by_name = {}, {}
    for key, obj in made.items():
        other = by_id.setdefault(id(obj), key)
        if other != key:
            ctx.fail('one ctype object %r stands for two different C types: %r and %r' % (obj, other, key),
                     sweep=True)
        if key[0] == 'func':
            want = (key[3], key[4] if len(key) > 4 else B.FFI_DEFAULT_ABI)
            if (obj.ellipsis, obj.abi) != want:
                ctx.fail('function type %r requested with (ellipsis, abi) = %r reports %r'
                         % (key, want, (obj.ellipsis, obj.abi)), sweep=True)
        if len(key) > 4:        # a non-default ABI does not show in the name on this platform
            continue
        other = by_name.setdefault(obj.cname, key)
        if other != key:
            ctx.fail('two different C types have the same name %r: %r and %r' % (obj.cname, other, key), sweep=True)
        want_kind = {'prim': 'primitive', 'ptr': 'pointer', 'ptrptr': 'pointer', 'arr': 'array', 'func': 'function'}[key[0]]
        if obj.kind != want_kind:
            ctx.fail('%r requested as a %s type is %r (kind %s)' % (key, want_kind, obj, obj.kind), sweep=True)
        if key[0] == 'arr' and obj.length != key[2]:
            ctx.fail('array type %r has length %r' % (key, obj.length), sweep=True)
    ctx.extra['shape_sweep_types'] = len(made)
    ctx.note(['shape-sweep', len(made)], True, ['shape-sweep'])
