"""C21 -- ownership, destructors and handles behave correctly over any history.

Case: {'flavour': 0|1, 'ops': [[name, a, b, c], ...]}.  The op list is interpreted
against real cffi objects held in NSLOTS harness variables ("slots") and against
a reference model: a graph of nodes (one per real object) with the strong
references cffi is specified to hold as edges, the slots as roots, and a
simulation of CPython's reclamation (reference counts cascade immediately;
what is only reachable from a cycle waits for the next gc.collect(); the cyclic
collector is disabled while a history runs, so that this is exact).  After every
step the observable facts named by the property are compared with the model:

 * calls of every ffi.gc() destructor / allocator free function (exact count),
 * BufferError on resizing a from_buffer() source  <=>  an unreleased live view,
 * the source object is alive (weakref) while such a view exists, and gone once
   nothing in the model refers to it any more,
 * content of ffi.new() memory read through every p / p[0] still held,
 * ffi.from_handle(h) is the object given to new_handle(); live handles have
   pairwise distinct addresses.

flavour 0 = cffi.api.FFI (in-line), 1 = _cffi_backend.FFI of an out-of-line module
(ffi_obj.c entry points).
"""
import gc, weakref, os, io, contextlib
from hypothesis import strategies as st
from vlib.core import Violation, HarnessError
from vlib import cc

ID = 'C21'
LEVEL = 'exploration'
CRASHY = True
ASAN_TIERS = ('thorough',)
RULE = ('Hypothesis-generated operation lists (18 op kinds: new/alias p[0]/copy/ffi.gc/gc(None)/'
        'release/with/drop/gc.collect/new_allocator allocations with Python and C alloc+free/'
        'from_buffer/resize/boxes and attribute references that close cycles/destructors that raise/new_handle/'
        'from_handle/write) over 8 variables, run against cffi.FFI and the compiled FFI object and '
        'against a reference-graph model with refcount+cycle reclamation; invariant after every '
        'step.  One evaluation = one history.  Non-trivial = the history contains a release '
        'followed by the collection of the released object, or gc(x, None) on an aliased wrapper, '
        'or a gc.collect() that reclaimed a reference cycle; distinct by op-list hash.')
TECHNIQUE = 'model-based history testing (ownership/finalisation reference model), ASan backend in thorough tier'
LEVEL_TEXT = ('Random create/alias/release/drop/collect histories agree at every step with an executable '
              'ownership model on destructor/free call counts, export locks, keep-alive, memory content '
              'and handle identity; no proof beyond the sampled histories.')
LEVEL_NOTE = ('Trusted: the reference model (edges cffi is specified to hold), CPython refcount/cyclic-GC '
              'semantics with gc disabled between explicit collections, weakrefs as liveness probe; '
              'premature frees are only guaranteed to be seen under the ASan tier.')
ASSUMPTIONS = ['CPython 3.12 reclamation: refcount zero frees immediately, cycles at gc.collect() (automatic GC disabled during a history)',
               'ffi.gc(x, None) is applied only to ffi.gc() wrappers, never to new_allocator() results',
               'destructors do not resurrect or retain their argument',
               'no from_handle() on dead handles, no memory access through released wrappers (undefined by contract)']
BUDGET = {'quick': 640, 'thorough': 12800}
STEPS = {'quick': 40, 'thorough': 80}
TIME = {'quick': 20, 'thorough': 600}
MIN_PER_SHARD = 160     # 4 shards in the quick tier (process start-up dominates), 16 in thorough

NSLOTS = 8

CDEF = """
struct s { int a; long b; char c[8]; };
union u { struct { int a; long b; char c[8]; }; double pad[4]; };
void c21_reset(void);
void *c21_alloc(size_t n);
void c21_free(void *p);
int c21_nalloc(void);
int c21_freecount(int k);
int c21_badfree(void);
"""

CSRC = r"""
#include <stddef.h>
#include <string.h>
#define N 8192
static char arena[N][64] __attribute__((aligned(16)));
static int nalloc, badfree;
static int freecount[N];
void c21_reset(void) { nalloc = 0; badfree = 0; memset(freecount, 0, sizeof freecount); }
void *c21_alloc(size_t n) { if (n > 64 || nalloc >= N) return 0; memset(arena[nalloc], 0x5a, 64); return arena[nalloc++]; }
void c21_free(void *p) {
    ptrdiff_t d = (char *)p - (char *)arena;
    if (d < 0 || d % 64 || d / 64 >= nalloc) { badfree++; return; }
    freecount[d / 64]++;
}
int c21_nalloc(void) { return nalloc; }
int c21_freecount(int k) { return freecount[k]; }
int c21_badfree(void) { return badfree; }
"""


def setup(ctx):
    import cffi
    so = cc.compile_shared(CSRC, ctx.tmp, stem='c21lib')
    ffi1 = cffi.FFI()
    ffi1.cdef(CDEF)
    lib1 = ffi1.dlopen(so)
    ffiG = cffi.FFI()
    ffiG.cdef(CDEF)
    ffiG.set_source('_c21_ool', None)
    path = os.path.join(ctx.tmp, '_c21_ool_%d.py' % os.getpid())
    with contextlib.redirect_stdout(io.StringIO()):
        ffiG.emit_python_code(path)
    ns = {}
    with open(path) as f:
        exec(compile(f.read(), path, 'exec'), ns)
    ffi2 = ns['ffi']
    lib2 = ffi2.dlopen(so)
    if type(ffi2).__module__ != '_cffi_backend':
        raise HarnessError('out-of-line ffi is not the compiled FFI object')
    return {'ffis': [ffi1, ffi2], 'libs': [lib1, lib2]}


# ---------------------------------------------------------------- strategy

OPS = (['new'] * 3 + ['deref'] * 4 + ['copy'] * 4 + ['gc'] * 7 + ['gcnone'] * 3 + ['release'] * 7 +
       ['drop'] * 9 + ['collect'] * 4 + ['alloc'] * 4 + ['src'] * 1 + ['frombuf'] * 4 + ['resize'] * 2 +
       ['box'] * 1 + ['boxadd'] * 5 + ['boxpop'] * 1 + ['setref'] * 2 + ['handle'] * 3 +
       ['fromhandle'] * 1 + ['write'] * 2)


def strategy(ctx):
    small = st.integers(0, 15)
    op = st.tuples(st.sampled_from(OPS), small, small, small).map(list)
    top = STEPS[ctx.tier]
    # st.lists(min_size=1) averages ~6 elements; draw the minimum length first to get long histories too
    ops = st.sampled_from([1, 8, top // 2, top - 5]).flatmap(
        lambda m: st.lists(op, min_size=m, max_size=top))
    return st.fixed_dictionaries({'flavour': st.integers(0, 1), 'ops': ops})


# ---------------------------------------------------------------- model

class Node(object):
    __slots__ = ('nid', 'kind', 'out', 'alive', 'active', 'released', 'exports', 'content',
                 'ever_released', 'callkey', 'target', 'via_deref')

    def __init__(self, nid, kind):
        self.nid = nid
        self.kind = kind
        self.out = []           # [label, target nid]
        self.alive = True
        self.active = False     # destructor / free function still armed
        self.released = False   # explicit release happened (gc / abox / fb)
        self.exports = 0        # src: number of unreleased live views
        self.content = None     # mem / arr: last written value
        self.callkey = None     # where calls of the destructor are counted
        self.target = None      # handle: nid of the object given to new_handle
        self.via_deref = False


class Box(object):
    """Plain Python container used to close reference cycles."""
    def __init__(self):
        self.refs = []


class Src(bytearray):
    """Weak-referenceable, attribute-carrying buffer owner."""


CDATA_KINDS = ('ptr', 'mem', 'arr', 'gc', 'abox', 'aptr', 'fb', 'handle')
RELEASABLE = ('ptr', 'arr', 'gc', 'abox', 'aptr', 'fb')


class History(object):
    def __init__(self, ffi, lib, ctx):
        self.ffi = ffi
        self.lib = lib
        self.ctx = ctx
        self.slots = [None] * NSLOTS      # real objects
        self.ms = [None] * NSLOTS         # model: nid or None
        self.nodes = []
        self.wr = []                      # nid -> weakref to the real object
        self.calls = {}                   # callkey -> observed destructor/free calls
        self.expect = {}                  # callkey -> expected
        self.raws = []                    # results of the Python alloc function (kept: addresses stay unique)
        self.addr2key = {}
        self.astate = {'pending': None, 'unknown_free': 0}
        self.ckeys = {}                   # arena index -> callkey (C allocator)
        self.flags = set()
        self.released_nids = set()
        self.step = -1
        self.allocators = {}
        lib.c21_reset()

    # ---- model helpers
    def node(self, kind, real):
        n = Node(len(self.nodes), kind)
        self.nodes.append(n)
        self.wr.append(weakref.ref(real) if real is not None else None)
        return n

    def pick(self, kinds, sel):
        c = [i for i in range(NSLOTS) if self.ms[i] is not None and self.nodes[self.ms[i]].kind in kinds]
        if not c:
            return None
        return c[sel % len(c)]

    def need(self, kinds, sel):
        """like pick, but creates an object of a suitable kind when there is none"""
        i = self.pick(kinds, sel)
        if i is not None:
            return i
        free = [k for k in range(NSLOTS) if self.ms[k] is None]
        dst = free[0] if free else sel % NSLOTS
        self.ctx.event('op:auto-create')
        if kinds == ('gc',):
            self.op_gc(dst, sel, 0)
        elif kinds == ('src',):
            self.op_src(dst, sel, 0)
        elif kinds == ('box',):
            self.op_box(dst, 0, 0)
        elif kinds == ('handle',):
            self.op_handle(dst, sel, 0)
        elif kinds == ('ptr', 'aptr'):
            self.op_new(dst, 0, sel)
        else:
            self.op_new(dst, sel, sel)
        return self.pick(kinds, sel)

    def kill(self, n):
        n.alive = False
        if n.kind in ('gc', 'abox') and n.active:
            n.active = False
            self.expect[n.callkey] += 1
        if n.kind == 'fb' and not n.released:
            self.nodes[n.out[0][1]].exports -= 1
        if n.nid in self.released_nids:
            self.flags.add('release-then-collect')
        n.out = []

    def settle(self):
        """reference counting: free what nothing refers to, cascading"""
        while True:
            indeg = {}
            for r in self.ms:
                if r is not None:
                    indeg[r] = indeg.get(r, 0) + 1
            for n in self.nodes:
                if n.alive:
                    for _, t in n.out:
                        indeg[t] = indeg.get(t, 0) + 1
            dead = [n for n in self.nodes if n.alive and not indeg.get(n.nid)]
            if not dead:
                return
            for n in dead:
                self.kill(n)

    def collect_model(self):
        seen = set()
        todo = [r for r in self.ms if r is not None]
        while todo:
            x = todo.pop()
            if x in seen:
                continue
            seen.add(x)
            todo.extend(t for _, t in self.nodes[x].out)
        garbage = [n for n in self.nodes if n.alive and n.nid not in seen]
        for n in garbage:
            if n.kind in ('gc', 'abox') and n.active:
                self.flags.add('destructor-run-by-cyclic-gc')
            self.kill(n)
        if garbage:
            self.flags.add('cycle-collected')

    def indegree(self, nid):
        k = sum(1 for r in self.ms if r == nid)
        for n in self.nodes:
            if n.alive:
                k += sum(1 for _, t in n.out if t == nid)
        return k

    def put(self, dst, real, n):
        dst %= NSLOTS
        self.slots[dst] = real
        self.ms[dst] = n.nid if n is not None else None
        self.settle()

    # ---- destructors
    def counter(self, key, box=None):
        calls = self.calls
        calls[key] = 0
        self.expect[key] = 0
        if box == 'raise':
            def destructor(*args):     # any invocation counts, whatever it is given
                calls[key] += 1
                raise ValueError('destructor %r fails (after being counted)' % (key,))
        elif box is None:
            def destructor(*args):     # any invocation counts, whatever it is given
                calls[key] += 1
        else:
            def destructor(*args):     # any invocation counts, whatever it is given
                calls[key] += 1
                box             # closes over the box: wrapper -> destructor -> box
        return destructor

    def allocator(self, akind):
        """akind: 0 py/clear 1 py/noclear 2 C/clear 3 C/noclear 4 py alloc, no free"""
        if akind in self.allocators:
            return self.allocators[akind]
        ffi = self.ffi
        # the functions must not refer to the History (they are referenced by every allocation)
        raws, addr2key, astate, calls = self.raws, self.addr2key, self.astate, self.calls

        def py_alloc(size):
            raw = ffi.new('char[]', max(size, 1))
            raws.append(raw)
            addr2key[int(ffi.cast('uintptr_t', raw))] = astate['pending']
            return raw

        def py_free(*args):
            key = addr2key.get(int(ffi.cast('uintptr_t', args[0]))) if len(args) == 1 else None
            if key is None:
                astate['unknown_free'] += 1
            else:
                calls[key] += 1
        if akind == 0:
            a = ffi.new_allocator(py_alloc, py_free)
        elif akind == 1:
            a = ffi.new_allocator(py_alloc, py_free, should_clear_after_alloc=False)
        elif akind == 2:
            a = ffi.new_allocator(self.lib.c21_alloc, self.lib.c21_free)
        elif akind == 3:
            a = ffi.new_allocator(alloc=self.lib.c21_alloc, free=self.lib.c21_free,
                                  should_clear_after_alloc=False)
        else:
            a = ffi.new_allocator(py_alloc, None)
        self.allocators[akind] = a
        return a

    # ---- memory content
    def write_mem(self, real, n, v):
        if n.kind in ('ptr', 'mem'):
            m = self.nodes[n.out[0][1]] if n.kind == 'ptr' else n
            real.a = v
            real.b = v * 1000003 + 7
            real.c = bytes([(v + i) & 0xff for i in range(8)])
            m.content = v
        else:
            k = n.content[0]
            for i in range(k):
                real[i] = v + i
            n.content = [k, v]

    def read_mem(self, real, n):
        if n.kind in ('ptr', 'mem'):
            m = self.nodes[n.out[0][1]] if n.kind == 'ptr' else n
            v = m.content
            got = (real.a, real.b, bytes(self.ffi.buffer(real.c)))
            want = (v, v * 1000003 + 7, bytes([(v + i) & 0xff for i in range(8)]))
        else:
            k, v = n.content
            got = [real[i] for i in range(k)]
            want = [v + i for i in range(k)]
        if got != want:
            self.ctx.fail('memory of ffi.new() object read through a live reference changed: '
                          'got %r, last written %r' % (got, want), step=self.step, kind=n.kind)

    # ---- operations; each returns a class label or None when not applicable
    def op_new(self, dst, ty, v):
        ffi = self.ffi
        ty %= 4
        v = 1 + v * 37
        if ty in (0, 2):
            new = ffi.new if ty == 0 else self.allocator_default()
            # a union is owned through its pointer exactly like a struct
            p = new('union u *' if v % 3 == 0 else 'struct s *')
            m = self.node('mem', p[0])
            n = self.node('ptr', p)
            n.out.append(['structobj', m.nid])
            self.write_mem(p, n, v)
        else:
            k = 1 + v % 5
            new = ffi.new if ty == 1 else self.allocator_default()
            p = new('int[]', k) if ty == 1 else new('int[%d]' % k)
            n = self.node('arr', p)
            n.content = [k, 0]
            self.write_mem(p, n, v)
        self.put(dst, p, n)
        return 'new'

    def allocator_default(self):
        if 'default' not in self.allocators:
            self.allocators['default'] = self.ffi.new_allocator(should_clear_after_alloc=False)
        return self.allocators['default']

    def op_deref(self, dst, sel, _):
        i = self.need(('ptr', 'aptr'), sel)
        if i is None:
            return None
        n = self.nodes[self.ms[i]]
        t = self.nodes[n.out[0][1]]
        self.put(dst, self.slots[i][0], t)
        t.via_deref = True
        return 'deref-' + t.kind

    def op_copy(self, dst, sel, _):
        i = self.pick(CDATA_KINDS + ('src', 'box'), sel)
        if i is None or i == dst % NSLOTS:
            return None
        self.put(dst, self.slots[i], self.nodes[self.ms[i]])
        return 'copy'

    def op_gc(self, dst, sel, b):
        i = self.need(CDATA_KINDS, sel)
        if i is None:
            return None
        orig = self.nodes[self.ms[i]]
        j = self.pick(('box',), b // 4) if b % 4 == 1 else None
        n = self.node('gc', None)
        n.callkey = ('gc', n.nid)
        n.active = True
        n.out.append(['origobj', orig.nid])
        if j is not None:
            n.out.append(['destructor', self.ms[j]])
            w = self.ffi.gc(self.slots[i], self.counter(n.callkey, self.slots[j]))
        elif b % 4 == 3:
            w = self.ffi.gc(self.slots[i], self.counter(n.callkey, 'raise'))
        else:
            w = self.ffi.gc(self.slots[i], self.counter(n.callkey))
        self.wr[n.nid] = weakref.ref(w)
        self.put(dst, w, n)
        del w
        lab = ['gc-of-' + {'gc': 'gc', 'abox': 'alloc', 'aptr': 'alloc', 'fb': 'fb', 'handle': 'handle'}.get(orig.kind, 'new')]
        if j is not None:
            lab.append('destructor-refers-to-box')
        elif b % 4 == 3:
            lab.append('destructor-raises')
        return lab

    def op_gcnone(self, sel, _, __):
        i = self.need(('gc',), sel)
        if i is None:
            return None
        n = self.nodes[self.ms[i]]
        lab = ['gcnone']
        orig = [t for l, t in n.out if l == 'origobj']
        if self.indegree(n.nid) >= 2 or (orig and self.nodes[orig[0]].via_deref):
            self.flags.add('gcnone-after-alias')
        if n.released:
            lab.append('gcnone-after-release')
        self.ffi.gc(self.slots[i], None)
        n.active = False
        n.out = [e for e in n.out if e[0] != 'destructor']
        self.settle()
        return lab

    def release_model(self, n):
        lab = []
        if n.kind == 'aptr':
            n = self.nodes[n.out[0][1]]
        if n.kind in ('gc', 'abox'):
            if n.released:
                lab.append('double-release')
            elif n.kind == 'gc' and not n.active:
                lab.append('release-after-gcnone')
            if n.active:
                n.active = False
                self.expect[n.callkey] += 1
            n.released = True
            n.out = []
            self.released_nids.add(n.nid)
        elif n.kind == 'fb':
            if n.released:
                lab.append('double-release')
            else:
                n.released = True
                self.nodes[n.out[0][1]].exports -= 1
                n.out = []
            self.released_nids.add(n.nid)
        return lab

    def op_release(self, sel, how, _):
        i = self.need(RELEASABLE, sel)
        if i is None:
            return None
        n = self.nodes[self.ms[i]]
        if how % 3 == 2:
            with self.slots[i] as x:
                if x is not self.slots[i]:
                    self.ctx.fail('__enter__ did not return the cdata itself', step=self.step)
                del x
            lab = ['with', 'release-' + n.kind]
        else:
            self.ffi.release(self.slots[i])
            lab = ['release-' + n.kind]
        lab += self.release_model(n)
        self.settle()
        return lab

    def op_drop(self, sel, _, __):
        i = self.pick(CDATA_KINDS + ('src', 'box'), sel)
        if i is None:
            return None
        self.put(i, None, None)
        return 'drop'

    def op_collect(self, _, __, ___):
        gc.collect()
        self.collect_model()
        return 'gc.collect'

    def op_alloc(self, dst, akind, ty):
        ffi = self.ffi
        akind %= 5
        ty %= 4
        a = self.allocator(akind)
        n = self.node('abox', None)
        n.active = akind != 4
        if akind in (2, 3):
            k = self.lib.c21_nalloc()
            n.callkey = ('c', k)
            self.calls[n.callkey] = 0       # refreshed from the C side in check()
            self.ckeys[k] = n.callkey
        else:
            n.callkey = ('py', n.nid)
            self.calls[n.callkey] = 0
        self.expect[n.callkey] = 0
        self.astate['pending'] = n.callkey
        cdecl = ['union u *' if n.nid % 3 == 0 else 'struct s *', 'int[3]', 'int *', 'char[]'][ty]
        p = a(cdecl, 5) if ty == 3 else a(cdecl)
        self.astate['pending'] = None
        if ty == 0:
            self.wr[n.nid] = weakref.ref(p[0])
            top = self.node('aptr', p)
            top.out.append(['structobj', n.nid])
        else:
            self.wr[n.nid] = weakref.ref(p)
            top = n
        self.put(dst, p, top)
        del p
        return ['alloc-' + ('py', 'py', 'c', 'c', 'py-nofree')[akind], 'alloc-struct' if ty == 0 else 'alloc-nonstruct']

    def op_src(self, dst, k, _):
        s = Src(bytes(range(8 * (1 + k % 3))))
        n = self.node('src', s)
        self.put(dst, s, n)
        return 'src'

    def op_frombuf(self, dst, sel, ty):
        i = self.need(('src',), sel)
        if i is None:
            return None
        s = self.nodes[self.ms[i]]
        ty %= 7
        if ty >= 5:
            # a call that is refused (fixed-size array type larger than the source): no view comes into
            # being, so the source must be neither locked nor kept alive by it
            try:
                f = self.ffi.from_buffer(('char[4096]', 'long[1000]')[ty - 5], self.slots[i])
            except ValueError:
                return 'from_buffer-refused'
            self.ctx.fail('from_buffer() of a fixed-size array type larger than the source was accepted: %r' % (f,),
                          step=self.step)
        if ty == 0:
            f = self.ffi.from_buffer(self.slots[i])
        elif ty == 1:
            f = self.ffi.from_buffer('char[]', self.slots[i], require_writable=True)
        elif ty == 2:
            f = self.ffi.from_buffer('int[]', self.slots[i])
        elif ty == 3:
            f = self.ffi.from_buffer('long *', self.slots[i])
        else:
            f = self.ffi.from_buffer('unsigned char[8]', self.slots[i])
        n = self.node('fb', f)
        n.out.append(['view', s.nid])
        s.exports += 1
        self.put(dst, f, n)
        del f
        return 'from_buffer'

    def op_resize(self, sel, grow, _):
        i = self.need(('src',), sel)
        if i is None:
            return None
        s = self.nodes[self.ms[i]]
        real = self.slots[i]
        try:
            if grow % 2 or len(real) <= 8:
                real.extend(b'\x07' * 8)
            else:
                del real[-8:]
        except BufferError:
            if s.exports == 0:
                self.ctx.fail('resizing the source raises BufferError although every from_buffer() '
                              'view of it was released or collected', step=self.step)
            return 'resize-locked'
        if s.exports > 0:
            self.ctx.fail('source of an unreleased live from_buffer() view could be resized',
                          step=self.step, exports=s.exports)
        if self.released_nids:
            return 'resize-ok-after-release'
        return 'resize-ok'

    def op_box(self, dst, _, __):
        b = Box()
        self.put(dst, b, self.node('box', b))
        return 'box'

    def op_boxadd(self, bsel, sel, _):
        self.need(('box',), bsel)
        self.need(CDATA_KINDS, sel)
        j = self.pick(('box',), bsel)
        i = self.pick(CDATA_KINDS + ('src', 'box'), sel)
        if i is None or j is None:
            return None
        self.slots[j].refs.append(self.slots[i])
        self.nodes[self.ms[j]].out.append(['ref', self.ms[i]])
        return 'box-add'

    def op_boxpop(self, bsel, _, __):
        j = self.pick(('box',), bsel)
        if j is None or not self.slots[j].refs:
            return None
        self.slots[j].refs.pop()
        b = self.nodes[self.ms[j]]
        last = max(k for k, e in enumerate(b.out) if e[0] == 'ref')
        del b.out[last]
        self.settle()
        return 'box-pop'

    def op_setref(self, ssel, sel, _):
        self.need(('src',), ssel)
        self.need(CDATA_KINDS, sel)
        j = self.pick(('src',), ssel)
        i = self.pick(CDATA_KINDS + ('src', 'box'), sel)
        if i is None or j is None:
            return None
        self.slots[j].ref = self.slots[i]
        s = self.nodes[self.ms[j]]
        s.out = [e for e in s.out if e[0] != 'attr'] + [['attr', self.ms[i]]]
        self.settle()
        return 'src-attr'

    def op_handle(self, dst, sel, _):
        i = self.need(CDATA_KINDS + ('src', 'box'), sel)
        if i is None:
            return None
        h = self.ffi.new_handle(self.slots[i])
        n = self.node('handle', h)
        n.target = self.ms[i]
        n.out.append(['handle', self.ms[i]])
        self.put(dst, h, n)
        del h
        return 'new_handle'

    def op_fromhandle(self, sel, how, _):
        i = self.need(('handle',), sel)
        if i is None:
            return None
        n = self.nodes[self.ms[i]]
        h = self.slots[i]
        if how % 3 == 1:
            h = self.ffi.cast('void *', h)
        elif how % 3 == 2:
            h = self.ffi.cast('char *', h)
        got = self.ffi.from_handle(h)
        want = self.wr[n.target]()
        if got is not want or got is None:
            self.ctx.fail('from_handle() did not return the object given to new_handle()',
                          step=self.step, got=repr(got), want=repr(want))
        return 'from_handle'

    def op_write(self, sel, v, _):
        i = self.need(('ptr', 'mem', 'arr'), sel)
        if i is None:
            return None
        self.write_mem(self.slots[i], self.nodes[self.ms[i]], 1000 + v * 13)
        return 'write'

    # ---- invariant
    def check(self):
        ctx = self.ctx
        lib = self.lib
        for k, key in self.ckeys.items():
            self.calls[key] = lib.c21_freecount(k)
        for key, want in self.expect.items():
            got = self.calls[key]
            if got != want:
                what = 'ffi.gc() destructor' if key[0] == 'gc' else 'new_allocator() free function (%s)' % key[0]
                ctx.fail('%s called %d time(s), expected %d' % (what, got, want),
                         step=self.step, key=list(key))
        if self.astate['unknown_free'] or lib.c21_badfree():
            ctx.fail('free function called with something that is not the result of a live alloc call',
                     step=self.step)
        addrs = {}
        for n in self.nodes:
            w = self.wr[n.nid]
            real = w() if w is not None else None
            if n.kind == 'src':
                if n.alive:
                    if real is None:
                        ctx.fail('from_buffer() source died while referenced', step=self.step,
                                 exports=n.exports)
                    try:
                        real.append(0)
                    except BufferError:
                        locked = True
                    else:
                        locked = False
                        real.pop()
                    if locked != (n.exports > 0):
                        ctx.fail('source %s, but the model has %d unreleased live from_buffer() view(s)'
                                 % ('is export-locked' if locked else 'can be resized', n.exports),
                                 step=self.step)
                    if n.exports > 0 and self.indegree(n.nid) == n.exports and n.nid not in self.ms:
                        self.flags.add('src-kept-alive-by-views-only')
                elif real is not None:
                    ctx.fail('from_buffer() source still alive after every view was released or '
                             'collected and every other reference dropped', step=self.step)
            elif n.alive and real is None:
                ctx.fail('%s object died while still referenced' % n.kind, step=self.step)
            elif n.kind == 'handle' and n.alive:
                a = int(self.ffi.cast('uintptr_t', real))
                if a in addrs:
                    ctx.fail('two live handles share address %#x' % a, step=self.step)
                addrs[a] = n.nid
                t = self.wr[n.target]()
                if self.ffi.from_handle(real) is not t or t is None:
                    ctx.fail('from_handle(h) is not the object given to new_handle()', step=self.step)
            del real
        if len(addrs) >= 2:
            self.flags.add('handles-live>=2')
        for i in range(NSLOTS):
            if self.ms[i] is not None:
                n = self.nodes[self.ms[i]]
                if n.kind in ('ptr', 'mem', 'arr'):
                    self.read_mem(self.slots[i], n)
                    if n.kind == 'mem' and not any(
                            m.alive and m.kind == 'ptr' and m.out[0][1] == n.nid for m in self.nodes):
                        self.flags.add('p[0]-outlives-p')

    def run(self, ops):
        ctx = self.ctx
        for self.step, (name, a, b, c) in enumerate(ops):
            lab = getattr(self, 'op_' + name)(a, b, c)
            if lab is None:
                ctx.event('op:not-applicable')
                continue
            for l in ([lab] if isinstance(lab, str) else lab):
                ctx.event('op:' + l)
            self.check()
        # end of history: everything goes
        self.step = len(ops)
        for i in range(NSLOTS):
            self.slots[i] = None
            self.ms[i] = None
        self.settle()
        self.check()
        gc.collect()
        self.collect_model()
        self.check()


def prop(case, ctx):
    st_ = ctx.state
    fl = case['flavour'] % 2
    was_enabled = gc.isenabled()
    gc.disable()
    gc.freeze()      # keep gc.collect() cheap: only objects of this history are examined
    h = None
    try:
        h = History(st_['ffis'][fl], st_['libs'][fl], ctx)
        # destructors that raise are reported by cffi on sys.stderr: keep that out of the logs
        with contextlib.redirect_stderr(io.StringIO()):
            h.run(case['ops'])
        flags = set(h.flags)
    finally:
        if h is not None:
            h.slots[:] = [None] * NSLOTS
            h.raws[:] = []
            h.allocators.clear()
        h = None
        gc.collect()
        gc.unfreeze()
        if was_enabled:
            gc.enable()
    nontrivial = bool(flags & {'release-then-collect', 'gcnone-after-alias', 'cycle-collected'})
    ctx.note([fl, case['ops']], nontrivial,
             ['flavour=' + ('cffi.FFI', 'compiled FFI')[fl]] + sorted('hist:' + f for f in flags) +
             ['hist:nontrivial' if nontrivial else 'hist:trivial'])
