"""C30 -- declaration and type-string errors are cffi errors; the compiled
FFI's typeof never crashes or reads outside the string.

Three generated-input searches (DESIGN 4/C30):
 (1) Hypothesis grammar mutation (this module's strategy): valid cdefs / type
     strings from the shared generators and a fragment grammar, mutated at token
     and character level, fed to FFI().cdef / FFI().typeof (Python parser) and to
     _cffi_backend.FFI().typeof + the ffi of an out-of-line module (C parser;
     shards run on the ASan build in the thorough tier).
 (2) atheris coverage-guided campaign over cffi.cparser + pycparser (pre()).
 (3) native libFuzzer + ASan target on src/c/parse_c_type.c with the input in
     an exact-size heap buffer and an in-target oracle (pre()).
Every failure is bucketed by root cause: (exception type, innermost frame under
src/cffi) or (sanitizer report kind).  Buckets listed as known findings are
excluded by construction and counted, so the search continues behind them.
"""
import os, sys, re, json, subprocess, time, glob, hashlib, traceback
from hypothesis import strategies as st
from vlib.core import Violation, HarnessError, h64
from vlib import env, cdefgen

ID = 'C30'
LEVEL = 'exploration'
TECHNIQUE = 'grammar-mutation PBT (Hypothesis) + coverage-guided fuzzing (atheris; native libFuzzer+ASan target on parse_c_type.c) with exception-type / sanitizer oracle and root-cause bucketing'
RULE = ('Inputs: (1) Hypothesis: cdef texts from G-CDEF and type strings from a declarator fragment '
        'grammar, with 0-4 token/character-level mutations (delete, duplicate, swap, splice keyword/'
        'punctuation/number, bracket imbalance); each goes to FFI().cdef, FFI().typeof, '
        '_cffi_backend.FFI().typeof and the typeof of an out-of-line module ffi. (2) atheris over '
        'cffi+pycparser, bytes->text. (3) libFuzzer+ASan on parse_c_type.c. Oracle: only the exception '
        'types the statement allows; no sanitizer report; error_location within the string. An evaluation '
        'is one (entry point, text) execution; non-trivial = the text is a mutation of a valid input or '
        'reaches the grammar (passes the lexer); distinct by normalised text x entry point.')
LEVEL_TEXT = ('Search over mutated declaration texts and type strings (tens of thousands per quick run, '
              'coverage-guided in (2),(3)); finds escaping exception types and out-of-bounds reads, cannot '
              'establish their absence.')
LEVEL_NOTE = ('Trusted: ASan for out-of-bounds detection (reads inside the same heap block but outside the '
              'string are caught by the exact-size buffer of the native target only); the list of allowed '
              'exception types is taken from the property statement. Inputs are bounded to 400 characters so '
              'that interpreter recursion limits / memory exhaustion are not what is being reported.')
ASSUMPTIONS = ['near-limit family (compiled typeof only, ~1200 opcodes): RuntimeError "type-building recursion too deep" counts as a resource bound like RecursionError',
               'inputs <= 400 characters, parenthesis/bracket nesting depth <= 40 (RecursionError/MemoryError on resource exhaustion are not counted)',
               'allowed for cdef()/typeof() in-line: CDefError, FFIError, NotImplementedError, VerificationError, VerificationMissing',
               'allowed for compiled typeof(): ffi.error, TypeError, ValueError']
BUDGET = {'quick': 4800, 'thorough': 400000}
TIME = {'quick': 25, 'thorough': 900}
MAX_SHARDS = 12
PRE_IN_PARENT = True      # pre() only launches the fuzzing campaigns, post() collects them
CRASHY = True
ASAN_TIERS = ('thorough',)
# debug hooks of CPython's allocators: a write past a PyMem/PyObject block aborts at free time
WORKER_ENV = {'PYTHONMALLOC': 'debug'}
MAXLEN = 400

FRAG_WORDS = ['int', 'char', 'short', 'long', 'unsigned', 'signed', 'float', 'double', 'void', '_Bool',
              'const', 'volatile', 'struct', 'union', 'enum', 'typedef', 'extern', 'static', '...',
              '__cdecl', '__stdcall', 'foo_t', 'bar', 's1', 'size_t', 'uint8_t', 'wchar_t', 'FILE',
              '#define', '#pragma', '#', '\\', '\n', '"x"', "'a'", "'\\n'", '0', '1', '08', '0x', '0x1F',
              '5/0', '1<<-1', '1u', '-', '+', '*', '/', '%', '<<', '>>', '&', '|', '^', '~', '!', '=',
              '(', ')', '[', ']', '{', '}', ',', ';', ':', '.', '(*)', '[]', '[...]', '(void)', '(...)',
              '__dotdotdot__', '__dotdotdotarray__', '__dotdotdotint__', '__dummy', '_Complex',
              '__attribute__', '__restrict', 'inline', 'sizeof', 'abc', '$', '@', '\x00', '\xe9', '\t']

CONTEXT_CDEF = '''
typedef int foo_t; typedef struct s1 { int a; char b[4]; } s1_t; struct s2; union u1 { int x; float y; };
enum e1 { AA, BB = 5 }; typedef int (*fn_t)(int, char *); typedef foo_t arr_t[3];
#define TEN 10
'''


# characters that cannot be encoded (lone surrogates) or need 3-4 bytes of UTF-8
_ODD_CHARS = ['\ud800', '\udc80', '\udfff', '\udbff', '\uffff', '\U0001f600', '\U0010ffff', '\u20ac', '\xa0']

# aggregate and enum *definitions* inside a type string: their errors surface when typeof() builds the type
_INLINE_AGGS = ['int); int (x', 'int); typedef int (t', 'int), (int', 'int; int', 'int) (', 'struct { int a; char b; }', 'struct { int a; int a; }', 'union { int x; float x; }',
                'struct { int a; struct { int a; }; }', 'struct { int a, a; }', 'enum { X, X }', 'enum { A = -1, B }',
                'struct { void v; }', 'struct { int a[]; int b; }', 'struct { int a:40; }', 'struct { float f:3; }',
                'struct { struct s2 o; }', 'struct { int a:0; }', 'struct { int :0; }', 'struct { char c:9; }',
                'struct { _Bool b:2; }', 'struct { int a:-1; }', 'struct { int x[-1]; }', 'struct { enum e1 z:40; }',
                'struct { }', 'union { }', 'struct { int *p:3; }', 'struct { s1_t a; s1_t a; }',
                'struct { int a; union { char c; short a; }; }', 'struct s9 { struct s9 *next; int v, v; }']


_TRUNC_BASES = ['extern "Python" int f(int, char *);', 'extern "Python" { int f(int); long g(void); }',
                'extern "Python+C" int f(int);', 'extern "C+Python" { void h(void); }',
                'int f(int); extern "Python" void cb(int x);', 'typedef struct s { int a; char b[4]; } s_t;',
                'enum e { A = 1 << 2, B = (A + 1) * 3, C };', '#define TEN 10\nextern int arr[TEN];',
                'int (*fp)(int, ...); void __stdcall g(int);', 'struct s { int a:3; long :0; ...; };',
                'typedef int (*fn_t)(int[], struct s *); extern fn_t table[...];', 'static const int K = 5;']


def _type_strings():
    base = st.sampled_from(['int', 'char', 'unsigned int', 'long long', 'short', 'unsigned char', 'float',
                            'double', 'void', 'foo_t', 's1_t', 'struct s1', 'struct s2', 'union u1',
                            'enum e1', 'fn_t', 'arr_t', 'size_t', 'uint16_t', '_Bool', 'wchar_t',
                            'long double', 'signed char', 'unsigned', 'long unsigned int', 'const int',
                            'int const', 'volatile char', 'FILE'] + _INLINE_AGGS)
    suffix = st.lists(st.sampled_from(['*', '**', ' *const', '[3]', '[]', '[TEN]', '[0x10]', '[010]',
                                       '(*)(int)', '(*)(void)', '(*)(int, ...)', '(*)[4]', '(*)()',
                                       '(*)(struct s1 *, foo_t)', '(__stdcall *)(int)', ' x', '(x)',
                                       '(*x)', '[...]', '(*(*)(int))[2]', '(* const *)(char)']),
                      max_size=3)
    return st.builds(lambda b, s: b + ''.join(s), base, suffix)


def _mutate(draw, text):
    n = draw(st.integers(0, 4))
    for _ in range(n):
        kind = draw(st.integers(0, 7))
        if not text:
            text = draw(st.sampled_from(FRAG_WORDS))
            continue
        # token-ish boundaries: positions of word starts / punctuation
        toks = [m.span() for m in re.finditer(r'[A-Za-z_][A-Za-z_0-9]*|[0-9]+|\S', text)]
        if not toks:
            toks = [(0, len(text))]
        i = draw(st.integers(0, len(toks) - 1))
        a, b = toks[i]
        if kind == 0:      # delete token
            text = text[:a] + text[b:]
        elif kind == 1:    # duplicate token
            text = text[:b] + ' ' + text[a:b] + text[b:]
        elif kind == 2:    # swap with next
            if i + 1 < len(toks):
                c, d = toks[i + 1]
                text = text[:a] + text[c:d] + text[b:c] + text[a:b] + text[d:]
        elif kind == 3:    # replace by fragment
            text = text[:a] + draw(st.sampled_from(FRAG_WORDS)) + text[b:]
        elif kind == 4:    # insert fragment
            text = text[:a] + draw(st.sampled_from(FRAG_WORDS)) + ' ' + text[a:]
        elif kind == 5:    # delete one char
            j = draw(st.integers(0, len(text) - 1))
            text = text[:j] + text[j + 1:]
        elif kind == 6:    # insert arbitrary char
            j = draw(st.integers(0, len(text)))
            text = text[:j] + draw(st.one_of(st.characters(min_codepoint=0, max_codepoint=0x2FF),
                                             st.sampled_from(_ODD_CHARS))) + text[j:]
        else:              # truncate
            j = draw(st.integers(0, len(text)))
            text = text[:j]
    return text[:MAXLEN]


_EXPR_ATOMS = ['0', '1', '7', '08', '010', '0x1F', '0X', '0x', '0b101', '0b2', '1u', '2UL', '3ll', '4lu', '1.5', '1e3', '0x1p3',
               '1f', '99999999999999999999', '-1', 'TEN', 'AA', 'BB', 'undefined_name', 'sizeof(int)', '(int)1', '1 ? 2 : 3',
               '!1', '~1', '"s"', "'a'", "'ab'", "''", "'\\''", "'\\\\'", '__dotdotdotarray__', '...', '']
_EXPR_OPS = ['+', '-', '*', '/', '%', '<<', '>>', '&', '|', '^', '&&', '||', '<', '==', ',']


def _expr_strings():
    """strings that sit where cdef()/typeof() expect an integer constant expression"""
    esc = st.characters(min_codepoint=0x20, max_codepoint=0x7e).map(lambda c: "'\\%s'" % c)
    atom = st.one_of(st.sampled_from(_EXPR_ATOMS), st.sampled_from(_EXPR_ATOMS), esc,
                     st.integers(-2**70, 2**70).map(str), st.integers(0, 2**64).map(hex))

    @st.composite
    def expr(draw, depth=0):
        c = draw(st.integers(0, 9))
        if depth >= 3 or c <= 3:
            return draw(atom)
        if c <= 7:
            return '%s %s %s' % (draw(expr(depth + 1)), draw(st.sampled_from(_EXPR_OPS)), draw(expr(depth + 1)))
        if c == 8:
            return '(%s)' % draw(expr(depth + 1))
        return '%s%s' % (draw(st.sampled_from(['-', '+', '~', '!', '- -', '&', '*'])), draw(expr(depth + 1)))
    return expr()


_EXPR_CONTEXTS = [('cdef', 'int a[%s];'), ('cdef', 'enum e { A = %s, B };'), ('cdef', 'struct s { int x : %s; };'),
                  ('cdef', 'typedef char t[%s][2];'), ('cdef', 'void f(int a[%s]);'), ('typeof', 'int[%s]'),
                  ('typeof', 'char(*)[%s]'), ('typeof', 'int(*)(long[%s])'), ('cdef', '#define X %s'),
                  ('cdef', 'static const int K = %s;'), ('cdef', 'enum e { A = %s };\nint b[A];')]


def strategy(ctx):
    @st.composite
    def case(draw):
        which = draw(st.integers(0, 9))
        if which == 6 or (which == 2 and draw(st.booleans())):
            entry, fmt = draw(st.sampled_from(_EXPR_CONTEXTS))
            return {'entry': entry, 'text': (fmt % draw(_expr_strings()))[:MAXLEN], 'mutated_from_valid': True}
        if which <= 3:
            spec = draw(cdefgen.specs(max_decls=5))
            text = cdefgen.cdef_text(spec)
            return {'entry': 'cdef', 'text': _mutate(draw, text), 'mutated_from_valid': True}
        if which == 7 and draw(st.booleans()):
            # compiled parser only: flat type strings whose opcode count ends within a few slots of
            # the complexity limit of ffi.typeof (1200 opcodes), for every declarator suffix kind
            base = draw(st.sampled_from(['int', 'char', 'foo_t', 'struct s1', 'void']))
            filler = draw(st.sampled_from(['*', '*', '[2]', ' *const']))
            k = draw(st.integers(1170, 1204))
            suffix = draw(st.sampled_from(['()', '(int)', '(int,int)', '(int, char, long)', '(void)', '(int, ...)',
                                           '[]', '[3]', '(*)(int)', '(*)()', '(*)[4]', '', '(foo_t, struct s1 *)']))
            if draw(st.integers(0, 3)) == 0:
                # flat: a function pointer with ~590 parameters, the last one a function type
                n = draw(st.integers(575, 602))
                text = 'void(*)(' + 'int,' * n + draw(st.sampled_from(['int(*)()', 'int(*)(int)', 'int', 'char[]'])) + ')'
            elif filler == '[2]':
                text = base + suffix.replace('()', '') + filler * k if suffix in ('[]', '[3]', '') else \
                    base + '(*' + filler * k + ')' + (suffix if suffix.startswith('(') else '(int)')
            else:
                text = base + filler * k + suffix
            return {'entry': 'typeof-compiled', 'text': text, 'mutated_from_valid': True}
        if which <= 7:
            text = draw(_type_strings())
            return {'entry': 'typeof', 'text': _mutate(draw, text), 'mutated_from_valid': True}
        if which == 8 and draw(st.booleans()):
            # a complete declaration text cut off at a token boundary (optionally followed by blanks): the
            # text may end right after any keyword, marker or opening bracket
            base = draw(st.sampled_from(_TRUNC_BASES))
            cuts = [m.end() for m in re.finditer(r'[A-Za-z_][A-Za-z_0-9]*|"[^"]*"|[0-9]+|\S', base)]
            text = base[:draw(st.sampled_from(cuts))] + draw(st.sampled_from(['', '', ' ', '\n', ' \n\t ']))
            return {'entry': 'cdef', 'text': text, 'mutated_from_valid': True}
        if which == 8:
            text = ' '.join(draw(st.lists(st.sampled_from(FRAG_WORDS), min_size=0, max_size=12)))
            return {'entry': draw(st.sampled_from(['cdef', 'typeof'])), 'text': text[:MAXLEN],
                    'mutated_from_valid': False}
        text = draw(st.text(st.one_of(st.characters(codec='utf-8'), st.characters(codec='utf-8'),
                                      st.sampled_from(_ODD_CHARS + list('int*[]() '))), max_size=40))
        return {'entry': draw(st.sampled_from(['cdef', 'typeof'])), 'text': text,
                'mutated_from_valid': False}
    return case()


# ------------------------------------------------------------------ oracle

def allowed_inline():
    import cffi
    return (cffi.CDefError, cffi.FFIError, NotImplementedError, cffi.VerificationError,
            cffi.VerificationMissing)


def too_deep(text):
    depth = mx = 0
    for ch in text:
        if ch in '([{':
            depth += 1
            mx = max(mx, depth)
        elif ch in ')]}':
            depth = max(0, depth - 1)
    return mx > 40 or len(text) > MAXLEN


def bucket_of(exc):
    """root-cause bucket: exception type + innermost frame inside src/cffi"""
    tb = traceback.extract_tb(exc.__traceback__)
    where = 'outside-cffi'
    for fr in tb:
        fn = fr.filename.replace('\\', '/')
        if '/cffi/' in fn and '/vlib/' not in fn and '/checks/' not in fn:
            where = '%s:%s' % (os.path.basename(fn), fr.name)
    last = tb[-1] if tb else None
    if last is not None and '/pycparser/' in last.filename.replace('\\', '/'):
        # one root cause from cffi's side: _parse() converts only pycparser's
        # ParseError; any other exception raised inside pycparser escapes
        return 'pycparser-internal-error@%s' % where
    return '%s@%s' % (type(exc).__name__, where)


def run_inline(entry, text):
    """-> None (allowed outcome) or (bucket, message)"""
    import cffi, warnings
    warnings.simplefilter('ignore')
    ffi = cffi.FFI()
    try:
        if entry == 'cdef':
            ffi.cdef(text)
            # what the text declared is then looked at through typeof(): the errors of a declaration
            # that only show when its type is built belong to the same property
            for key in sorted(ffi._parser._declarations):
                kind, _, name = key.partition(' ')
                if kind == 'typedef':
                    ffi.typeof(name)
                elif kind in ('struct', 'union') and not name.startswith('$'):
                    ffi.typeof(kind + ' ' + name)
        else:
            ffi.cdef(CONTEXT_CDEF)
            ffi.typeof(text)
    except allowed_inline():
        return None
    except (RecursionError, MemoryError):
        return None
    except Exception as e:
        return bucket_of(e), '%s: %s' % (type(e).__name__, str(e)[:200])
    return None


def compiled_ffi(ctx):
    st_ = ctx.state
    if st_.get('cffi') is None:
        import cffi, _cffi_backend
        f = cffi.FFI()
        f.cdef(CONTEXT_CDEF)
        f.set_source('_c30_ool', None)
        path = os.path.join(ctx.tmp, '_c30_ool_%d.py' % os.getpid())
        f.emit_python_code(path)
        ns = {}
        with open(path) as fp:
            exec(compile(fp.read(), path, 'exec'), ns)
        st_['cffi'] = ns['ffi']
        st_['bare'] = _cffi_backend.FFI()
    return st_['cffi'], st_['bare']


def run_compiled(text, ctx, deep=False):
    out = []
    for name, f in zip(('ool', 'bare'), compiled_ffi(ctx)):
        try:
            f.typeof(text)
        except (f.error, TypeError, ValueError):
            pass
        except (RecursionError, MemoryError):
            pass
        except Exception as e:
            # realize_c_type's own guard against too deep type nesting ("type-building recursion too
            # deep"): a resource bound like RecursionError, reachable only by the >1000-level
            # declarators of the near-limit family
            if deep and isinstance(e, RuntimeError):
                continue
            out.append(('compiled-%s-%s' % (name, type(e).__name__),
                        '%s: %s' % (type(e).__name__, str(e)[:200])))
    return out


def setup(ctx):
    return {}


def known_bucket_tag(bucket):
    return 'bucket:' + bucket


def prop(case, ctx):
    entry = case['entry']
    if entry == 'native':
        from vlib import fuzz30
        exe = fuzz30.build_native(ctx.tmp)
        r = fuzz30.run_native_once(exe, bytes.fromhex(case['hex']), ctx.tmp)
        ctx.note(('native', case['hex']), True, ['native-replay'])
        if r is not None:
            ctx.fail('native parse_c_type target: %s on input %r' % (r[0], bytes.fromhex(case['hex'])),
                     bucket=r[0], report=r[1])
        return
    text = case['text']
    if entry == 'typeof-compiled':
        # near-limit family: the in-line parser would only hit Python's recursion limit on these
        ctx.note(('compiled', text), True, ['compiled-typeof-near-limit'])
        for bucket, msg in run_compiled(text, ctx, deep=True):
            if not ctx.skip_known(known_bucket_tag(bucket)):
                ctx.fail('%s escapes from compiled typeof(%r...)' % (msg, text[:60]), bucket=bucket)
        return
    if too_deep(text):
        ctx.event('skipped-too-deep-or-long')
        return
    nontriv = bool(case.get('mutated_from_valid')) or bool(re.search(r'[A-Za-z_;]', text))
    failures = []
    r = run_inline(entry, text)
    ctx.note((entry, text), nontriv, ['inline-' + entry])
    if r is not None:
        failures.append(r)
    if entry == 'typeof':
        try:
            text.encode('ascii')
            enc_ok = True
        except UnicodeEncodeError:
            enc_ok = True   # compiled typeof must cope with non-ASCII str too
        if '\x00' not in text:
            ctx.note(('compiled', text), nontriv, ['compiled-typeof'])
            failures += run_compiled(text, ctx)
    for bucket, msg in failures:
        if ctx.skip_known(known_bucket_tag(bucket)):
            continue
        ctx.fail('%s escapes from %s(%r)' % (msg, entry, text), bucket=bucket)


# ------------------------------------------------- campaign legs (parent side)

def pre(ctx):
    # atheris + native libFuzzer campaigns run concurrently with the Hypothesis shards
    from vlib import fuzz30
    if ctx.state is None:
        ctx.state = {}
    fuzz30.start_campaigns(ctx, sys.modules[__name__])


def post(ctx):
    from vlib import fuzz30
    fuzz30.finish_campaigns(ctx, sys.modules[__name__])


def teardown(ctx):
    if ctx.shard == -1:
        from vlib import fuzz30
        fuzz30.kill_campaigns(ctx)
