"""C33 -- verify() (CPython engine and generic engine) behaves like set_source()/compile().

Case: one G-CDEF spec (vlib/cdefgen.py: typedef chains, structs/unions with
bitfields/arrays/nested aggregates/function pointers, opaque types, enums,
#define and static const integers, functions, globals, function-pointer
typedefs -- all of which verify() supports), optionally with some structs
rendered as partial ('...;' and a subset of the fields), some '#define NAME ...'
and some 'static const T NAME;' without value in the cdef, plus
argument tuples for every function and values to store into every global.

The same (cdef, C source) pair is built three times:
    api   ffi.set_source(); emit_c_code; gcc            (module.ffi, module.lib)
    cpy   ffi.verify(source)                             (VCPythonEngine)
    gen   ffi.verify(source, force_generic_engine=True)  (VGenericEngine)
and compared: public dir(lib); every #define / static const / enumerator
(also against the value in the spec); sizeof/alignof and the field table
(name, offset, bitshift, bitsize, size of the field type) of every complete
struct/union (also those declared partial) and the size of every typedef;
initial value of every global, and the outcome of storing G-INT / wrong-type
values into it; result or exception type of every function call.
"""
import os, sys, itertools, collections, subprocess, warnings
from hypothesis import strategies as st, assume
from vlib.core import HarnessError
from vlib import cc, cdefgen, callgen, env

ID = 'C33'
LEVEL = 'exploration'
RULE = ('Hypothesis-generated G-CDEF specs (12-26 declarations: typedefs, structs/unions incl. bitfields, '
        'arrays, nested aggregates, function pointers, partial "..." structs, opaque types, enums, #define and '
        'static const integers up to 64 bits, functions over all scalar types, integer/array/pointer '
        'globals) with matching C source, built by set_source(), verify() and verify(force_generic_engine='
        'True); 3-way differential on dir(lib), constants (also vs the spec), struct/union/typedef layout, '
        'global reads and writes, function results / exception types on G-INT, G-FLOAT and wrong-type '
        'arguments. An evaluation is one compared item (constant, layout, global access, call); '
        'non-trivial = the case has >=1 function with an integer parameter narrower than 8 bytes and >=1 '
        'struct with "..."; distinct by (cdef text, item, argument values).')
TECHNIQUE = 'property-based differential testing of three builds of generated (cdef, C source) pairs'
LEVEL_TEXT = ('random search: generated declaration sets, each built three ways and compared item by item; '
              'no exhaustiveness claim')
LEVEL_NOTE = ('trusted: gcc; the G-CDEF generator renders the cdef and a C source that really match; most '
              'verify() modules are compiled by one direct gcc -O0 call into the file name verify() looks '
              'for (verify() then loads it through its normal "module already compiled" path), one case in '
              'eight goes through distutils inside ffi.verify() itself')
ASSUMPTIONS = ['cdef features outside verify() (extern "Python", typedef int... x, pack=N) are not generated',
               'pointer arguments are NULL or integer-cast addresses that the C bodies never dereference',
               'struct types are compared by layout (sizes/offsets), not by cname: in-line and out-of-line FFIs name "typedef struct tag {...} T" differently']
BUDGET = {'quick': 32, 'thorough': 1600}
MIN_PER_SHARD = 2
TIME = {'quick': 12, 'thorough': 840}
CRASHY = True

FEATURES = cdefgen.DEFAULT_FEATURES | frozenset(['const_novalue', 'variadic'])     # 'static const int K;' works in verify() too
_counter = itertools.count()
_built = collections.OrderedDict()


# ------------------------------------------------------------------ generation

SV_CDEF = """
typedef struct { int a; long b; double c; char d; } c33_sv_t;
union c33_un { int i; double dd; };
c33_sv_t c33_mk(int x);
union c33_un c33_mku(int x);
long c33_sum(c33_sv_t s);
long c33_usum(union c33_un u, int k, union c33_un v);
long c33_sumpts(c33_sv_t *p, int n);
long c33_sumrows(int (*r)[4], int n);
"""
SV_SRC = """
typedef struct { int a; long b; double c; char d; } c33_sv_t;
union c33_un { int i; double dd; };
c33_sv_t c33_mk(int x) { c33_sv_t r; r.a = x; r.b = x * 100L + 1; r.c = x * 0.25; r.d = (char)(65 + x % 20); return r; }
union c33_un c33_mku(int x) { union c33_un u; u.dd = 0; u.i = x * 3; return u; }
long c33_sum(c33_sv_t s) { return s.a + s.b + (long)(s.c * 4) + s.d; }
long c33_usum(union c33_un u, int k, union c33_un v) { return u.i * 7L + k + v.i * 1000L; }
long c33_sumpts(c33_sv_t *p, int n) { long t = 0; int i; for (i = 0; i < n; i++) t += c33_sum(p[i]); return t; }
long c33_sumrows(int (*r)[4], int n) { long t = 0; int i, k; for (i = 0; i < n; i++) for (k = 0; k < 4; k++) t += r[i][k]; return t; }
"""


def _ctype(prim):
    """cdefgen primitive name -> callgen scalar type"""
    if prim in ('char', 'wchar_t'):
        return ['c', prim]
    if prim in ('float', 'double'):
        return ['f', prim]
    return ['i', prim]


def _enum_values(d):
    out, nxt = [], 0
    for name, v in d['items']:
        if v is not None:
            nxt = v
        out.append((name, nxt))
        nxt += 1
    return out


def arg_strategy(spec, t):
    r = cdefgen.resolve(t, spec)
    if r[0] == 'prim':
        ct = _ctype(r[1])
        return callgen.weighted((2, callgen.scalar_inits(ct, 'good')), (2, callgen.scalar_inits(ct, 'any')))
    if r[0] == 'enum':
        d = [x for x in spec['decls'] if x['k'] == 'enum' and x['tag'] == r[1]][0]
        vals = [v for _, v in _enum_values(d)]
        return st.one_of(st.sampled_from(vals), st.sampled_from([0, 1, -1, 2 ** 31 - 1, 2 ** 31, -2 ** 31, -2 ** 31 - 1,
                                                                 2 ** 32 - 1, 2 ** 32, 2 ** 63, 2 ** 64, -2 ** 63 - 1]),
                         st.integers(-5, 300)).map(lambda v: ['int', v]) | st.sampled_from(
            [['none'], ['fb', callgen.fbits(1.0)], ['bytes', '41']])
    if r[0] in ('ptr', 'fptr'):
        return st.one_of(st.just(['NULL']), st.integers(1, 2 ** 40).map(lambda a: ['castptr', a * 16]),
                         st.sampled_from([['int', 0], ['none'], ['int', 4096], ['bytes', '00'], ['fb', 0]]))
    raise ValueError(t)


def _by_value_tags(spec, t, seen=None):
    """tags of the aggregates that a field of type t embeds by value (transitively)"""
    out = set()
    if t[0] == 'arr':
        return _by_value_tags(spec, t[2])
    if t[0] == 'td':
        try:
            return _by_value_tags(spec, cdefgen.resolve(t, spec))
        except KeyError:
            return out
    if t[0] == 'agg':
        out.add(t[2])
        for d in spec['decls']:
            if d['k'] == 'struct' and d['tag'] == t[2]:
                for _, ft, _ in d['fields']:
                    out |= _by_value_tags(spec, ft)
    return out


def no_partial_allowed(spec):
    """cffi refuses (NotImplementedError) an aggregate with bitfields that embeds a '...' struct:
    tags that must stay complete"""
    out = set()
    for d in spec['decls']:
        if d['k'] == 'struct' and any(b for _, _, b in d['fields']):
            out.add(d['tag'])
            for _, ft, _ in d['fields']:
                out |= _by_value_tags(spec, ft)
    return out


def strategy(ctx):
    callgen.allow_big_examples()

    @st.composite
    def case(draw):
        assume(draw(st.integers(0, 255)) != 0)      # skip Hypothesis' all-minimal examples (see C13)
        spec = draw(cdefgen.specs(features=FEATURES, min_decls=12, max_decls=26))
        partial = {}
        calls, gsets = [], []
        complete_only = no_partial_allowed(spec)
        for i, d in enumerate(spec['decls']):
            if d['k'] == 'struct' and d['kw'] == 'struct' and d['tag'] not in complete_only:
                if draw(st.integers(0, 1)) == 0:
                    keep = [j for j in range(len(d['fields'])) if draw(st.booleans())]
                    partial[str(i)] = keep or [0]
            elif d['k'] == 'define' and not 1 <= d['value'] <= 9:      # (1..9 may be array lengths later on)
                if draw(st.booleans()):
                    partial[str(i)] = []            # rendered as  #define NAME ...
            elif d['k'] == 'enum' and d.get('tag') and draw(st.integers(0, 2)) == 0:
                partial[str(i)] = [draw(st.integers(0, 1))]       # 'A, B, ...' / 'A = ..., B = ...'
            elif d['k'] == 'gvar' and d['type'][0] == 'arr' and draw(st.booleans()):
                partial[str(i)] = []                # extern T name[...];
            if d['k'] == 'func':
                for _ in range(draw(st.integers(4, 10))):
                    calls.append([i, [draw(arg_strategy(spec, t)) for t in d['args']]])
            elif d['k'] == 'gvar' and d['type'][0] == 'prim':
                ct = _ctype(d['type'][1])
                for _ in range(draw(st.integers(1, 3))):
                    gsets.append([i, draw(callgen.scalar_inits(ct, 'any'))])
        distutils = draw(st.integers(0, 7)) == 7
        assume(draw(st.integers(0, 255)) != 0)
        return {'spec': spec, 'partial': partial, 'calls': calls, 'gsets': gsets, 'distutils': distutils}
    return case()


# ------------------------------------------------------------------ building

def render_cdef(spec, partial):
    lines = []
    for i, (d, (text, _)) in enumerate(zip(spec['decls'], cdefgen.decl_lines(spec))):
        if str(i) in partial and d['k'] == 'define':
            text = '#define %s ...' % d['name']
        elif str(i) in partial and d['k'] == 'enum':
            names = [n for n, _ in d['items']]
            body = (', '.join(names) + ', ...') if partial[str(i)] == [0] else ', '.join(n + ' = ...' for n in names)
            if d.get('tdname'):
                text = 'typedef enum %s { %s } %s;' % (d['tag'], body, d['tdname'])
            else:
                text = 'enum %s { %s };' % (d['tag'], body)
        elif str(i) in partial and d['k'] == 'gvar':
            text = 'extern %s;' % cdefgen.declarator(['arr', '...', d['type'][2]], d['name'])
        elif str(i) in partial:
            keep = partial[str(i)]
            body = ' '.join('%s;' % cdefgen.declarator(d['fields'][j][1], d['fields'][j][0]) for j in keep)
            if d['tdname']:
                text = 'typedef %s %s { %s ...; } %s;' % (d['kw'], d['tag'], body, d['tdname'])
            else:
                text = '%s %s { %s ...; };' % (d['kw'], d['tag'], body)
        lines.append(text)
    return '\n'.join(lines) + '\n'


class VerifySourceRejected(Exception):
    pass


def _gcc_module(csource, out):
    r = subprocess.run(['gcc', '-O0', '-w', '-shared', '-fPIC', '-pthread', '-I' + env.PYINC,
                        '-o', out, csource], capture_output=True, text=True)
    if r.returncode != 0:
        # (the set_source() module of the same pair did compile: this is verify()'s doing)
        raise VerifySourceRejected('gcc rejects the source written by verify():\n%s' % r.stderr[-3000:])


def build_all(cdef, src, distutils, ctx):
    """-> {'api': (ffi, lib), 'cpy': (ffi, lib), 'gen': (ffi, lib)}"""
    import cffi
    from cffi.verifier import Verifier
    uid = '%d_%d' % (os.getpid(), next(_counter))
    out = {}
    ffi_a = cffi.FFI()
    ffi_a.cdef(cdef)
    name = 'c33api_' + uid
    ffi_a.set_source(name, src)
    try:
        m = cc.build_api_module(ffi_a, name, ctx.tmp)
    except cc.CompileFailed as e:
        raise HarnessError('set_source() module does not compile (generator bug?): %s\n%s\n%s' % (e, cdef, src))
    out['api'] = (m.ffi, m.lib)
    for eng in ('cpy', 'gen'):
        ffi = cffi.FFI()
        ffi.cdef(cdef)
        d = os.path.join(ctx.tmp, 'c33v_%s_%s' % (uid, eng))
        os.makedirs(d)
        kw = dict(tmpdir=d, modulename='_c33%s_%s' % (eng, uid), force_generic_engine=(eng == 'gen'))
        with warnings.catch_warnings():
            warnings.simplefilter('ignore')
            if not distutils:
                # compile what verify() would compile, with one gcc process, into the file
                # verify() looks for; verify() below then loads it ("already compiled" path)
                v = Verifier(ffi, src, **kw)
                v.write_source()
                _gcc_module(v.sourcefilename, v.modulefilename)
            lib = ffi.verify(src, **kw)
        out[eng] = (ffi, lib)
    return out


def get_builds(cdef, src, distutils, ctx):
    key = cdef + '\0' + src + '\0%d' % distutils
    if key in _built:
        _built.move_to_end(key)
        ctx.event('builds-reused')
    else:
        _built[key] = build_all(cdef, src, distutils, ctx)
        while len(_built) > 3:
            _built.popitem(last=False)
    return _built[key]


# ------------------------------------------------------------------ observation

ENGINES = ('api', 'cpy', 'gen')


def _outcome(fn):
    try:
        return ['ok', fn()]
    except Exception as e:
        return ['exc', type(e).__name__, str(e)[:160]]


def _same(outcomes):
    """equal results, or the same exception type"""
    key = [o[:2] for o in outcomes]
    return all(k == key[0] for k in key)


def _value(ffi, x):
    return callgen.simplify(callgen.norm(ffi, x))


def _build_arg(ffi, lib, v, ctext):
    if v[0] == 'castptr':
        return ffi.cast(ctext, v[1])
    if v[0] in ('fn', 'fnaddr'):
        return len                  # (callgen's "a function object" wrong-type value; no helpers here)
    return callgen.build_value(ffi, lib, v, callgen.Built())


def _layout(ffi, typename):
    ct = ffi.typeof(typename)
    fields = []
    if ct.kind in ('struct', 'union') and ct.fields is not None:
        for n, f in ct.fields:
            fields.append([n, f.offset, f.bitshift, f.bitsize, ffi.sizeof(f.type) if f.type.kind != 'array' or f.type.length is not None else -1,
                           f.type.kind])
    return [ffi.sizeof(ct), ffi.alignof(ct), fields]


def prop(case, ctx):
    spec, partial = case['spec'], case['partial']
    cdef = render_cdef(spec, partial) + SV_CDEF
    src = cdefgen.c_source(spec) + SV_SRC
    try:
        builds = get_builds(cdef, src, case['distutils'], ctx)
    except HarnessError:
        raise
    except Exception as e:
        import traceback
        ctx.fail('building the three libraries failed: %s: %s' % (type(e).__name__, str(e)[:500]),
                 cdef=cdef, source=src, traceback=traceback.format_exc()[-2000:])
    decls = spec['decls']
    narrow = any(cdefgen.resolve(t, spec)[0] == 'prim' and cdefgen.resolve(t, spec)[1] in callgen.INTS
                 and callgen.INTS[cdefgen.resolve(t, spec)[1]][0] < 64
                 for d in decls if d['k'] == 'func' for t in d['args'])
    nontriv = bool(narrow and any(decls[int(i)]['k'] == 'struct' for i in partial))
    if case['distutils']:
        ctx.event('compiled-by-distutils')

    def check(item, outcomes, cls, expected=None, key=None):
        ctx.note([cdef, item, key], nontriv, cls)
        if not _same(outcomes):
            ctx.fail('%s differs between set_source() and verify()' % item, item=item,
                     outcomes=dict(zip(ENGINES, outcomes)), cdef=cdef, source=src, detail=key)
        if expected is not None and outcomes[0] != ['ok', expected]:
            ctx.fail('%s: all three builds give %r, the C source says %r' % (item, outcomes[0], expected),
                     item=item, cdef=cdef, source=src)

    # 0. structs / unions passed and returned by value; several results are kept alive and read
    #    only after all the calls were made (each result must be its own object)
    xs = [1 + (len(cdef) + 7 * j) % 50 for j in range(4)]

    def by_value(e):
        ffi, lib = builds[e]
        held = [lib.c33_mk(x) for x in xs]
        heldu = [lib.c33_mku(x) for x in xs]
        sums = [lib.c33_sum(h) for h in held]
        usums = [lib.c33_usum(u, 5, heldu[0]) for u in heldu] + [lib.c33_usum({'i': 2}, 1, [4])]
        return [[(h.a, h.b, h.c, h.d) for h in held], [u.i for u in heldu], sums, usums]
    check('struct/union by value: c33_mk, c33_mku, c33_sum, c33_usum',
          [_outcome(lambda e=e: by_value(e)) for e in ENGINES], 'struct-by-value-results-kept',
          expected=[[(x, x * 100 + 1, x * 0.25, bytes([65 + x % 20])) for x in xs], [x * 3 for x in xs],
                    [x + x * 100 + 1 + x + 65 + x % 20 for x in xs],
                    [x * 3 * 7 + 5 + xs[0] * 3 * 1000 for x in xs] + [2 * 7 + 1 + 4 * 1000]])

    # 0b. pointer arguments given as lists of *partial* initialisers (what is not mentioned must read
    #     as zero), below and above the 640-byte threshold between stack and heap temporaries
    def partial_lists(e):
        ffi, lib = builds[e]
        return [lib.c33_sumpts([{}, {'a': 1}], 2), lib.c33_sumpts([{'b': 5}] + [{}] * 3, 4),
                lib.c33_sumpts([{'a': 2}, {}] * 20, 40), lib.c33_sumrows([[1], [2, 3]], 2),
                lib.c33_sumrows([[7]] * 3 + [[]] * 2, 5), lib.c33_sumrows([[1, 1]] * 50, 50)]
    check('pointer arguments from lists of partial initialisers',
          [_outcome(lambda e=e: partial_lists(e)) for e in ENGINES], 'partial-initialiser-lists',
          expected=[1, 5, 40, 6, 21, 100])

    # 1. names
    names = [sorted(n for n in dir(builds[e][1]) if not n.startswith('_')) for e in ENGINES]
    check('dir(lib)', [['ok', n] for n in names], 'names')

    for i, d in enumerate(decls):
        k = d['k']
        # 2. constants
        if k in ('define', 'const'):
            check('constant %s' % d['name'],
                  [_outcome(lambda e=e: _value(builds[e][0], getattr(builds[e][1], d['name']))) for e in ENGINES],
                  ['constant', 'constant>=2**63' if d['value'] >= 2 ** 63 else 'constant<0' if d['value'] < 0 else 'constant-small',
                   'constant-value-from-compiler' if (str(i) in partial or not d.get('withval', True)) else 'constant-value-in-cdef'],
                  expected=['int', d['value']])
        elif k == 'enum':
            for name, v in _enum_values(d):
                check('enumerator %s' % name,
                      [_outcome(lambda e=e: _value(builds[e][0], getattr(builds[e][1], name))) for e in ENGINES],
                      ['enumerator', 'enumerator-value-from-compiler' if str(i) in partial else 'enumerator-value-in-cdef'],
                      expected=['int', v])
            check('sizeof(enum %s)' % d['tag'],
                  [_outcome(lambda e=e: builds[e][0].sizeof('enum ' + d['tag'])) for e in ENGINES], 'layout-enum')
        # 3. layouts
        elif k == 'struct':
            tn = '%s %s' % (d['kw'], d['tag'])
            check('layout of ' + tn, [_outcome(lambda e=e: _layout(builds[e][0], tn)) for e in ENGINES],
                  ['layout', 'layout-partial' if str(i) in partial else 'layout-bitfield'
                   if any(b for _, _, b in d['fields']) else 'layout-plain'])
            if d['tdname']:
                check('sizeof(%s)' % d['tdname'],
                      [_outcome(lambda e=e: builds[e][0].sizeof(d['tdname'])) for e in ENGINES], 'layout-typedef')
        elif k in ('typedef', 'fptd'):
            check('sizeof(%s)' % d['name'],
                  [_outcome(lambda e=e: builds[e][0].sizeof(d['name'])) for e in ENGINES], 'layout-typedef')
        # 4. globals
        elif k == 'gvar':
            exp = None
            if d['type'][0] == 'prim' and isinstance(d['init'], int):
                p = d['type'][1]
                exp = (['bytes', '%02x' % d['init']] if p == 'char' else ['str', [d['init']]] if p == 'wchar_t'
                       else ['int', d['init']])
                if p == 'wchar_t' and d['init'] > 0x10ffff:
                    exp = None           # not a code point: reading raises ValueError (the same on all three)
            elif d['type'][0] == 'arr':
                exp = ['array', [['int', v] for v in d['init']]]
            elif d['type'][0] == 'ptr':
                exp = ['ptr', 0]
            check('initial value of global %s' % d['name'],
                  [_outcome(lambda e=e: _value(builds[e][0], getattr(builds[e][1], d['name']))) for e in ENGINES],
                  ['global-read'] + (['global-array-length-from-compiler'] if str(i) in partial else []), expected=exp)
    for i, v in case['gsets']:
        d = decls[i]

        def store(e):
            ffi, lib = builds[e]
            try:
                setattr(lib, d['name'], _build_arg(ffi, lib, v, None))
                return _value(ffi, getattr(lib, d['name']))
            finally:
                # builds are reused by later (mutated / shrunk) cases: put the initial value back
                setattr(lib, d['name'], ffi.cast(d['type'][1], d['init']))
        outs = [_outcome(lambda e=e: store(e)) for e in ENGINES]
        check('store into global %s %s' % (d['type'][1], d['name']), outs,
              ['global-write', 'global-write:' + ('ok' if outs[0][0] == 'ok' else outs[0][1])], key=v)
    # 5. calls
    for i, args in case['calls']:
        d = decls[i]

        def call(e):
            ffi, lib = builds[e]
            a = [_build_arg(ffi, lib, v, cdefgen.declarator(t, '')) for v, t in zip(args, d['args'])]
            if d.get('ellipsis') and len(str(args)) % 2:
                a += [ffi.cast('int', 3), ffi.cast('double', 1.5), ffi.NULL]     # ignored by the C body
            return _value(ffi, getattr(lib, d['name'])(*a))
        outs = [_outcome(lambda e=e: call(e)) for e in ENGINES]
        proto = cdefgen.declarator(d['ret'], d['name']) + '(' + ', '.join(cdefgen.declarator(t, '') for t in d['args']) + ')'
        check('call of ' + proto, outs, ['call', 'call:' + ('ok' if outs[0][0] == 'ok' else outs[0][1]),
                                         'call-nargs>=3' if len(args) >= 3 else 'call-nargs<3']
              + (['call-variadic:' + ('with-extra-args' if len(str(args)) % 2 else 'fixed-args-only')]
                 if d.get('ellipsis') else []), key=args)
