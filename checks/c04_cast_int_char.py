"""C04 -- ffi.cast to integer and character types follows C conversion rules.

Case: a batch of casts [type, source kind, payload] + the FFI flavour.
Source kinds: Python int (G-INT, any magnitude), finite float (G-FLOAT bit
pattern), bool, 1-byte bytes, one-character str (BMP, astral, lone surrogate),
pointer / array / function-pointer cdata forged at an arbitrary 64-bit address,
and cdata owning real memory / real functions whose address is obtained
independently through ctypes.

Oracle: reference model -- n = x truncated toward zero (code point, address),
reduced modulo 2**(8*sizeof T) into T's signed or unsigned range (sizeof and
signedness from gcc; plain `char` reads as 0..255), `_Bool` -> x != 0.
Differential leg: (T)x computed by gcc-compiled code where C defines it.
Pointer sources additionally make the intptr_t / uintptr_t round trip.
"""
import ctypes
from hypothesis import strategies as st
from vlib.core import Violation, HarnessError
from vlib import gen, typezoo, gfloat

ID = 'C04'
LEVEL = 'exploration'
RULE = ('One case = up to 40 casts ffi.cast(T, x): T in 47 integer spellings (incl. _Bool) + 4 enums + '
        'char/wchar_t/char16_t/char32_t; x from G-INT for T (boundaries, powers of two, 128/200-bit), finite '
        'G-FLOAT doubles (random patterns, neighbours of 2**k and of integer limits, fractional parts, '
        '+-1e300), bool, 1-byte bytes, 1-char str (BMP/astral/surrogate), pointer/array/function-pointer '
        'cdata forged at arbitrary 64-bit addresses, and cdata owning memory / naming real functions with '
        'the address taken through ctypes. Oracle = truncate-and-wrap reference model (+ gcc-compiled (T)x '
        'where C defines the conversion) on int(result); pointer sources also do the intptr_t/uintptr_t '
        'round trip. An evaluation is one cast (or one round trip); non-trivial = source value outside '
        'T\'s range, or float with a fractional part, or a non-int source; distinct by (type, kind, value).')
TECHNIQUE = 'property-based testing (Hypothesis) against a wrap-around model and gcc-compiled conversions'
LEVEL_TEXT = ('Random and boundary-directed search over all 55 target types x 7 source kinds; tens of '
              'thousands of distinct conversions per quick run compared with an executable model of the C '
              'rules and, where defined, with what gcc computes.  Finds violations, cannot prove absence.')
LEVEL_NOTE = ('Trusted: gcc 12 x86-64 for sizeof/signedness and (T)x, ctypes for calling the helpers and '
              'for object addresses, the reference model in this module, Hypothesis.')
ASSUMPTIONS = ['gcc -O0 x86-64: sizeof/signedness of the target types; out-of-range integer->signed '
               'conversion wraps (gcc implementation-defined behaviour)',
               'float->integer conversion compared with C only when the truncated value is representable '
               '(otherwise undefined in C; the model of the property statement decides)',
               'plain char results read as 0..255 (cffi documents char cdata as a byte)']
BUDGET = {'quick': 1000, 'thorough': 60000}
TIME = {'quick': 15, 'thorough': 600}
MIN_PER_SHARD = 20
BATCH = 40

TARGETS = [t.name for t in typezoo.TYPES if t.kind in ('int', 'bool', 'enum', 'char')]
PTR_TYPES = ['void *', 'char *', 'int *', 'struct s_int *', 'int(*)(int)', 'int[3]', 'long double *',
             'void(*)(void)', 'char[1]']
OWNED = ['new_char_array', 'new_int_array', 'new_struct_ptr', 'new_int_ptr', 'function', 'null',
         'global_addr', 'array_plus_offset']


class State(object):
    def __init__(self, zoo):
        self.zoo = zoo
        self.owned = {}
        self.api_cdll = None

    def flavour(self, k):
        if k == 0:
            return self.zoo.inline()
        if k == 1:
            return self.zoo.abi()
        return self.zoo.api.ffi, self.zoo.api.lib

    def owned_objects(self, k):
        """label -> (cdata, address known independently of ffi.cast)"""
        if k in self.owned:
            return self.owned[k]
        ffi, lib = self.flavour(k)

        def addr_of(cd):
            return ctypes.addressof(ctypes.c_char.from_buffer(ffi.buffer(cd)))
        out = {}
        a = ffi.new('char[16]')
        out['new_char_array'] = (a, addr_of(a))
        b = ffi.new('int[4]')
        out['new_int_array'] = (b, addr_of(b))
        s = ffi.new('struct s_int *')
        out['new_struct_ptr'] = (s, addr_of(s))
        p = ffi.new('int *')
        out['new_int_ptr'] = (p, addr_of(p))
        out['null'] = (ffi.NULL, 0)
        if k == 2:
            if self.api_cdll is None:
                self.api_cdll = ctypes.CDLL(self.zoo.api_path)
            cdll = self.api_cdll
            # ffi.addressof(api_lib, 'id_int') is the address of a generated static
            # wrapper (_cffi_d_id_int), which nothing else can name: use the dlopen'ed one
            fn = self.zoo.inline()[1].id_int
        else:
            cdll = self.zoo.cdll
            fn = lib.id_int
        out['function'] = (fn, ctypes.cast(self.zoo.cdll.id_int, ctypes.c_void_p).value)
        g = ffi.addressof(lib, 'g_long')
        out['global_addr'] = (g, ctypes.addressof(ctypes.c_long.in_dll(cdll, 'g_long')))
        out['array_plus_offset'] = (b + 3, addr_of(b) + 3 * 4)
        self.owned[k] = out
        return out


def setup(ctx):
    return State(typezoo.get())


def _cffi_range(zoo, t):
    """(lo, hi, size) of the values int(cast(T, .)) can take."""
    info = typezoo.BY_NAME[t]
    size, signed = zoo.facts[t]
    if info.kind == 'bool':
        return 0, 1, size
    if t == 'char':
        signed = False
    if signed:
        return -(1 << (8 * size - 1)), (1 << (8 * size - 1)) - 1, size
    return 0, (1 << (8 * size)) - 1, size


def strategy(ctx):
    zoo = ctx.state.zoo
    # strategies are built once per type (building them per draw dominates the run time otherwise)
    fbits = gfloat.double_bits(finite_only=True)
    addr = st.one_of(gen.ints_for_range(0, 2 ** 64 - 1), st.integers(0, 2 ** 64 - 1))
    ptype = st.integers(0, len(PTR_TYPES) - 1)
    shared = {
        'bool': st.integers(0, 1),
        'bytes': st.one_of(st.integers(0, 255), st.sampled_from([0, 1, 127, 128, 255])),
        'str': st.one_of(st.integers(0, 0x10ffff), st.sampled_from(
            [0, 1, 0x7f, 0x80, 0xff, 0x100, 0x7fff, 0x8000, 0xd7ff, 0xd800, 0xdfff, 0xe000, 0xffff,
             0x10000, 0x10ffff]), st.integers(0, 0x2ff)),
        'fptr': st.tuples(ptype, addr).map(list),
        'own': st.integers(0, len(OWNED) - 1),
    }
    weighted = ['int'] * 6 + ['float'] * 6 + ['str'] * 2 + ['fptr'] * 2 + ['fptr2', 'own', 'bytes', 'bool']
    per = {}
    for t in TARGETS:
        lo, hi, size = _cffi_range(zoo, t)
        if typezoo.BY_NAME[t].kind == 'bool':
            lo, hi = 0, 255
        ints = gen.ints_for_range(lo, hi)
        mine = dict(shared)
        mine['int'] = ints
        mine['float'] = st.one_of(fbits, ints.map(_int_to_near_double_bits))
        mine['fptr2'] = st.tuples(ptype, ints).map(list)
        for k, strat in mine.items():
            per[(t, k)] = strat.map(lambda payload, t=t, k=k: [t, k.rstrip('2'), payload])
    wtargets = TARGETS + ['_Bool'] * 3 + [t for t in TARGETS if typezoo.BY_NAME[t].kind in ('char', 'enum')]
    item = st.tuples(st.sampled_from(wtargets), st.sampled_from(weighted)).flatmap(lambda tk: per[tk])
    # the first alternative lets the shrinker get down to a single cast
    items = st.one_of(st.lists(item, min_size=1, max_size=BATCH, unique_by=repr),
                      st.lists(item, min_size=20, max_size=BATCH, unique_by=repr))
    return st.fixed_dictionaries({'flav': st.integers(0, 2), 'items': items})


def _int_to_near_double_bits(n):
    """A finite double near the integer n (with a fractional part when there is room)."""
    try:
        x = float(n)
    except OverflowError:
        x = 1e300 if n > 0 else -1e300
    if abs(x) < 2 ** 51:
        x += (0.5, -0.5, 0.25, 0.0)[abs(n) % 4]
    return gfloat.to_bits(x)


def _wrap(n, lo, hi, size):
    m = n % (1 << (8 * size))
    if lo < 0 and m > hi:
        m -= 1 << (8 * size)
    return m


def prop(case, ctx):
    S = ctx.state
    zoo = S.zoo
    flav = case['flav']
    ffi, lib = S.flavour(flav)
    for t, kind, payload in case['items']:
        if t not in TARGETS:
            raise HarnessError('unknown target type %r' % (t,))
        info = typezoo.BY_NAME[t]
        lo, hi, size = _cffi_range(zoo, t)
        csize, csigned = zoo.facts[t]
        c_leg = None            # (how, argument) for the compiled conversion, when C defines it
        nonzero = None
        roundtrip = None
        if kind == 'int':
            x = payload
            n = x
            if -2 ** 63 <= x < 2 ** 63:
                c_leg = ('ll', x)
            elif 0 <= x < 2 ** 64:
                c_leg = ('ull', x)
            label = 'int'
        elif kind == 'float':
            if not gfloat.is_finite_bits(payload):
                raise HarnessError('non-finite float in a C04 case')
            x = gfloat.from_bits(payload)
            n = int(x)
            nonzero = (x != 0.0)
            # C defines (T)x only if the truncated value is representable in T (as C sees T)
            if info.kind == 'bool':
                c_leg = ('d', x)
            else:
                clo, chi = (-(1 << (8 * csize - 1)), (1 << (8 * csize - 1)) - 1) if csigned \
                    else (0, (1 << (8 * csize)) - 1)
                if clo <= n <= chi:
                    c_leg = ('d', x)
            label = 'float-frac' if x != n else 'float-integral'
        elif kind == 'bool':
            x = bool(payload)
            n = int(x)
            c_leg = ('ll', n)
            label = 'bool'
        elif kind == 'bytes':
            x = bytes([payload])
            n = payload
            c_leg = ('ll', n)
            label = 'bytes'
        elif kind == 'str':
            x = chr(payload)
            n = payload
            c_leg = ('ll', n)
            label = 'str-astral' if n > 0xffff else 'str-surrogate' if 0xd800 <= n <= 0xdfff else 'str-bmp'
        elif kind == 'fptr':
            ptype = PTR_TYPES[payload[0]]
            a = payload[1]
            x = ffi.cast(ptype, a)
            n = a % (1 << 64)
            c_leg = ('ull', n)
            roundtrip = (x, n, ptype)
            label = 'forged-' + ('funcptr' if '(*)' in ptype else 'array' if '[' in ptype else 'pointer')
        elif kind == 'own':
            name = OWNED[payload]
            x, n = S.owned_objects(flav)[name]
            c_leg = ('ull', n)
            roundtrip = (x, n, name)
            label = 'owned-' + name
        else:
            raise HarnessError('unknown source kind %r' % (kind,))

        if info.kind == 'bool':
            want = int(nonzero if nonzero is not None else n != 0)
        else:
            want = _wrap(n, lo, hi, size)
        nontrivial = kind != 'int' or not (lo <= n <= hi)
        key_payload = payload if kind != 'own' else OWNED[payload]
        ctx.note((t, kind, key_payload), nontrivial,
                 ['src=' + label, 'target=' + (info.kind if info.kind != 'int' else
                                               ('i' if csigned else 'u') + str(8 * csize)),
                  'in-range' if lo <= n <= hi else 'wraps',
                  'wide>64bit' if abs(n) >= 2 ** 64 else 'fits-64bit'])
        res = ffi.cast(t, x)          # any exception: the property says the cast succeeds
        got = int(res)
        if type(got) is not int or got != want:
            ctx.fail('int(ffi.cast(%r, %r)) == %r, expected %r' % (t, x, got, want),
                     type=t, kind=kind, payload=payload, flav=flav)
        if c_leg is not None:
            c = zoo.c_cast(t, c_leg[0], c_leg[1])
            ok = (c == got) if info.kind == 'bool' else ((c - got) % (1 << (8 * size)) == 0)
            if not ok:
                ctx.fail('int(ffi.cast(%r, %r)) == %r but gcc computes (%s)x == %r'
                         % (t, x, got, t, c), type=t, kind=kind, payload=payload, flav=flav)
            ctx.event('c-leg')
        if roundtrip is not None:
            _roundtrip(ctx, ffi, *roundtrip)


def _roundtrip(ctx, ffi, p, addr, what):
    tp = ffi.typeof(p)
    for ip in ('intptr_t', 'uintptr_t'):
        ctx.note(('roundtrip', ip, what, addr), True, 'roundtrip-' + ip)
        i = ffi.cast(ip, p)
        want_i = addr - (1 << 64) if (ip == 'intptr_t' and addr >= 1 << 63) else addr
        if int(i) != want_i:
            ctx.fail('int(ffi.cast(%r, %r)) == %r, expected address %r' % (ip, p, int(i), want_i),
                     what=what, address=addr)
        for back_type in (tp, 'void *'):
            q = ffi.cast(back_type, i)
            back = int(ffi.cast('uintptr_t', q))
            if back != addr:
                ctx.fail('pointer -> %s -> %s gives address %#x, expected %#x'
                         % (ip, back_type, back, addr), what=what, address=addr)
            # the same via a plain Python int
            q2 = ffi.cast(back_type, int(i))
            if int(ffi.cast('uintptr_t', q2)) != addr:
                ctx.fail('pointer -> %s -> int -> %s gives address %#x, expected %#x'
                         % (ip, back_type, int(ffi.cast('uintptr_t', q2)), addr), what=what, address=addr)
        if what in OWNED and what not in ('null', 'function'):
            # the memory is real: the pointer that came back still reads it
            q = ffi.cast('unsigned char *', ffi.cast(ip, p))
            first = ffi.buffer(p)[0:1] if what != 'array_plus_offset' else None
            if first is not None and bytes([q[0]]) != first:
                ctx.fail('round-tripped pointer reads %r, original memory starts with %r' % (q[0], first),
                         what=what, address=addr)
