"""C37 -- closed dlopen libraries refuse further symbol access.

Case: {'pin': 0|1|2, 'ops': [[name, a, b, c], ...]} interpreted against real library
objects over one test library (5 functions, 4 globals; compiled once per worker) and
a model {per lib object: mode, open/closed, functions fetched while open} x
{memory of the globals}.

ops: open (new lib object: in-line ffi.dlopen or out-of-line ffi.dlopen, default /
     RTLD_GLOBAL / RTLD_LAZY flags; up to 6 objects per history, so the same library
     is typically open several times), read / write a global, fetch a function,
     call a function (only on an open lib), close (ffi.dlclose, any number of times),
     dir(lib).
pin: the harness itself holds a ctypes handle on the library during the history
     (1 = RTLD_LOCAL, 2 = RTLD_GLOBAL): the library then stays mapped whatever cffi
     closes, which turns a wrong access after close into a *value* (no exception)
     instead of a crash, and lets the harness read the true memory after every step.
     With pin = 0 the library is really unmapped when the last lib object is closed
     (observed through /proc/self/maps; a later open starts from the initial values).

After ffi.dlclose(lib): every read/write of a global through lib and every fetch of a
function not fetched before the close must raise (an Exception; ValueError in-line,
ffi.error out-of-line today) and leave the memory untouched; closing again must not
raise.  While open, values follow the memory model (shared by all open lib objects).
Functions fetched before the close are never used after it (unspecified).
"""
import os, io, contextlib, ctypes
from hypothesis import strategies as st
from vlib.core import Violation, HarnessError
from vlib import cc

ID = 'C37'
LEVEL = 'exploration'
CRASHY = True
ASAN_TIERS = ('thorough',)
RULE = ('Hypothesis-generated op lists (open in-line/out-of-line with 3 flag sets, read/write of 4 globals, '
        'fetch/call of 5 functions, dlclose incl. repeated, dir) over up to 6 lib objects of one compiled '
        'library, optionally pinned by an independent ctypes handle (RTLD_LOCAL/RTLD_GLOBAL); oracle = '
        'open/closed x fetched-set model + memory model + true memory via the pin.  One evaluation = one '
        'history.  Non-trivial = some lib object is accessed both before and after its close, including a '
        'first fetch of a function after the close; distinct by op-list hash.')
TECHNIQUE = 'model-based history testing of dlopen/dlclose lib objects (in-line and out-of-line ABI), ASan in thorough tier'
LEVEL_TEXT = ('Random access histories around ffi.dlclose() on in-line and out-of-line lib objects always raise for '
              'globals and not-yet-fetched functions after the close, never change memory, and tolerate repeated '
              'closes; sampled, no proof.')
LEVEL_NOTE = ('Trusted: glibc dlopen reference counting (mapped state is observed, not assumed), ctypes as independent '
              'view of the globals, gcc-compiled test library.')
ASSUMPTIONS = ['functions fetched before the close are not used after it (unspecified by the property)',
               'any Exception other than MemoryError/SystemError counts as "raises an error"',
               'x86-64 glibc: a library is unmapped when its last handle is closed (observed via /proc/self/maps)']
BUDGET = {'quick': 480, 'thorough': 9600}
STEPS = {'quick': 25, 'thorough': 40}
TIME = {'quick': 20, 'thorough': 600}
MIN_PER_SHARD = 120      # 4 shards in the quick tier (start-up dominates), 16 in thorough
MAX_LIBS = 6

CDEF = """
extern int g0; extern long long g1; extern unsigned char g2; extern double g3;
int f0(int); long f1(long, long); double f2(double); int f3(void); void f4(int);
"""
CSRC = """
int g0 = 10; long long g1 = -5000000000LL; unsigned char g2 = 200; double g3 = 1.5;
int f0(int x) { return x + 1; }
long f1(long a, long b) { return a * 3 - b; }
double f2(double x) { return x * 0.5; }
int f3(void) { return g0; }
void f4(int v) { g0 = v; }
"""
INITIAL = {'g0': 10, 'g1': -5000000000, 'g2': 200, 'g3': 1.5}
GLOBALS = ['g0', 'g1', 'g2', 'g3']
CTYPES = {'g0': ctypes.c_int, 'g1': ctypes.c_longlong, 'g2': ctypes.c_ubyte, 'g3': ctypes.c_double}
FUNCS = ['f0', 'f1', 'f2', 'f3', 'f4']
VALUES = {
    'g0': [0, 1, -1, 2 ** 31 - 1, -2 ** 31, 12345, -777, 65536],
    'g1': [0, 1, -1, 2 ** 63 - 1, -2 ** 63, 5000000000, -42, 2 ** 32],
    'g2': [0, 1, 255, 128, 127, 200, 7, 99],
    'g3': [0.0, -1.0, 1.5, 2.25, 1e300, -1e-300, 123456.75, 3.0],
}


def setup(ctx):
    import cffi
    so = cc.compile_shared(CSRC, ctx.tmp, stem='c37lib')
    ffi1 = cffi.FFI()
    ffi1.cdef(CDEF)
    ffiG = cffi.FFI()
    ffiG.cdef(CDEF)
    ffiG.set_source('_c37_ool', None)
    path = os.path.join(ctx.tmp, '_c37_ool_%d.py' % os.getpid())
    with contextlib.redirect_stdout(io.StringIO()):
        ffiG.emit_python_code(path)
    ns = {}
    with open(path) as f:
        exec(compile(f.read(), path, 'exec'), ns)
    ffi2 = ns['ffi']
    if type(ffi2).__module__ != '_cffi_backend':
        raise HarnessError('out-of-line ffi is not the compiled FFI object')
    return {'ffis': [ffi1, ffi2], 'so': so}


OPS = ['open'] * 4 + ['read'] * 6 + ['write'] * 5 + ['fetch'] * 6 + ['call'] * 4 + ['close'] * 3 + ['dir'] * 1 + ['addressof'] * 3


def strategy(ctx):
    small = st.integers(0, 15)
    op = st.tuples(st.sampled_from(OPS), small, small, small).map(list)
    top = STEPS[ctx.tier]
    ops = st.sampled_from([1, 6, top // 2, top - 5]).flatmap(
        lambda m: st.lists(op, min_size=m, max_size=top))
    return st.fixed_dictionaries({'pin': st.integers(0, 2), 'ops': ops})


def is_mapped(so):
    with open('/proc/self/maps') as f:
        return so in f.read()


class L(object):
    __slots__ = ('mode', 'lib', 'open', 'fetched', 'before', 'after', 'first_fetch_after', 'closes')


class History(object):
    def __init__(self, state, pin, ctx):
        self.ffis = state['ffis']
        self.so = state['so']
        self.ctx = ctx
        self.libs = []
        self.mem = None           # model of the globals while the library is mapped
        self.pin = None
        self.step = -1
        self.flags = set()
        if is_mapped(self.so):
            # left mapped by an earlier history (only possible when a dlclose did not close): the mapping is
            # observed, not assumed, so put the globals back and carry on with a model of the mapped memory
            tmp = ctypes.CDLL(self.so)
            for name in GLOBALS:
                CTYPES[name].in_dll(tmp, name).value = INITIAL[name]
            import _ctypes
            _ctypes.dlclose(tmp._handle)
            self.mem = dict(INITIAL)
            self.flags.add('mapped-at-start')
        if pin:
            self.pin = ctypes.CDLL(self.so, mode=ctypes.RTLD_GLOBAL if pin == 2 else ctypes.RTLD_LOCAL)
            self.mem = dict(INITIAL)

    def finish(self):
        """close everything that is still open (so that the next history starts unmapped)"""
        for l in self.libs:
            try:
                self.ffis[l.mode].dlclose(l.lib)
            except Exception:
                pass
        if self.pin is not None:
            import _ctypes
            h = self.pin._handle
            self.pin = None
            _ctypes.dlclose(h)

    # ---- helpers
    def lib_for(self, a):
        if not self.libs:
            self.op_open(a, 0, 0)
        return self.libs[a % len(self.libs)]

    def must_raise(self, l, what, thunk):
        """an access through a closed lib object: has to raise, without touching memory"""
        try:
            thunk()
        except (MemoryError, SystemError):
            raise
        except Exception as e:
            self.ctx.event('closed-access-raises:' + type(e).__name__)
            return
        self.ctx.fail('%s through a closed %s lib object did not raise' % (what, ('in-line', 'out-of-line')[l.mode]),
                      step=self.step)

    # ---- ops
    def op_open(self, mode, flags, _):
        if len(self.libs) >= MAX_LIBS:
            return None
        mode %= 2
        ffi = self.ffis[mode]
        fl = [0, ffi.RTLD_GLOBAL | ffi.RTLD_NOW, ffi.RTLD_LAZY][flags % 3]
        was_mapped = is_mapped(self.so)
        if was_mapped != (self.mem is not None):
            raise HarnessError('model/mapping mismatch before open: mapped=%r' % was_mapped)
        l = L()
        l.mode = mode
        by_handle = (flags // 3) % 2 == 1
        if by_handle:
            # a lib object made from an already-opened 'void *' handle (both FFI flavours accept one)
            import _ctypes
            raw = _ctypes.dlopen(self.so, fl or os.RTLD_NOW)
            l.lib = ffi.dlopen(ffi.cast('void *', raw))
        else:
            l.lib = ffi.dlopen(self.so, fl) if fl else ffi.dlopen(self.so)
        l.open = True
        l.fetched = set()
        l.before = l.after = l.closes = 0
        l.first_fetch_after = False
        self.libs.append(l)
        if not was_mapped:
            self.mem = dict(INITIAL)       # freshly loaded
        return ['open-' + ('inline', 'ool')[mode], 'open-flags-' + ('default', 'global', 'lazy')[flags % 3],
                'open-by-' + ('handle' if by_handle else 'path')]

    def op_read(self, a, g, _):
        l = self.lib_for(a)
        name = GLOBALS[g % 4]
        if l.open:
            v = getattr(l.lib, name)
            l.before += 1
            if v != self.mem[name] or type(v) is not type(self.mem[name]):
                self.ctx.fail('global %s read through an open lib object is %r, memory model says %r'
                              % (name, v, self.mem[name]), step=self.step)
            return 'read-open'
        self.must_raise(l, 'reading global %s' % name, lambda: getattr(l.lib, name))
        l.after += 1
        return 'read-closed'

    def op_write(self, a, g, k):
        l = self.lib_for(a)
        name = GLOBALS[g % 4]
        v = VALUES[name][k % 8]
        if l.open:
            setattr(l.lib, name, v)
            l.before += 1
            self.mem[name] = v
            return 'write-open'
        self.must_raise(l, 'writing global %s' % name, lambda: setattr(l.lib, name, v))
        l.after += 1
        return 'write-closed'

    def op_fetch(self, a, f, _):
        l = self.lib_for(a)
        name = FUNCS[f % 5]
        if l.open:
            fn = getattr(l.lib, name)
            if not callable(fn):
                self.ctx.fail('fetched function %s is not callable' % name, step=self.step)
            l.fetched.add(name)
            l.before += 1
            return 'fetch-open'
        if name in l.fetched:
            # fetched before the close: behaviour after the close is not specified; getattr may
            # return the cached object or raise, and the result is not used
            try:
                getattr(l.lib, name)
            except (MemoryError, SystemError):
                raise
            except Exception:
                pass
            return 'fetch-closed-fetched-before'
        self.must_raise(l, 'fetching function %s (not fetched before the close)' % name,
                        lambda: getattr(l.lib, name))
        l.after += 1
        l.first_fetch_after = True
        return 'fetch-closed-first'

    def op_call(self, a, f, k):
        l = self.lib_for(a)
        if not l.open:
            return self.op_fetch(a, f, k)
        name = FUNCS[f % 5]
        fn = getattr(l.lib, name)
        l.fetched.add(name)
        l.before += 1
        x = VALUES['g0'][k % 8]
        if name == 'f0':
            x = x if x != 2 ** 31 - 1 else 5
            got, want = fn(x), x + 1
        elif name == 'f1':
            got, want = fn(x, k), x * 3 - k
        elif name == 'f2':
            got, want = fn(float(x)), x * 0.5
        elif name == 'f3':
            got, want = fn(), self.mem['g0']
        else:
            got, want = fn(x), None
            self.mem['g0'] = x
        if got != want:
            self.ctx.fail('%s called through an open lib object returned %r, expected %r' % (name, got, want),
                          step=self.step)
        return 'call-open'

    def op_close(self, a, _, __):
        l = self.lib_for(a)
        self.ffis[l.mode].dlclose(l.lib)         # must not raise, open or closed
        lab = 'close' if l.open else 'close-again'
        l.open = False
        l.closes += 1
        if self.pin is None and not any(x.open for x in self.libs):
            if is_mapped(self.so):
                self.flags.add('still-mapped-after-last-close')     # the memory (and the model of it) stays
            else:
                self.mem = None
                self.flags.add('library-really-unmapped')
        return lab

    def op_addressof(self, a, g, _):
        """ffi.addressof(lib, 'global'): a pointer to the variable while the lib is open (the in-line FFI
        caches it per lib object -- a cache that must not turn into a way around the closed check)"""
        l = self.lib_for(a)
        name = GLOBALS[g % 4]
        ffi = self.ffis[l.mode]
        if l.open:
            p = ffi.addressof(l.lib, name)
            l.before += 1
            v = p[0]
            if v != self.mem[name]:
                self.ctx.fail('*addressof(lib, %r) through an open lib object is %r, memory model says %r'
                              % (name, v, self.mem[name]), step=self.step)
            del p           # the pointer itself is never used after a close: that would be the caller's bug
            l.fetched.add('&' + name)
            return 'addressof-open'
        if '&' + name in l.fetched:
            # address taken before the close: like a function fetched before, what a repeated addressof()
            # does after the close is not specified (the in-line FFI returns its cached pointer)
            try:
                ffi.addressof(l.lib, name)
            except (MemoryError, SystemError):
                raise
            except Exception:
                pass
            return 'addressof-closed-taken-before'
        self.must_raise(l, 'addressof(lib, %r)' % name, lambda: ffi.addressof(l.lib, name))
        l.after += 1
        return 'addressof-closed'

    def op_dir(self, a, _, __):
        l = self.lib_for(a)
        try:
            names = dir(l.lib)
        except (MemoryError, SystemError):
            raise
        except Exception as e:
            return 'dir-raises'
        return 'dir-open' if l.open else 'dir-closed'

    def check(self):
        if self.pin is not None:
            for name in GLOBALS:
                true = CTYPES[name].in_dll(self.pin, name).value
                if true != self.mem[name]:
                    self.ctx.fail('memory of global %s is %r, model says %r (an access through a closed lib '
                                  'object went through, or a write was lost)' % (name, true, self.mem[name]),
                                  step=self.step)

    def run(self, ops):
        ctx = self.ctx
        for self.step, (name, a, b, c) in enumerate(ops):
            lab = getattr(self, 'op_' + name)(a, b, c)
            if lab is None:
                ctx.event('op:not-applicable')
                continue
            for x in ([lab] if isinstance(lab, str) else lab):
                ctx.event('op:' + x)
            self.check()
        for l in self.libs:
            if l.before and l.after:
                self.flags.add('both-sides-of-close')
                if l.first_fetch_after:
                    self.flags.add('both-sides+first-fetch-after')
            if l.closes >= 2:
                self.flags.add('closed-repeatedly')
        if len([l for l in self.libs if l.mode == 0]) and len([l for l in self.libs if l.mode == 1]):
            self.flags.add('inline+ool-together')


def prop(case, ctx):
    pin = case['pin'] % 3
    h = History(ctx.state, pin, ctx)
    try:
        h.run(case['ops'])
    finally:
        h.finish()
    nontrivial = 'both-sides+first-fetch-after' in h.flags
    ctx.note([pin, case['ops']], nontrivial,
             ['pin=' + ('none', 'local', 'global')[pin]] + sorted('hist:' + f for f in h.flags) +
             ['hist:nontrivial' if nontrivial else 'hist:trivial'])
