"""C24 -- cffi-gen-src output is byte-identical to FFI.emit_c_code.

Case = one input (cdef as a list of lines from G-CDEF plus decorations, a C
source prelude with arbitrary Unicode / CR / NUL / no trailing newline, a
dotted module name, ASCII or non-ASCII file names) and a list of *variants*:

  sub   'read-sources' | 'exec-python'
  bind  (exec-python) how the script binds the FFI: 'direct', 'subclass'
        (instance of an FFI subclass), 'func', 'lambda', 'object' (instance with
        __call__): the last three are "through a callable"
  var   name given with --ffi-var (None: the default 'ffibuilder', no option)
  split (exec-python) the cdef is fed by two cdef() calls cut at this line
  out   'file' | 'existing' (file already there with other content) | 'stdout'
  how   'run'      in-process cffi._cffi_gen_src.run(argv)  (the console-script
                   entry point declared in pyproject.toml [project.scripts])
        'runpy'    in-process runpy.run_module('cffi.gen_src', run_name='__main__')
        'script'   subprocess: a console-script file named cffi-gen-src generated
                   from the tree's [project.scripts] entry (same text as pip writes)
        'module'   subprocess: python -m cffi.gen_src

Oracle: bytes written (file or stdout) == bytes of the file that
FFI.emit_c_code(path) writes for an FFI built in-process by the same steps
(FFI(); cdef(text) [or the two cdef() calls of the script]; set_source(name,
prelude)), and exit status 0.  If the reference itself raises, nothing is
claimed for that input.
"""
import io, os, re, shutil, subprocess, sys
from vlib.core import Violation, HarnessError

ID = 'C24'
LEVEL = 'exploration'
TECHNIQUE = 'differential: cffi-gen-src (4 invocation forms) vs FFI.emit_c_code on the same inputs, byte comparison'
RULE = ('Hypothesis inputs: G-CDEF cdef lines (+ non-ASCII comments, CRLF after directives, missing final newline) '
        'x prelude (C lines, arbitrary Unicode incl. non-BMP, CR/CRLF, NUL, BOM, no trailing newline) x dotted module '
        'names x ASCII/non-ASCII file names; per input 3-6 variants over subcommand x binding (direct/subclass/'
        'func/lambda/object) x --ffi-var x output (file/existing file/stdout) x invocation (in-process run(), '
        'in-process runpy of cffi.gen_src, subprocess console script, subprocess python -m cffi.gen_src). An '
        'evaluation is one variant compared byte-for-byte with emit_c_code; non-trivial = non-ASCII prelude or '
        'callable binding or stdout output; distinct by (input, variant).')
LEVEL_TEXT = ('No byte difference between the tool and emit_c_code on generated inputs and variants beyond the '
              'listed known findings.')
LEVEL_NOTE = ('Trusts: UTF-8 locale (LC_ALL=C.UTF-8, PYTHONIOENCODING=utf-8) for both sides; the reference FFI is '
              'rebuilt from the same steps rather than taken from the script; the console script is regenerated '
              'from pyproject.toml [project.scripts] (pip template) rather than installed.')
ASSUMPTIONS = ['UTF-8 locale fixed by the harness: the property is about bytes, not locale errors',
               'inputs for which the in-process reference raises (cdef rejected, unencodable text) carry no claim',
               'no lone surrogates (not representable in the UTF-8 input files)',
               'emit_c_code is deterministic for equal FFI construction steps (C23) with PYTHONHASHSEED fixed']
BUDGET = {'quick': 400, 'thorough': 12000}
MIN_PER_SHARD = 20
MAX_SHARDS = 8
TIME = {'quick': 15, 'thorough': 800}
# share of cases that carry one subprocess variant
SUBPROC_SHARE = {'quick': 0.16, 'thorough': 0.4}

BINDS = ['direct', 'subclass', 'func', 'lambda', 'object']
CALLABLE = ('func', 'lambda', 'object')
TAG_CR = 'cr-in-prelude-file'


# ---------------------------------------------------------------- setup

def _entry_point():
    from vlib import env
    with open(os.path.join(env.REPO, 'pyproject.toml'), encoding='utf-8') as f:
        txt = f.read()
    m = re.search(r'^\[project\.scripts\]\s*\n((?:[^\[\n].*\n|\n)*)', txt, re.M)
    if not m:
        raise HarnessError('no [project.scripts] in pyproject.toml')
    m2 = re.search(r'^cffi-gen-src\s*=\s*"([\w.]+):([\w.]+)"', m.group(1), re.M)
    if not m2:
        raise HarnessError('no cffi-gen-src entry in [project.scripts]')
    return m2.group(1), m2.group(2)


def setup(ctx):
    mod, func = _entry_point()
    d = os.path.join(ctx.tmp, 'c24-%d' % os.getpid())
    os.makedirs(os.path.join(d, 'bin'), exist_ok=True)
    script = os.path.join(d, 'bin', 'cffi-gen-src')
    with open(script, 'w') as f:            # the text pip generates for a console_scripts entry
        f.write('#!%s\nimport sys\nfrom %s import %s\nif __name__ == \'__main__\':\n'
                '    sys.argv[0] = sys.argv[0].removesuffix(\'.exe\')\n    sys.exit(%s())\n'
                % (sys.executable, mod, func.split('.')[0], func))
    os.chmod(script, 0o755)
    return {'dir': d, 'n': 0, 'script': script, 'entry': (mod, func)}


# ---------------------------------------------------------------- generator

def strategy(ctx):
    from hypothesis import strategies as st
    from vlib import cdefgen
    feats = frozenset(cdefgen.DEFAULT_FEATURES | {'variadic', 'anon', 'anon_td'})
    share = SUBPROC_SHARE[ctx.tier]
    uni = st.text(st.characters(blacklist_categories=('Cs',)), max_size=12)
    spice = st.sampled_from(['é', '中', '\U0001f600', '\ufeff', '\x00', '\r', '\r\n', '\x0c', '\x85', ' ',
                             '\\', '"', "'''", '%s', '\t', '\x7f', 'é'])
    cline = st.sampled_from(['#include <math.h>\n', '#include <stdio.h>\r\n', 'static int sq(int x) { return x * x; }\n',
                             '/* préambule 中 \U0001f600 */\n', '// comment\n', '\n', 'typedef int myint_t;',
                             '#define STR "a\\nb"\n', 'static const char *s = "\\xc3\\xa9";\n', '\r', '\r\n'])
    prelude = st.lists(st.one_of(cline, cline, uni, spice), max_size=6).map(''.join)
    ident = st.from_regex(r'\A[A-Za-z_][A-Za-z0-9_]{0,6}\Z')
    name = st.lists(ident, min_size=1, max_size=3).map('.'.join)
    var = st.one_of(st.none(), st.sampled_from(['ffi', 'make_ffi', '_b', 'é', 'ffibuilder', 'FFI_2']))
    deco = st.sampled_from(['/* é 中 \U0001f600 */\n', '// ünï \U0001f600\n', '\n', '/* cr \r lf */\n', '  \n',
                            '/* \r\n */\n'])

    @st.composite
    def case(draw):
        spec = draw(cdefgen.specs(features=feats, min_decls=1, max_decls=7))
        lines = []
        for text, is_directive in cdefgen.decl_lines(spec):
            if draw(st.integers(0, 5)) == 0:
                lines.append(draw(deco))
            lines.append(text + ('\r\n' if is_directive and draw(st.integers(0, 3)) == 0 else '\n'))
        if lines and not lines[-1].endswith('\r\n') and draw(st.integers(0, 3)) == 0:
            lines[-1] = lines[-1][:-1]              # no trailing newline
        nvar = draw(st.integers(3, 6))
        sub_slot = draw(st.integers(0, nvar - 1)) if draw(st.floats(0, 1)) < share else -1
        variants = []
        for i in range(nvar):
            sub = draw(st.sampled_from(['read-sources', 'exec-python', 'exec-python']))
            v = {'sub': sub, 'out': draw(st.sampled_from(['file', 'file', 'existing', 'stdout', 'stdout'])),
                 'how': (draw(st.sampled_from(['script', 'module'])) if i == sub_slot
                         else draw(st.sampled_from(['run', 'run', 'runpy'])))}
            if sub == 'exec-python':
                v['bind'] = draw(st.sampled_from(BINDS))
                v['var'] = draw(var)
                v['split'] = draw(st.integers(-1, len(lines)))
                v['crlf_script'] = draw(st.integers(0, 4)) == 0
            variants.append(v)
        return {'cdef': lines, 'prelude': draw(prelude), 'name': draw(name),
                'fnames': draw(st.sampled_from(['ascii', 'ascii', 'unicode'])), 'variants': variants}
    return case()


# ---------------------------------------------------------------- reference

class _Quiet(object):
    """emit_c_code prints 'generating ...' on stdout: keep the harness' stdout clean"""
    def __enter__(self):
        self.old = sys.stdout
        sys.stdout = io.StringIO()

    def __exit__(self, *a):
        sys.stdout = self.old


def reference(parts, name, prelude, path):
    """bytes of the file written by emit_c_code(path) for cdef(parts[0]); cdef(parts[1]).. ; set_source"""
    import cffi
    ffi = cffi.FFI()
    for p in parts:
        ffi.cdef(p)
    ffi.set_source(name, prelude)
    with _Quiet():
        ffi.emit_c_code(path)
    with open(path, 'rb') as f:
        data = f.read()
    os.unlink(path)
    return data


def _universal_newlines(s):
    return s.replace('\r\n', '\n').replace('\r', '\n')


# ---------------------------------------------------------------- the script for exec-python

def make_script(v, parts, name, prelude):
    var = v['var'] or 'ffibuilder'
    bind = v['bind']
    build = ['b = %s()' % ('MyFFI' if bind == 'subclass' else 'cffi.FFI')]
    build += ['b.cdef(%r)' % p for p in parts]
    build += ['b.set_source(%r, %r)' % (name, prelude)]
    lines = ['# -*- coding: utf-8 -*-', '# généré pour C24 \U0001f600', 'import cffi', '']
    if bind == 'subclass':
        lines += ['class MyFFI(cffi.FFI):', '    pass', '']
    if bind in ('direct', 'subclass'):
        lines += build + ['%s = b' % var]
    elif bind == 'func':
        lines += ['def %s():' % var] + ['    ' + x for x in build] + ['    return b']
    elif bind == 'lambda':
        lines += ['def _mk():'] + ['    ' + x for x in build] + ['    return b', '%s = lambda: _mk()' % var]
    elif bind == 'object':
        lines += ['class _Maker(object):', '    def __call__(self):'] + ['        ' + x for x in build] + \
                 ['        return b', '%s = _Maker()' % var]
    else:
        raise HarnessError('bad bind %r' % bind)
    # the documented trailer: must be skipped by the tool (__name__ is not '__main__')
    lines += ['', "if __name__ == '__main__':", "    raise SystemExit(3)", '']
    text = '\n'.join(lines)
    if v.get('crlf_script'):
        text = text.replace('\n', '\r\n')
    return text


# ---------------------------------------------------------------- running the tool

def _run_inproc(how, argv, entry):
    """-> (exit status, stdout bytes)"""
    import importlib, runpy
    raw = io.BytesIO()
    wrapper = io.TextIOWrapper(raw, encoding='utf-8', newline='\n', write_through=True)
    old_out, old_argv = sys.stdout, sys.argv
    sys.stdout = wrapper
    status = None
    try:
        try:
            if how == 'run':
                mod = importlib.import_module(entry[0])
                fn = mod
                for part in entry[1].split('.'):
                    fn = getattr(fn, part)
                sys.argv = ['cffi-gen-src'] + argv
                fn()                 # as the console script does: arguments from sys.argv
            else:
                sys.argv = ['gen_src.py'] + argv
                runpy.run_module('cffi.gen_src', run_name='__main__', alter_sys=True)
            status = 'returned'
        except SystemExit as e:
            status = 0 if e.code is None else e.code
        except Exception as e:
            status = 'exception %s: %s' % (type(e).__name__, str(e)[:300])
    finally:
        sys.stdout, sys.argv = old_out, old_argv
    wrapper.flush()
    return status, raw.getvalue()


def _run_subproc(how, argv, script):
    if how == 'script':
        cmd = [sys.executable, script] + argv
    else:
        cmd = [sys.executable, '-m', 'cffi.gen_src'] + argv
    r = subprocess.run(cmd, stdin=subprocess.DEVNULL, stdout=subprocess.PIPE, stderr=subprocess.PIPE)
    return r.returncode, r.stdout, r.stderr


def _first_diff(a, b):
    n = min(len(a), len(b))
    for i in range(n):
        if a[i] != b[i]:
            return i
    return n


def prop(case, ctx):
    st_ = ctx.state
    st_['n'] += 1
    d = os.path.join(st_['dir'], 'case-%d' % st_['n'])
    os.makedirs(d)
    try:
        _prop(case, ctx, d, st_)
    finally:
        shutil.rmtree(d, ignore_errors=True)


def _prop(case, ctx, d, st_):
    lines, prelude, name = case['cdef'], case['prelude'], case['name']
    cdef = ''.join(lines)
    uni = case.get('fnames') == 'unicode'
    fn = (lambda s: os.path.join(d, ('dé 中 ' if uni else '') + s))
    nonascii_prelude = any(ord(c) > 127 for c in prelude)
    cr_in_prelude = '\r' in prelude
    refs = {}

    def ref_for(parts, prel):
        key = (tuple(parts), prel)
        if key not in refs:
            try:
                refs[key] = reference(parts, name, prel, fn('reference.c'))
            except Exception as e:          # no reference => no claim (e.g. CDefError, UnicodeEncodeError)
                refs[key] = e
        return refs[key]

    for vi, v in enumerate(case['variants']):
        sub = v['sub']
        prel_seen = prelude
        if sub == 'read-sources':
            parts = [cdef]
            if cr_in_prelude and ctx.skip_known(TAG_CR):
                prel_seen = _universal_newlines(prelude)   # compare the rest of the behaviour
        else:
            k = v.get('split', -1)
            parts = [cdef] if not (0 <= k <= len(lines)) else [''.join(lines[:k]), ''.join(lines[k:])]
        expected = ref_for(parts, prel_seen)
        cls = ['sub:' + sub, 'out:' + v['out'], 'how:' + v['how']]
        if sub == 'exec-python':
            cls += ['bind:' + v['bind'], 'ffi-var:' + ('default' if v.get('var') is None else 'custom'),
                    'cdef-calls:%d' % len(parts)]
        if nonascii_prelude:
            cls.append('prelude:non-ascii')
        if cr_in_prelude:
            cls.append('prelude:has-CR')
        if isinstance(expected, Exception):
            ctx.note([case['cdef'], prelude, name, v], False, 'reference-raises:' + type(expected).__name__)
            continue
        nontrivial = nonascii_prelude or v['out'] == 'stdout' or (sub == 'exec-python' and v['bind'] in CALLABLE)
        ctx.note([case['cdef'], prelude, name, case.get('fnames'), v], nontrivial, cls)
        # ---- inputs
        outpath = fn('out-%d.c' % vi)
        if v['out'] == 'existing':
            with open(outpath, 'wb') as f:
                f.write(b'/* stale \xc3\xa9 content, longer than nothing */\n' * 50)
        outarg = '-' if v['out'] == 'stdout' else outpath
        if sub == 'read-sources':
            cpath, spath = fn('in-%d.cdef.h' % vi), fn('in-%d.prelude.c' % vi)
            with open(cpath, 'wb') as f:
                f.write(cdef.encode('utf-8'))
            with open(spath, 'wb') as f:
                f.write(prelude.encode('utf-8'))
            argv = ['read-sources', name, cpath, spath, outarg]
        else:
            ppath = fn('build_%d.py' % vi)
            with open(ppath, 'wb') as f:
                f.write(make_script(v, parts, name, prelude).encode('utf-8'))
            argv = ['exec-python'] + (['--ffi-var', v['var']] if v.get('var') is not None else []) + [ppath, outarg]
        # ---- run
        stderr = b''
        if v['how'] in ('run', 'runpy'):
            status, out = _run_inproc(v['how'], argv, st_['entry'])
        else:
            status, out, stderr = _run_subproc(v['how'], argv, st_['script'])
        detail = dict(variant=v, argv=argv[:2], stderr=stderr.decode('utf-8', 'replace')[-1500:])
        if status != 0:
            ctx.fail('cffi-gen-src %s (%s) ended with status %r, emit_c_code succeeds on the same input'
                     % (sub, v['how'], status), **detail)
        if v['out'] == 'stdout':
            got = out
            if os.path.exists(outpath):
                ctx.fail("output '-' also created a file", **detail)
        else:
            try:
                with open(outpath, 'rb') as f:
                    got = f.read()
            except OSError as e:
                ctx.fail('no output file written: %s' % e, **detail)
        if got != expected:
            i = _first_diff(got, expected)
            ctx.fail('%s (%s, output %s): bytes differ from emit_c_code at offset %d (tool %d bytes, emit_c_code %d bytes)'
                     % (sub, v['how'], v['out'], i, len(got), len(expected)),
                     tool=repr(got[max(0, i - 40):i + 60]), emit_c_code=repr(expected[max(0, i - 40):i + 60]), **detail)
