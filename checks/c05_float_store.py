"""C05 -- floating-point and complex stores round-trip with C conversion semantics;
long double copies are bit-exact.

Case families:
  real    : T in {float, double}; values = [form, payload] with form
            'f' plain Python float (payload = binary64 bit pattern), 'o' object with
            __float__, 'i' Python int (has __float__), 'b'/'s' 1-char bytes/str (cast only);
            every value goes through every listed store path.
  complex : T in {float _Complex, double _Complex}; values = [re_bits, im_bits].
  ld      : long double; values = valid non-signalling x87 80-bit patterns written
            through ffi.buffer, then read and stored again / cast / ffi.new-copied.

Oracle: an integer-arithmetic model of IEEE-754 round-to-nearest-even narrowing
(binary64 -> binary32), cross-checked on every value against ctypes.c_float and a
gcc-compiled `float narrow(double)`; bit-pattern equality of the stored bytes and of
what is read back (any NaN for a NaN); complex component-wise; long double: first
10 bytes identical.
"""
import sys, struct, ctypes
from hypothesis import strategies as st
from vlib.core import Violation, HarnessError
from vlib import typezoo, gfloat

ID = 'C05'
LEVEL = 'exploration'
RULE = ('One case = one target type and 1-8 values pushed through a subset of the store paths. '
        'real: float/double x G-FLOAT bit patterns (random 64-bit patterns incl. NaN/inf/subnormals, '
        'neighbours of 2**k, FLT_MAX, FLT_MIN, float ties, integer limits) given as float, object with '
        '__float__, int, or (cast only) 1-char bytes/str x 19 paths (ffi.new / array / struct initializer, '
        'p[0]=, array item, field, ffi.cast, global via in-line / out-of-line ABI / API lib, call argument '
        'via API wrapper / API libffi pointer / in-line / out-of-line dlopen, callback result via '
        'ffi.callback of 3 FFI flavours and extern "Python"). complex: float/double _Complex x pairs of '
        'G-FLOAT x 11 paths. ld: valid non-signalling x87 80-bit patterns x 10 copy paths. Oracle = '
        'integer model of round-to-nearest-even narrowing (cross-checked with ctypes.c_float and compiled '
        'C) on the stored bytes and on the value read back; long double: first 10 bytes equal. An '
        'evaluation is one value through one path; non-trivial = not exactly representable as float, or '
        'non-finite, or subnormal (ld: anything but zero); distinct by (type, path, form, bit pattern).')
TECHNIQUE = 'property-based testing (Hypothesis) against an IEEE-754 rounding model, ctypes and compiled C'
LEVEL_TEXT = ('Random bit patterns and boundary-directed doubles through every store path of float, double, '
              'the complex types and long double, compared bit-for-bit with an independent rounding model. '
              'Finds violations, cannot establish absence over all 2**64 patterns.')
LEVEL_NOTE = ('Trusted: the rounding model in this module (itself cross-checked against ctypes.c_float and '
              'gcc on every value), gcc 12 x86-64 identity functions / callers, ctypes, Hypothesis.')
ASSUMPTIONS = ['x86-64 SysV: float = binary32, double = binary64, long double = x87 80-bit in 16 bytes',
               'NaN results are only required to be NaN (payload/sign not compared)',
               'x87 pseudo-denormals, unnormals and signalling NaNs are outside the long double domain']
BUDGET = {'quick': 1200, 'thorough': 60000}
TIME = {'quick': 15, 'thorough': 600}
MIN_PER_SHARD = 20

MEM_PATHS = ['new', 'new_array_init', 'field_init', 'ptr_item', 'array_item', 'field']
GLOBAL_PATHS = ['global_inline', 'global_abi', 'global_api']
ARG_PATHS = ['arg_api', 'arg_api_ffi', 'arg_inline', 'arg_abi']
CB_PATHS = ['cb_inline', 'cb_abi', 'cb_api', 'externpy']
REAL_PATHS = MEM_PATHS + ['cast'] + GLOBAL_PATHS + ARG_PATHS + CB_PATHS
COMPLEX_PATHS = MEM_PATHS + ['cast'] + GLOBAL_PATHS + ['arg_api']
LD_PATHS = ['item', 'array_item', 'field', 'field_init', 'new', 'new_array_init', 'cast'] + GLOBAL_PATHS

_unraisable = []


def _hook(u):
    _unraisable.append(u.exc_type)


class _HasFloat(object):
    def __init__(self, x):
        self.x = x

    def __float__(self):
        return self.x


class State(object):
    def __init__(self, zoo):
        self.zoo = zoo
        self.narrow = zoo.cdll.tz_narrow
        self.narrow.restype = ctypes.c_float
        self.narrow.argtypes = [ctypes.c_double]

    def flavour(self, k):
        if k == 0:
            return self.zoo.inline()
        if k == 1:
            return self.zoo.abi()
        return self.zoo.api.ffi, self.zoo.api.lib


def setup(ctx):
    sys.unraisablehook = _hook
    return State(typezoo.get())


# ------------------------------------------------------------------ model

model_narrow = gfloat.model_narrow


def _widen_bits(fb):
    return gfloat.to_bits(gfloat.f32_from_bits(fb))


def _is_nan32(fb):
    return (fb >> 23) & 0xff == 0xff and fb & 0x7fffff != 0


class Expect(object):
    """What a store of double pattern `b` into T must leave in memory / read back."""

    def __init__(self, S, t, b):
        self.nan = gfloat.is_nan_bits(b)
        if t == 'double':
            self.size = 8
            self.mem = None if self.nan else b
            self.read = None if self.nan else b
        else:
            self.size = 4
            fb = model_narrow(b)
            x = gfloat.from_bits(b)
            c1 = gfloat.f32_bits_of_double(x)
            c2 = struct.unpack('<I', struct.pack('<f', S.narrow(x)))[0]
            for name, c in (('ctypes.c_float', c1), ('compiled tz_narrow', c2)):
                if (fb is None) != _is_nan32(c) or (fb is not None and fb != c):
                    raise HarnessError('rounding model disagrees with %s on %#x: model %r, C %#x'
                                       % (name, b, fb, c))
            self.mem = fb
            self.read = None if fb is None else _widen_bits(fb)

    def check_mem(self, ctx, raw, what):
        got = int.from_bytes(raw, 'little')
        if self.mem is None:
            ok = _is_nan32(got) if self.size == 4 else gfloat.is_nan_bits(got)
        else:
            ok = got == self.mem
        if not ok:
            ctx.fail('%s: stored bytes %#x, expected %s' % (what, got, 'a NaN' if self.mem is None
                                                            else '%#x' % self.mem))

    def check_read(self, ctx, value, what):
        if type(value) is not float:
            ctx.fail('%s: read back %r (not a float)' % (what, value))
        got = gfloat.to_bits(value)
        ok = gfloat.is_nan_bits(got) if self.read is None else got == self.read
        if not ok:
            ctx.fail('%s: read back %r (%#x), expected %s' % (what, value, got, 'a NaN' if self.read is None
                                                              else '%r (%#x)' % (gfloat.from_bits(self.read),
                                                                                 self.read)))


# ------------------------------------------------------------------ strategies

def _x87_valid(draw):
    sign = draw(st.integers(0, 1))
    kind = draw(st.sampled_from(['normal', 'normal', 'normal', 'zero', 'denormal', 'inf', 'qnan', 'edge']))
    if kind == 'normal':
        exp = draw(st.one_of(st.integers(1, 0x7ffe), st.sampled_from([1, 2, 0x3ffe, 0x3fff, 0x4000, 0x7ffe]),
                             st.integers(0x3fff - 70, 0x3fff + 70)))
        frac = draw(st.one_of(st.integers(0, 2 ** 63 - 1), st.sampled_from(
            [0, 1, 2 ** 63 - 1, 2 ** 62, 2 ** 11, 2 ** 11 - 1, 2 ** 10, 2 ** 40 - 1, 2 ** 62 + 1])))
        mant = (1 << 63) | frac
    elif kind == 'zero':
        exp, mant = 0, 0
    elif kind == 'denormal':
        exp, mant = 0, draw(st.integers(1, 2 ** 63 - 1))
    elif kind == 'inf':
        exp, mant = 0x7fff, 1 << 63
    elif kind == 'qnan':
        exp, mant = 0x7fff, (3 << 62) | draw(st.integers(0, 2 ** 62 - 1))
    else:
        exp, mant = draw(st.sampled_from([(1, 1 << 63), (0x7ffe, 2 ** 64 - 1), (0, 1), (0, 2 ** 63 - 1),
                                          (0x3fff, 1 << 63), (0x3fff, (1 << 63) | 1)]))
    return (sign << 79) | (exp << 64) | mant


def strategy(ctx):
    bits = gfloat.double_bits()
    small_int = st.one_of(st.integers(-2 ** 70, 2 ** 70), st.sampled_from(
        [0, 1, -1, 2 ** 24, 2 ** 24 + 1, 2 ** 53 + 1, 2 ** 63, -2 ** 63, 2 ** 64 - 1, 16777217, 33554433]))
    forms = {
        'f': st.tuples(st.just('f'), bits), 'o': st.tuples(st.just('o'), bits),
        'i': st.tuples(st.just('i'), small_int), 'b': st.tuples(st.just('b'), st.integers(0, 255)),
        's': st.tuples(st.just('s'), st.one_of(st.integers(0, 0x10ffff), st.sampled_from(
            [0, 0x7f, 0xff, 0x100, 0xffff, 0x10000, 0x10ffff, 16777217 & 0xffff])))}
    value = st.sampled_from(['f'] * 6 + ['o'] * 2 + ['i', 'b', 's']).flatmap(lambda k: forms[k]).map(list)

    def paths_of(all_paths):
        return st.one_of(st.lists(st.sampled_from(all_paths), min_size=1, max_size=6, unique=True),
                         st.just(all_paths))
    real = st.fixed_dictionaries({
        'fam': st.just('real'), 't': st.sampled_from(['float', 'float', 'double']),
        'vals': st.lists(value, min_size=1, max_size=8, unique_by=repr),
        'paths': paths_of(REAL_PATHS), 'flav': st.integers(0, 2)})
    cplx = st.fixed_dictionaries({
        'fam': st.just('complex'), 't': st.sampled_from(['float _Complex', 'float _Complex', 'double _Complex']),
        'vals': st.lists(st.tuples(bits, bits).map(list), min_size=1, max_size=8, unique_by=repr),
        'paths': paths_of(COMPLEX_PATHS), 'flav': st.integers(0, 2)})
    ld = st.fixed_dictionaries({
        'fam': st.just('ld'), 't': st.just('long double'),
        'vals': st.lists(st.composite(_x87_valid)(), min_size=1, max_size=8, unique=True),
        'paths': paths_of(LD_PATHS), 'flav': st.integers(0, 2)})
    fams = {'real': real, 'complex': cplx, 'ld': ld}
    return st.sampled_from(['real'] * 5 + ['complex'] * 2 + ['ld']).flatmap(lambda k: fams[k])


# ------------------------------------------------------------------ property

def prop(case, ctx):
    S = ctx.state
    fam = case['fam']
    if fam == 'real':
        _real(case, ctx, S)
    elif fam == 'complex':
        _complex(case, ctx, S)
    elif fam == 'ld':
        _ld(case, ctx, S)
    else:
        raise HarnessError('unknown family %r' % (fam,))


def _source(form, payload):
    """-> (object to store, double bit pattern C starts from)"""
    if form == 'f':
        return gfloat.from_bits(payload), payload
    if form == 'o':
        return _HasFloat(gfloat.from_bits(payload)), payload
    if form == 'i':
        return payload, gfloat.to_bits(float(payload))
    if form == 'b':
        return bytes([payload]), gfloat.to_bits(float(payload))
    if form == 's':
        return chr(payload), gfloat.to_bits(float(payload))
    raise HarnessError('unknown value form %r' % (form,))


def _real(case, ctx, S):
    t = case['t']
    if t not in ('float', 'double'):
        raise HarnessError('bad real type %r' % (t,))
    N = t
    zoo = S.zoo
    mffi, mlib = S.flavour(case['flav'])
    for form, payload in case['vals']:
        x, b = _source(form, payload)
        exp = Expect(S, t, b)
        cls = gfloat.classify(b)
        nontriv = cls not in ('float-exact', 'zero')
        for path in case['paths']:
            if form in ('b', 's') and path != 'cast':
                continue                     # 1-char bytes/str convert only in ffi.cast
            ctx.note((t, path, form, payload), nontriv,
                     ['path=' + path, 'type=' + t, 'form=' + form, 'value=' + cls])
            what = 'store of %r (%s %#x) into %s via %s' % (x, form, b, t, path)
            if path in MEM_PATHS:
                _real_mem(ctx, mffi, t, N, x, exp, path, what)
            elif path == 'cast':
                c = mffi.cast(t, x)
                exp.check_read(ctx, float(c), what)
                p = mffi.new(t + ' *', c)
                exp.check_mem(ctx, bytes(mffi.buffer(p)), what + ' (copied with ffi.new)')
            elif path in GLOBAL_PATHS:
                ffi, lib = S.flavour(GLOBAL_PATHS.index(path))
                buf = ffi.buffer(ffi.addressof(lib, 'g_' + N))
                buf[:] = b'\xa5' * len(buf)
                setattr(lib, 'g_' + N, x)
                exp.check_mem(ctx, bytes(buf), what)
                exp.check_read(ctx, getattr(lib, 'g_' + N), what)
                exp.check_read(ctx, getattr(lib, 'get_' + N)(), what + ' (C reads)')
            elif path in ARG_PATHS:
                if path == 'arg_api':
                    fn = getattr(zoo.api.lib, 'id_' + N)
                elif path == 'arg_api_ffi':
                    fn = zoo.api.ffi.addressof(zoo.api.lib, 'id_' + N)
                elif path == 'arg_inline':
                    fn = getattr(zoo.inline()[1], 'id_' + N)
                else:
                    fn = getattr(zoo.abi()[1], 'id_' + N)
                exp.check_read(ctx, fn(x), what + ' (echo)')
            elif path in CB_PATHS:
                if path == 'externpy':
                    ffi, lib = zoo.api.ffi, zoo.api.lib
                    ffi.def_extern(name='xp_' + N)(lambda: x)
                    cb = getattr(lib, 'xp_' + N)
                else:
                    ffi, lib = S.flavour(CB_PATHS.index(path))
                    cb = ffi.callback('%s(*)(void)' % t, lambda: x)
                del _unraisable[:]
                got = getattr(lib, 'callcb_' + N)(cb)
                if _unraisable:
                    ctx.fail('%s: callback reported %r' % (what, [e.__name__ for e in _unraisable]))
                exp.check_read(ctx, got, what + ' (C caller received)')
            else:
                raise HarnessError('unknown path %r' % (path,))


def _real_mem(ctx, ffi, t, N, x, exp, path, what):
    size = exp.size
    if path == 'new':
        p = ffi.new(t + ' *', x)
        raw, got = bytes(ffi.buffer(p)), p[0]
    elif path == 'new_array_init':
        p = ffi.new(t + '[]', [x])
        raw, got = bytes(ffi.buffer(p)), p[0]
    elif path == 'field_init':
        p = ffi.new('struct s_%s *' % N, {'f': x})
        off = ffi.offsetof('struct s_%s' % N, 'f')
        raw, got = bytes(ffi.buffer(p))[off:off + size], p.f
    else:
        if path == 'ptr_item':
            p, off = ffi.new(t + ' *'), 0
        elif path == 'array_item':
            p, off = ffi.new(t + '[3]'), size
        else:
            p = ffi.new('struct s_%s *' % N)
            off = ffi.offsetof('struct s_%s' % N, 'f')
        buf = ffi.buffer(p)
        total = len(buf)
        buf[:] = b'\xa5' * total
        if path == 'ptr_item':
            p[0] = x
            got = p[0]
        elif path == 'array_item':
            p[1] = x
            got = p[1]
        else:
            p.f = x
            got = p.f
        whole = bytes(buf)
        if whole[:off] != b'\xa5' * off or whole[off + size:] != b'\xa5' * (total - off - size):
            ctx.fail('%s: bytes outside the target changed: %s' % (what, whole.hex()))
        raw = whole[off:off + size]
    exp.check_mem(ctx, raw, what)
    exp.check_read(ctx, got, what)


def _complex(case, ctx, S):
    t = case['t']
    if t not in ('float _Complex', 'double _Complex'):
        raise HarnessError('bad complex type %r' % (t,))
    part = 'float' if t.startswith('float') else 'double'
    N = typezoo.BY_NAME[t].ident
    psize = 4 if part == 'float' else 8
    zoo = S.zoo
    mffi, mlib = S.flavour(case['flav'])
    for rb, ib in case['vals']:
        z = complex(gfloat.from_bits(rb), gfloat.from_bits(ib))
        er, ei = Expect(S, part, rb), Expect(S, part, ib)
        classes = (gfloat.classify(rb), gfloat.classify(ib))
        nontriv = any(c not in ('float-exact', 'zero') for c in classes)

        def check_mem(raw, what):
            er.check_mem(ctx, raw[:psize], what + ' [real part]')
            ei.check_mem(ctx, raw[psize:2 * psize], what + ' [imaginary part]')

        def check_read(v, what):
            if type(v) is not complex:
                ctx.fail('%s: read back %r (not a complex)' % (what, v))
            er.check_read(ctx, v.real, what + ' [real part]')
            ei.check_read(ctx, v.imag, what + ' [imaginary part]')
        for path in case['paths']:
            ctx.note((t, path, rb, ib), nontriv, ['path=' + path, 'type=' + t, 'value=' + classes[0],
                                                  'value=' + classes[1]])
            what = 'store of %r (%#x, %#x) into %s via %s' % (z, rb, ib, t, path)
            ffi = mffi
            if path == 'new':
                p = ffi.new(t + ' *', z)
                check_mem(bytes(ffi.buffer(p)), what)
                check_read(p[0], what)
            elif path == 'new_array_init':
                p = ffi.new(t + '[]', [z])
                check_mem(bytes(ffi.buffer(p)), what)
                check_read(p[0], what)
            elif path == 'field_init':
                p = ffi.new('struct s_%s *' % N, {'f': z})
                off = ffi.offsetof('struct s_%s' % N, 'f')
                check_mem(bytes(ffi.buffer(p))[off:], what)
                check_read(p.f, what)
            elif path in ('ptr_item', 'array_item', 'field'):
                if path == 'ptr_item':
                    p, off = ffi.new(t + ' *'), 0
                elif path == 'array_item':
                    p, off = ffi.new(t + '[3]'), 2 * psize
                else:
                    p = ffi.new('struct s_%s *' % N)
                    off = ffi.offsetof('struct s_%s' % N, 'f')
                buf = ffi.buffer(p)
                total = len(buf)
                buf[:] = b'\xa5' * total
                if path == 'ptr_item':
                    p[0] = z
                    got = p[0]
                elif path == 'array_item':
                    p[1] = z
                    got = p[1]
                else:
                    p.f = z
                    got = p.f
                whole = bytes(buf)
                if whole[:off] != b'\xa5' * off or whole[off + 2 * psize:] != b'\xa5' * (total - off - 2 * psize):
                    ctx.fail('%s: bytes outside the target changed: %s' % (what, whole.hex()))
                check_mem(whole[off:off + 2 * psize], what)
                check_read(got, what)
            elif path == 'cast':
                # the same value held by a complex cdata of the *wider* type as the source of plain stores:
                # each part is converted like the Python complex it stands for (not copied byte-wise)
                zc = ffi.cast('double _Complex', z)
                pz = ffi.new(t + ' *', zc)
                check_mem(bytes(ffi.buffer(pz)), what + ' (source: a double _Complex cdata, ffi.new)')
                pz = ffi.new(t + '[2]')
                pz[1] = zc
                check_mem(bytes(ffi.buffer(pz))[2 * psize:], what + ' (source: a double _Complex cdata, item store)')
                ps = ffi.new('struct s_%s *' % N)
                ps.f = zc
                check_read(ps.f, what + ' (source: a double _Complex cdata, field store)')
                c = ffi.cast(t, z)
                check_read(complex(c), what)
                p = ffi.new(t + ' *', c)
                check_mem(bytes(ffi.buffer(p)), what + ' (copied with ffi.new)')
            elif path in GLOBAL_PATHS:
                gffi, lib = S.flavour(GLOBAL_PATHS.index(path))
                buf = gffi.buffer(gffi.addressof(lib, 'g_' + N))
                buf[:] = b'\xa5' * len(buf)
                setattr(lib, 'g_' + N, z)
                check_mem(bytes(buf), what)
                check_read(getattr(lib, 'g_' + N), what)
            elif path == 'arg_api':
                check_read(getattr(zoo.api.lib, 'id_' + N)(z), what + ' (echo)')
            else:
                raise HarnessError('unknown path %r' % (path,))


def _ld(case, ctx, S):
    t = 'long double'
    N = 'long_double'
    ffi, mlib = S.flavour(case['flav'])
    for pat in case['vals']:
        exp_e = (pat >> 64) & 0x7fff
        mant = pat & (2 ** 64 - 1)
        valid = ((exp_e == 0 and mant >> 63 == 0) or (0 < exp_e < 0x7fff and mant >> 63 == 1) or
                 (exp_e == 0x7fff and (mant == 1 << 63 or mant >> 62 == 3)))
        if not valid or pat >> 80:
            raise HarnessError('not a valid non-signalling x87 pattern: %#x' % pat)
        src10 = pat.to_bytes(10, 'little')
        p = ffi.new('long double *')
        ffi.buffer(p)[0:10] = src10
        kind = ('zero' if exp_e == 0 and mant == 0 else 'denormal' if exp_e == 0 else
                'inf' if exp_e == 0x7fff and mant == 1 << 63 else 'qnan' if exp_e == 0x7fff else
                'normal-needs-64-bit-mantissa' if mant & 0x7ff else 'normal-fits-double-mantissa')
        for path in case['paths']:
            ctx.note((t, path, pat), kind != 'zero', ['path=ld-' + path, 'ld=' + kind])
            what = 'long double %#x copied via %s' % (pat, path)
            v = p[0]                       # read from memory: a <cdata 'long double'>
            if path == 'item':
                q = ffi.new('long double *')
                ffi.buffer(q)[:] = b'\xa5' * 16
                q[0] = v
                raw = bytes(ffi.buffer(q))[:10]
            elif path == 'array_item':
                q = ffi.new('long double[3]')
                ffi.buffer(q)[:] = b'\xa5' * 48
                q[1] = v
                whole = bytes(ffi.buffer(q))
                if whole[:16] != b'\xa5' * 16 or whole[32:] != b'\xa5' * 16:
                    ctx.fail('%s: neighbouring items changed' % what)
                raw = whole[16:26]
            elif path == 'field':
                q = ffi.new('struct s_long_double *')
                q.f = v
                off = ffi.offsetof('struct s_long_double', 'f')
                raw = bytes(ffi.buffer(q))[off:off + 10]
            elif path == 'field_init':
                q = ffi.new('struct s_long_double *', {'f': v})
                off = ffi.offsetof('struct s_long_double', 'f')
                raw = bytes(ffi.buffer(q))[off:off + 10]
            elif path == 'new':
                q = ffi.new('long double *', v)
                raw = bytes(ffi.buffer(q))[:10]
            elif path == 'new_array_init':
                q = ffi.new('long double[]', [v, v])
                raw = bytes(ffi.buffer(q))[16:26]
            elif path == 'cast':
                c = ffi.cast('long double', v)
                q = ffi.new('long double *', c)
                raw = bytes(ffi.buffer(q))[:10]
            elif path in GLOBAL_PATHS:
                gffi, lib = S.flavour(GLOBAL_PATHS.index(path))
                buf = gffi.buffer(gffi.addressof(lib, 'g_' + N))
                buf[:] = b'\xa5' * 16
                setattr(lib, 'g_' + N, v)
                raw = bytes(buf)[:10]
                # read the global again and store that
                q = gffi.new('long double *', getattr(lib, 'g_' + N))
                if bytes(gffi.buffer(q))[:10] != src10:
                    ctx.fail('%s: global read back and stored again gives %s, source %s'
                             % (what, bytes(gffi.buffer(q))[:10].hex(), src10.hex()))
            else:
                raise HarnessError('unknown path %r' % (path,))
            if raw != src10:
                ctx.fail('%s: destination bytes %s, source bytes %s' % (what, raw.hex(), src10.hex()))
            if bytes(ffi.buffer(p))[:10] != src10:
                ctx.fail('%s: the source memory changed' % what)
