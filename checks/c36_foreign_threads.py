"""C36 -- callbacks from non-Python threads get a valid, persistent thread state.

Case: a plan for native/c36_driver.c: spawn 1-8 foreign pthreads, make each call
ffi.callback() objects (synchronously or asynchronously, so several can be
inside Python at once) and exit, in a generated global order, interleaved with
Python-side activity (gc.collect(), Python-thread and main-thread callback
calls, creation of new callbacks).  One child process per plan.
"""
import os, sys, json, subprocess, hashlib, fcntl
from hypothesis import strategies as st
from vlib.core import Violation, HarnessError
from vlib import env

ID = 'C36'
LEVEL = 'exploration'
TECHNIQUE = 'history PBT: generated (thread, call | exit) orders enforced by a C pthread driver, per-thread model of ident / thread-local persistence, child process per plan'
RULE = ('Case = ordered steps over up to 8 foreign pthreads: spawn, call (sync/async) one of 3 callbacks, exit, '
        'gc.collect(), Python-thread call, main-thread call, new callback. Oracle inside every callback: result '
        'delivered to C, threading.get_ident() stable per foreign thread, threading.local value of call k visible in '
        'call k+1 and absent in the first call of every new thread (also when a pthread id is reused), '
        'sys._current_frames() contains the caller; after exits + one new foreign callback the objects held in exited '
        'threads\' thread-locals are finalised (no leaked thread state); child exits 0 without Fatal Python error. '
        'Non-trivial = at least 2 foreign threads exit while another still makes calls afterwards; distinct by plan.')
LEVEL_TEXT = ('Generated call/exit histories at call/exit granularity on the real thread-canary code; races inside '
              'thread_canary_* are only sampled by real scheduling (async calls overlap for real).')
LEVEL_NOTE = ('Trusted: native/c36_driver.c, CPython 3.12 GIL build; zombie thread states are reclaimed by cffi only '
              'when a new foreign thread makes its first callback, so the leak check forces one.')
ASSUMPTIONS = ['GIL build of CPython 3.12', 'order enforced at call/exit granularity']
BUDGET = {'quick': 160, 'thorough': 12000}
TIME = {'quick': 35, 'thorough': 900}
MIN_PER_SHARD = 20
MAX_SHARDS = 8


def build_driver():
    src = os.path.join(env.VERIF, 'native', 'c36_driver.c')
    with open(src, 'rb') as f:
        h = hashlib.sha256(f.read()).hexdigest()[:16]
    out = os.path.join(env.BUILD, 'c36-%s' % h)
    so = os.path.join(out, 'c36_driver.so')
    if os.path.exists(so):
        return so
    os.makedirs(env.BUILD, exist_ok=True)
    lock = open(os.path.join(env.BUILD, 'c36.lock'), 'w')
    fcntl.flock(lock, fcntl.LOCK_EX)
    try:
        if os.path.exists(so):
            return so
        os.makedirs(out, exist_ok=True)
        r = subprocess.run(['gcc', '-O1', '-w', '-shared', '-fPIC', '-pthread', '-o', so + '.tmp', src],
                           capture_output=True, text=True)
        if r.returncode != 0:
            raise HarnessError('c36 driver does not build: ' + r.stderr[-2000:])
        os.rename(so + '.tmp', so)
        return so
    finally:
        lock.close()


def setup(ctx):
    return {'drv': build_driver()}


def strategy(ctx):
    @st.composite
    def case(draw):
        nmax = draw(st.integers(1, 8))
        steps = [['spawn', 0], ['call', 0, draw(st.integers(0, 2))]]
        live, spawned = [0], 1
        for _ in range(draw(st.integers(6, 45))):
            k = draw(st.sampled_from(['spawn', 'spawn', 'spawn', 'call', 'call', 'call', 'acall', 'acall', 'gcall', 'exit', 'exit', 'gc',
                                      'pythread', 'newcb', 'main_call']))
            if k == 'spawn':
                if spawned < nmax:
                    steps.append(['spawn', spawned])
                    live.append(spawned)
                    spawned += 1
            elif k in ('call', 'acall', 'gcall'):
                if not live:
                    if spawned < nmax:
                        steps.append(['spawn', spawned]); live.append(spawned); spawned += 1
                    else:
                        continue
                steps.append([k, draw(st.sampled_from(live)), draw(st.integers(0, 2))])
            elif k == 'exit':
                if live:
                    t = draw(st.sampled_from(live))
                    live.remove(t)
                    steps.append(['exit', t])
            elif k == 'gc':
                steps.append(['gc'])
            elif k == 'pythread':
                steps.append(['pythread', draw(st.integers(0, 9))])
            elif k == 'newcb':
                steps.append(['newcb'])
            else:
                steps.append(['main_call', draw(st.integers(0, 9))])
        return {'steps': steps, 'ncbs': 3, 'leak_check': True}
    return case()


def prop(case, ctx):
    e = dict(os.environ)
    e.pop('LD_PRELOAD', None)
    try:
        r = subprocess.run([env.PY, os.path.join(env.VERIF, 'vlib', 'c36_child.py'), json.dumps(case),
                            ctx.state['drv']], env=e, capture_output=True, text=True, errors='replace',
                           timeout=300, cwd=env.VERIF)
    except subprocess.TimeoutExpired:
        ctx.fail('child did not finish within 300 s (a callback or thread exit hung)')
    detail = {'stderr': r.stderr[-2500:], 'rc': r.returncode}
    if r.returncode != 0 or 'Fatal Python error' in r.stderr:
        ctx.fail('child process died (rc=%s)%s' % (r.returncode,
                 ': Fatal Python error' if 'Fatal Python error' in r.stderr else ''), **detail)
    rep = None
    for line in r.stdout.splitlines():
        if line.startswith('C36REPORT '):
            rep = json.loads(line[len('C36REPORT '):])
    if rep is None:
        raise HarnessError('child produced no report: %s %s' % (r.stdout[-500:], r.stderr[-1500:]))
    if rep['errors']:
        ctx.fail('callback results wrong: %s' % rep['errors'][:3], report=rep)
    # per-foreign-thread model
    last = {}
    ident_of = {}
    for c in rep['calls']:
        fno = c['fno']
        if fno >= 700:
            continue            # python-thread / main-thread / leak-check calls: no persistence model
        if not c['frames_ok']:
            ctx.fail('callback in foreign thread %d: sys._current_frames() lacks the caller' % fno, report=rep)
        if fno in ident_of and ident_of[fno] != c['ident']:
            ctx.fail('foreign thread %d: threading.get_ident() changed between callbacks' % fno, report=rep)
        ident_of[fno] = c['ident']
        expect_prev = last.get(fno)
        got_prev = tuple(c['prev']) if c['prev'] is not None else None
        if got_prev != expect_prev:
            ctx.fail('foreign thread %d call %d: thread-local value is %r, expected %r' % (
                fno, c['callno'], got_prev, expect_prev), report=rep)
        last[fno] = (fno, c['callno'])
    da = rep.get('dead_after')
    if da and da['alive']:
        ctx.fail('thread-local data of exited foreign threads %r still alive after their states should have '
                 'been reclaimed' % (da['alive'],), report=rep)
    # non-triviality: >= 2 exits followed by a later call from another thread
    exits = 0
    nontriv = False
    for s in case['steps']:
        if s[0] == 'exit':
            exits += 1
        elif s[0] in ('call', 'acall', 'gcall') and exits >= 2:
            nontriv = True
    ctx.note(case, nontriv, ['nontrivial' if nontriv else 'trivial',
                             'async' if any(s[0] == 'acall' for s in case['steps']) else 'sync-only',
                             'threads=%d' % len(ident_of)])
