"""C32 -- ffi.verify() module names: deterministic (processes, hash seeds,
keyword order) and built from an injective encoding of the inputs.

Input model (one "input"; all text NUL-free and surrogate-free):
    {'cdefs': [item...], 'src': [chunk...], 'kw': node, 'tag': str, 'generic': bool}
    item  = {'c': [chunk...]}          one ffi.cdef(''.join(chunks))
          | {'inc': [item...]}         ffi.include(<FFI built from the items>)
    node  = ['s', str] | ['i', int] | ['l', [node...]] | ['t', [node...]]
          | ['d', [[key, node]...]]    (pairs in *insertion order*; key str or int)
The top-level 'kw' is a 'd' node with str keys: the **kwds of Verifier().

A Hypothesis case is a *family*: a base input plus up to 5 inputs derived from
earlier members by one adversarial transformation each (text moved across a
cdef|cdef, source|cdef, key|value or list-element boundary, element re-split
at a format character, int<->str of the same digits, list regrouping,
include-bracket regrouping, dict reorder, list<->tuple, 1-char edit, tag /
engine change).  All pairs of a family are compared:

  same (cdef tree, source, kwds)            => same hashed key
  same + same tag + same engine             => same module name
  different (tuples read as lists)          => different hashed key, and a
        different name unless both CRC32 halves genuinely collide (checked
        with zlib on the observed key halves)
  inputs differing only by list-vs-tuple    => no claim (counted, not judged)

The hashed key is observed by interposing `binascii` as seen by cffi.verifier.

pre():  (a) small-scope exhaustive injectivity: every kwds value tree over a
tiny alphabet of format characters up to depth 2, and every (source, cdef
list, kwds) split of short texts, all keys pairwise distinct; (b) the
cross-process leg: one child interpreter per PYTHONHASHSEED value recomputes
name+key of several hundred inputs; all must equal the parent's.
"""
import copy, json, os, re, subprocess, sys, zlib
from vlib.core import Violation, HarnessError
# NB: hypothesis is imported lazily (strategy/_apply) so that the cross-process children start fast

ID = 'C32'
LEVEL = 'exploration'
TECHNIQUE = 'adversarial input families + small-scope enumeration, key observed at crc32, cross-process replay under different hash seeds'
RULE = ('Hypothesis families: base (cdef tree with include() brackets, C source, nested kwds, tag, engine) '
        '+ 1-5 derived inputs (boundary moves source|cdef, cdef|cdef, key|value, list split/join/re-split at '
        'format characters, int<->str, regrouping, dict reorder, edits); an evaluation is one pair of inputs '
        'whose key/name (in)equality is judged, or one (input, child process) name+key comparison, or one '
        'enumerated small-scope input checked for key uniqueness against all other enumerated inputs. '
        'Non-trivial = the pair differs only by a boundary move / regrouping / int<->str / reorder (one '
        'derivation step), a cross-process comparison, or an enumerated input (its boundary-move neighbours '
        'are all in the enumeration); distinct by the pair / input content.')
LEVEL_TEXT = ('No counterexample among generated adversarial pairs, all small-scope inputs (exhaustive up to the '
              'stated bounds) and cross-process recomputations; not a proof for all inputs.')
LEVEL_NOTE = ('Trusts: observation of the key at binascii.crc32 (cffi.verifier module attribute), zlib.crc32 as '
              'the reference CRC, one CPython version (3.12) only; inputs are NUL-free and surrogate-free text; '
              'list vs tuple and bool vs int are not treated as different inputs.')
ASSUMPTIONS = ['inputs are NUL-free, surrogate-free text (a cdef containing NUL is never accepted)',
               'list vs tuple (and bool vs int) in kwds are not counted as different inputs: no claim either way',
               'only **kwds, C source and cdef sources are the keyed inputs; tag and engine are checked on the name',
               'nested dict keys are homogeneous (all str or all int), otherwise flatten() raises TypeError',
               'a single Python version (3.12) is available: "same Python version" is not varied']
BUDGET = {'quick': 640, 'thorough': 64000}
MIN_PER_SHARD = 20
MAX_SHARDS = 8
TIME = {'quick': 15, 'thorough': 800}      # wall cap per shard (machine load varies a lot)
# cross-process leg: (number of families, hash seeds)
XP = {'quick': (40, ['1', '2', '31337', '4294967295']),
      'thorough': (2500, ['1', '2', '3', '5', '8', '13', '21', '34', '55', '89', '144', '31337',
                          '65536', '2147483647', '4294967294', '4294967295'])}

RESERVED = {'ffi', 'preamble', 'tmpdir', 'modulename', 'ext_package', 'tag', 'force_generic_engine',
            'source_extension', 'flags', 'relative_to', 'self'}
ALPHA = list('sldi0129-[]x;_ ') + ['\x01', '\x7f', 'é', '中', '\U0001f600']
DECLS = ['extern int v%d;', 'typedef long t%d;', 'struct s%d{int x;};', 'int f%d(int);']
_DECL_RE = re.compile(r'extern int v\d+;|typedef long t\d+;|struct s\d+\{int x;\};|int f\d+\(int\);')
_CHUNK_RE = re.compile(r'extern int v\d+;|typedef long t\d+;|struct s\d+\{int x;\};|int f\d+\(int\);'
                       r'|/\*[^/]*\*/|[ \n\t]+')
MOVES = {'reorder', 'kvmove', 'split', 'join', 'resplit', 'intstr', 'regroup', 'wrap', 'l2d',
         'cdefmove', 'srcmove', 'incmove', 'relmove'}
FILE_KEYS = ('sources', 'include_dirs', 'library_dirs', 'extra_objects', 'depends')
RELS = [None, 'setup.py', '/a/b/x.py', 'pkg/y.py', '/site-packages/pkg/__init__.py', '../z.py', '/a/b/c/../x.py']


def _rel_lists(kw):
    """number of file names relative_to= would rewrite, or None if it cannot be used with these kwds
    (make_relative_to wants a list/tuple of str under every file-list keyword)"""
    n = 0
    for k, v in kw[1]:
        if k in FILE_KEYS:
            if v[0] not in 'lt' or any(c[0] != 's' for c in v[1]):
                return None
            n += len(v[1])
    return n


def _rel(inp):
    return inp.get('rel') if _rel_lists(inp['kw']) is not None else None
TMPDIR = '/nonexistent/verif-c32'


# ---------------------------------------------------------------- model

def build(node):
    t = node[0]
    if t == 's' or t == 'i':
        return node[1]
    if t == 'l':
        return [build(c) for c in node[1]]
    if t == 't':
        return tuple(build(c) for c in node[1])
    if t == 'd':
        d = {}
        for k, v in node[1]:
            if k in d:
                raise HarnessError('duplicate dict key in case: %r' % (k,))
            d[k] = build(v)
        return d
    raise HarnessError('bad node %r' % (node,))


def loose(x):
    if isinstance(x, (list, tuple)):
        return [loose(c) for c in x]
    if isinstance(x, dict):
        return {k: loose(v) for k, v in x.items()}
    return x


def cdef_tree(items):
    return [''.join(it['c']) if 'c' in it else ['inc', cdef_tree(it['inc'])] for it in items]


def keyed(inp):
    kw = build(inp['kw'])
    return (cdef_tree(inp['cdefs']), ''.join(inp['src']), kw)


def same_type_eq(a, b):
    """== that also distinguishes list/tuple at every level and 1 from True"""
    if type(a) is not type(b):
        return False
    if isinstance(a, (list, tuple)):
        return len(a) == len(b) and all(same_type_eq(x, y) for x, y in zip(a, b))
    if isinstance(a, dict):
        return set(a) == set(b) and all(same_type_eq(a[k], b[k]) for k in a)
    return a == b


# ---------------------------------------------------------------- system under test

class _Rec(object):
    def __init__(self):
        self.calls = []

    def crc32(self, data, *a):
        import binascii
        self.calls.append(bytes(data))
        return binascii.crc32(data, *a)

    def __getattr__(self, name):
        import binascii
        return getattr(binascii, name)


def build_ffi(items):
    import cffi
    ffi = cffi.FFI()
    for it in items:
        if 'c' in it:
            if it.get('o'):
                ffi.cdef(''.join(it['c']), override=True)
            else:
                ffi.cdef(''.join(it['c']))
        else:
            ffi.include(build_ffi(it['inc']))
    return ffi


def compute(inp, ffi=None):
    """-> (module name, [bytes passed to crc32...])"""
    import cffi.verifier as V
    if ffi is None:
        ffi = build_ffi(inp['cdefs'])
    kw = build(inp['kw'])
    rec = _Rec()
    old = V.binascii
    V.binascii = rec
    try:
        v = V.Verifier(ffi, ''.join(inp['src']), tmpdir=TMPDIR, tag=inp['tag'],
                       force_generic_engine=bool(inp['generic']), relative_to=_rel(inp), **kw)
        name = v.get_module_name()
    finally:
        V.binascii = old
    if not rec.calls:
        raise HarnessError('cffi.verifier did not call binascii.crc32: key not observable')
    return name, rec.calls


def _hex(calls):
    return [c.hex() for c in calls]


def _true_crc_collision(ka, kb):
    return (len(ka) == len(kb) and ka != kb and
            all(zlib.crc32(x) == zlib.crc32(y) for x, y in zip(ka, kb)))


# ---------------------------------------------------------------- generator

def _walk(node, path, out):
    out.append((path, node))
    if node[0] in 'lt':
        for j, ch in enumerate(node[1]):
            _walk(ch, path + (j,), out)
    elif node[0] == 'd':
        for j, kv in enumerate(node[1]):
            _walk(kv[1], path + (j,), out)


def _nodes(root):
    out = []
    _walk(root, (), out)
    return out


def _item_lists(items, out):
    out.append(items)
    for it in items:
        if 'inc' in it:
            _item_lists(it['inc'], out)
    return out


def _keys_ok(node, top):
    ks = [k for k, _ in node[1]]
    if len(set(ks)) != len(ks):
        return False
    if len({type(k) for k in ks}) > 1:
        return False
    if top and any((not isinstance(k, str)) or k in RESERVED for k in ks):
        return False
    return True


def _applicable(inp):
    """kinds whose structural precondition holds (cheap pre-check; _apply may still say None)"""
    nodes = _nodes(inp['kw'])
    out = []
    lists = [n for _, n in nodes if n[0] in 'lt']
    if any(n[0] == 'd' and len(n[1]) >= 2 for _, n in nodes):
        out += ['reorder', 'reorder']
    if any(n[0] == 'd' and any(isinstance(k, str) and v[0] == 's' for k, v in n[1]) for _, n in nodes):
        out += ['kvmove', 'kvmove']
    if any(n[0] == 'd' and p != () and any(isinstance(k, str) and v[0] == 's' for k, v in n[1]) for p, n in nodes):
        out += ['resplit']
    if any(c[0] == 's' for n in lists for c in n[1]):
        out += ['split']
    if any(n[1][j][0] == 's' and n[1][j + 1][0] == 's' for n in lists for j in range(len(n[1]) - 1)):
        out += ['join', 'resplit', 'resplit', 'resplit']
    if any(n[0] == 'i' or (n[0] == 's' and re.fullmatch(r'-?[1-9]\d*|0', n[1])) for _, n in nodes):
        out += ['intstr']
    if any(len(n[1]) >= 2 and any(c[0] in 'lt' for c in n[1]) for n in lists):
        out += ['regroup', 'regroup']
    if len(nodes) > 1:
        out += ['wrap']
    if any(n[0] == 'd' and p != () for p, n in nodes):
        out += ['l2d']
    if lists:
        out += ['lt']
    if inp['cdefs']:
        out += ['cdefmove', 'cdefmove', 'cdefmove', 'incmove', 'incmove']
        if 'c' in inp['cdefs'][0]:
            out += ['srcmove', 'srcmove']
        if any('c' in it and 'struct' not in ''.join(it['c']) for it in inp['cdefs']):
            out += ['reapply', 'reapply']
    if _rel_lists(inp['kw']):
        out += ['relmove', 'relmove', 'relmove']
    return out * 2 + ['edit', 'edit', 'tag', 'engine', 'relmove']


def strategy(ctx):
    from hypothesis import strategies as st
    txt = st.text(st.sampled_from(ALPHA), max_size=5)
    key_s = st.one_of(txt, txt, st.sampled_from(['libraries', 'include_dirs', 'define_macros',
                                                 'extra_compile_args', 'sources', 'k', 'kk',
                                                 'sources', 'depends', 'library_dirs', 'extra_objects']))
    ints = st.one_of(st.integers(-20, 130), st.sampled_from([2 ** 31, 2 ** 64, -2 ** 63, 10 ** 30]))
    leaf = st.one_of(txt.map(lambda s: ['s', s]), txt.map(lambda s: ['s', s]), ints.map(lambda n: ['i', n]))

    def pairs(children, keys):
        return st.lists(st.tuples(keys, children).map(list), max_size=3,
                        unique_by=lambda kv: kv[0]).map(lambda ps: ['d', ps])

    def extend(children):
        return st.one_of(
            st.lists(children, max_size=3).map(lambda cs: ['l', cs]),
            st.lists(children, max_size=3).map(lambda cs: ['t', cs]),
            pairs(children, key_s), pairs(children, st.integers(-3, 12)))
    strlist = st.lists(txt.map(lambda s: ['s', s]), min_size=1, max_size=4).map(lambda cs: ['l', cs])
    value = st.one_of(strlist, strlist, st.recursive(leaf, extend, max_leaves=6),
                      st.recursive(leaf, extend, max_leaves=6))
    topkw = st.lists(st.tuples(key_s.filter(lambda k: k not in RESERVED), value).map(list), max_size=4,
                     unique_by=lambda kv: kv[0]).map(lambda ps: ['d', ps])

    comment = txt.map(lambda s: '/*%s*/' % s)
    ws = st.sampled_from([' ', '\n', '\t', '  '])
    cchunk = st.one_of(st.integers(0, len(DECLS) - 1), st.integers(0, len(DECLS) - 1), comment, ws)
    citem = st.lists(cchunk, max_size=3).map(lambda cs: {'c': cs})
    inc1 = st.lists(citem, max_size=2).map(lambda its: {'inc': its})
    inc2 = st.lists(st.one_of(citem, inc1), max_size=2).map(lambda its: {'inc': its})
    items = st.lists(st.one_of(citem, citem, citem, inc1, inc2), min_size=1, max_size=3)
    srcchunk = st.one_of(cchunk, txt, st.sampled_from(['#include <math.h>\n', 'static int g(void){return 1;}']))
    tag = st.text(st.sampled_from(list('ab_x0g1')), max_size=4)

    def number(inp):
        n = [0]

        def fix(chunks):
            for i, c in enumerate(chunks):
                if isinstance(c, int):
                    chunks[i] = DECLS[c] % n[0]
                    n[0] += 1

        def rec(its):
            for it in its:
                if 'c' in it:
                    fix(it['c'])
                else:
                    rec(it['inc'])
        rec(inp['cdefs'])
        fix(inp['src'])
        return inp

    base = st.fixed_dictionaries({'cdefs': items, 'src': st.lists(srcchunk, max_size=3), 'kw': topkw,
                                  'tag': tag, 'generic': st.booleans()}).map(number)

    @st.composite
    def family(draw):
        members = [draw(base)]
        members[0]['how'] = 'base'
        members[0]['from'] = -1
        for _ in range(draw(st.integers(2, 6))):
            # a member made by 'reapply' is final: moving its repeated text into a cdef() without
            # override= (or into an included FFI) would make cffi refuse the input
            parents = [i for i, m in enumerate(members) if not any(it.get('o') for it in m['cdefs'])]
            idx = parents[draw(st.integers(0, len(parents) - 1))]
            kinds = _applicable(members[idx])
            for attempt in range(3):
                kind = draw(st.sampled_from(kinds))
                new = _apply(kind, copy.deepcopy(members[idx]), draw)
                if new is not None:
                    new['how'] = kind
                    new['from'] = idx
                    members.append(new)
                    break
        return members
    return family()


def _apply(kind, inp, draw):
    """One transformation of a (deep-copied) input; None if not applicable."""
    from hypothesis import strategies as st
    def pick(n):
        return draw(st.integers(0, n - 1))
    kw = inp['kw']
    nodes = _nodes(kw)

    def strs_adjacent():
        out = []
        for path, n in nodes:
            if n[0] in 'lt':
                for j in range(len(n[1]) - 1):
                    if n[1][j][0] == 's' and n[1][j + 1][0] == 's':
                        out.append((n, j))
        return out

    if kind == 'reapply':
        # the text of an earlier top-level cdef() is applied once more with override=True (a struct
        # definition cannot be repeated): one more cdef() call, so another input and another key
        cands = [it for it in inp['cdefs'] if 'c' in it and 'struct' not in ''.join(it['c'])]
        if not cands:
            return None
        it = cands[pick(len(cands))]
        inp['cdefs'].append({'c': list(it['c']), 'o': True})
        return inp
    if kind == 'reorder':
        ds = [n for _, n in nodes if n[0] == 'd' and len(n[1]) >= 2]
        if not ds:
            return None
        n = ds[pick(len(ds))]
        n[1][:] = draw(st.permutations(n[1]))
        return inp
    if kind == 'kvmove':
        cands = [(path, n, j) for path, n in nodes if n[0] == 'd'
                 for j, kv in enumerate(n[1]) if isinstance(kv[0], str) and kv[1][0] == 's']
        if not cands:
            return None
        path, n, j = cands[pick(len(cands))]
        k, v = n[1][j][0], n[1][j][1][1]
        if draw(st.booleans()):
            if not k:
                return None
            k, v = k[:-1], k[-1] + v
        else:
            if not v:
                return None
            k, v = k + v[0], v[1:]
        n[1][j] = [k, ['s', v]]
        return inp if _keys_ok(n, path == ()) else None
    if kind == 'split':
        cands = [(n, j) for _, n in nodes if n[0] in 'lt' for j, c in enumerate(n[1]) if c[0] == 's']
        if not cands:
            return None
        n, j = cands[pick(len(cands))]
        s = n[1][j][1]
        p = pick(len(s) + 1)
        n[1][j:j + 1] = [['s', s[:p]], ['s', s[p:]]]
        return inp
    if kind == 'join':
        cands = strs_adjacent()
        if not cands:
            return None
        n, j = cands[pick(len(cands))]
        n[1][j:j + 2] = [['s', n[1][j][1] + n[1][j + 1][1]]]
        return inp
    if kind == 'resplit':
        cands = [('l', n, j) for n, j in strs_adjacent()]
        cands += [('d', n, j) for path, n in nodes if n[0] == 'd' and path != ()
                  for j, kv in enumerate(n[1]) if isinstance(kv[0], str) and kv[1][0] == 's']
        if not cands:
            return None
        where, n, j = cands[pick(len(cands))]
        if where == 'l':
            x, y = n[1][j][1], n[1][j + 1][1]
        else:
            x, y = n[1][j][0], n[1][j][1][1]
        c = draw(st.sampled_from(sorted(set(x + y)) or ALPHA))
        t = x + c + y
        pos = [p for p, ch in enumerate(t) if ch == c and p != len(x)]
        if not pos:
            return None
        p = pos[pick(len(pos))]
        x2, y2 = t[:p], t[p + 1:]
        if where == 'l':
            n[1][j], n[1][j + 1] = ['s', x2], ['s', y2]
        else:
            n[1][j] = [x2, ['s', y2]]
            if not _keys_ok(n, False):
                return None
        return inp
    if kind == 'intstr':
        cands = [n for _, n in nodes if n[0] == 'i' or (n[0] == 's' and re.fullmatch(r'-?[1-9]\d*|0', n[1]))]
        if not cands:
            return None
        n = cands[pick(len(cands))]
        if n[0] == 'i':
            n[:] = ['s', str(n[1])]
        else:
            n[:] = ['i', int(n[1])]
        return inp
    if kind == 'regroup':
        cands = [(n, j) for _, n in nodes if n[0] in 'lt' and len(n[1]) >= 2
                 for j, c in enumerate(n[1]) if c[0] in 'lt']
        if not cands:
            return None
        n, j = cands[pick(len(cands))]
        child = n[1][j]
        mode = pick(4)
        if mode == 0 and j + 1 < len(n[1]):
            child[1].append(n[1].pop(j + 1))
        elif mode == 1 and j > 0:
            child[1].insert(0, n[1].pop(j - 1))
        elif mode == 2 and child[1]:
            n[1].insert(j + 1, child[1].pop())
        elif mode == 3 and child[1]:
            n[1].insert(j, child[1].pop(0))
        else:
            return None
        return inp
    if kind == 'wrap':
        cands = [n for path, n in nodes if path != ()]
        if not cands:
            return None
        n = cands[pick(len(cands))]
        if n[0] in 'lt' and len(n[1]) == 1 and draw(st.booleans()):
            n[:] = n[1][0]
        else:
            n[:] = ['l', [list(n)]]
        return inp
    if kind == 'l2d':
        cands = [n for path, n in nodes if path != () and n[0] == 'd']
        if not cands:
            return None
        n = cands[pick(len(cands))]
        flat = []
        for k, v in n[1]:
            flat.append(['s', k] if isinstance(k, str) else ['i', k])
            flat.append(v)
        n[:] = ['l', flat]
        return inp
    if kind == 'lt':
        cands = [n for _, n in nodes if n[0] in 'lt']
        if not cands:
            return None
        n = cands[pick(len(cands))]
        n[0] = 'l' if n[0] == 't' else 't'
        return inp
    if kind == 'tag':
        new = draw(st.text(st.sampled_from(list('ab_x0g1')), max_size=4))
        if new == inp['tag']:
            return None
        inp['tag'] = new
        return inp
    if kind == 'engine':
        inp['generic'] = not inp['generic']
        return inp
    if kind == 'relmove':
        # relative_to= is documented not to be part of the name (cdef.rst): moving the project elsewhere
        # must keep the module name
        new = draw(st.sampled_from(RELS))
        if new == inp.get('rel'):
            return None
        inp['rel'] = new
        return inp
    if kind == 'edit':
        # (container, index) of every editable string; comments only inside the body
        spots = []
        for _, n in nodes:
            if n[0] == 's':
                spots.append(('node', n, None))
        for lst in _item_lists(inp['cdefs'], []):
            for it in lst:
                if 'c' in it:
                    for i, c in enumerate(it['c']):
                        if c.startswith('/*'):
                            spots.append(('comment', it['c'], i))
        for i, c in enumerate(inp['src']):
            spots.append(('src', inp['src'], i))
        spots.append(('srcappend', inp['src'], None))
        what, cont, i = spots[pick(len(spots))]
        ch = draw(st.sampled_from(ALPHA))
        if what == 'srcappend':
            cont.append(ch)
            return inp
        s = cont[1] if what == 'node' else cont[i]
        body = s[2:-2] if what == 'comment' else s
        p = pick(len(body) + 1)
        op = pick(3)
        if op == 0 or not body or p == len(body):
            nb = body[:p] + ch + body[p:]
        elif op == 1:
            nb = body[:p] + body[p + 1:]
        else:
            nb = body[:p] + ch + body[p + 1:]
        if nb == body or (what == 'src' and _DECL_RE.fullmatch(nb)):
            return None
        if what == 'node':
            cont[1] = nb
        elif what == 'comment':
            cont[i] = '/*%s*/' % nb
        else:
            cont[i] = nb
        return inp
    if kind == 'cdefmove':
        lists = _item_lists(inp['cdefs'], [])
        lst = lists[pick(len(lists))]
        mode = pick(4)
        cs = [j for j, it in enumerate(lst) if 'c' in it]
        adj = [j for j in cs if j + 1 < len(lst) and 'c' in lst[j + 1]]
        if mode == 0 and adj:                       # move one chunk across the boundary
            j = adj[pick(len(adj))]
            a, b = lst[j]['c'], lst[j + 1]['c']
            if draw(st.booleans()):
                if not a:
                    return None
                b.insert(0, a.pop())
            else:
                if not b:
                    return None
                a.append(b.pop(0))
            return inp
        if mode == 1 and cs:                        # split one cdef into two (possibly empty)
            j = cs[pick(len(cs))]
            ch = lst[j]['c']
            p = pick(len(ch) + 1)
            lst[j:j + 1] = [{'c': ch[:p]}, {'c': ch[p:]}]
            return inp
        if mode == 2 and adj:                       # merge two cdefs
            j = adj[pick(len(adj))]
            lst[j:j + 2] = [{'c': lst[j]['c'] + lst[j + 1]['c']}]
            return inp
        if mode == 3 and len(lst) >= 2:             # swap neighbours (order matters)
            j = pick(len(lst) - 1)
            lst[j], lst[j + 1] = lst[j + 1], lst[j]
            return inp
        return None
    if kind == 'incmove':
        lists = _item_lists(inp['cdefs'], [])
        lst = lists[pick(len(lists))]
        if not lst:
            return None
        j = pick(len(lst))
        mode = pick(5)
        it = lst[j]
        if mode == 0:                               # wrap an item into an include
            lst[j] = {'inc': [it]}
            return inp
        if 'inc' not in it:
            return None
        if mode == 1:                               # unwrap
            lst[j:j + 1] = it['inc']
            return inp
        if mode == 2 and j + 1 < len(lst):          # neighbour moves into the bracket
            it['inc'].append(lst.pop(j + 1))
            return inp
        if mode == 3 and j > 0:
            it['inc'].insert(0, lst.pop(j - 1))
            return inp
        if mode == 4 and it['inc']:                 # last included item moves out
            lst.insert(j + 1, it['inc'].pop())
            return inp
        return None
    if kind == 'srcmove':
        top = inp['cdefs']
        if not top or 'c' not in top[0]:
            return None
        first = top[0]['c']
        if draw(st.booleans()):
            if not first:
                return None
            inp['src'].append(first.pop(0))
            return inp
        if not inp['src'] or not _CHUNK_RE.fullmatch(inp['src'][-1]):
            return None
        first.insert(0, inp['src'].pop())
        return inp
    raise HarnessError('unknown transformation %r' % kind)


# ---------------------------------------------------------------- property

def _judge_pair(a, b, ra, rb, how, ctx, where):
    """a, b inputs; ra, rb = (name, calls)."""
    ka, kb = keyed(a), keyed(b)
    strict_eq = same_type_eq(ka, kb)
    loose_ne = (ka[0] != kb[0] or ka[1] != kb[1] or loose(ka[2]) != loose(kb[2]))
    same_rest = a['tag'] == b['tag'] and bool(a['generic']) == bool(b['generic'])
    cls = 'must-equal' if strict_eq else 'must-differ' if loose_ne else 'unclaimed-list-vs-tuple'
    labels = ['pair:' + cls, 'step:' + how + ':' + cls]
    if _rel(a) != _rel(b):
        labels.append('relative_to-differs:%s' % ('file-names-rewritten' if _rel_lists(a['kw']) else 'no-file-lists'))
    ctx.note([where, json.dumps([ka, a['tag'], a['generic'], _rel(a), kb, b['tag'], b['generic'], _rel(b)],
                                sort_keys=True, default=repr)],
             how in MOVES, labels)
    if strict_eq:
        if ra[1] != rb[1]:
            ctx.fail('same (cdefs, source, kwds) but different hashed keys (%s)' % where,
                     a=a, b=b, key_a=_hex(ra[1]), key_b=_hex(rb[1]))
        if same_rest and ra[0] != rb[0]:
            ctx.fail('same inputs but different module names %s / %s (%s)' % (ra[0], rb[0], where), a=a, b=b)
    elif loose_ne:
        if ra[1] == rb[1]:
            ctx.fail('different inputs share one hashed key: the encoding is not injective (%s)' % where,
                     a=a, b=b, key=_hex(ra[1]), name_a=ra[0], name_b=rb[0])
    if ra[0] == rb[0] and (loose_ne or not same_rest):
        if same_rest and _true_crc_collision(ra[1], rb[1]):
            ctx.event('genuine-crc32-collision')
        else:
            ctx.fail('different inputs share the module name %s without a CRC32 collision (%s)' % (ra[0], where),
                     a=a, b=b, key_a=_hex(ra[1]), key_b=_hex(rb[1]))


def _check_family(members, ctx):
    res = [compute(m) for m in members]
    again = compute(members[0])
    if again != res[0]:
        ctx.fail('repeated construction gives a different name/key', a=members[0],
                 first=[res[0][0], _hex(res[0][1])], second=[again[0], _hex(again[1])])
    for j in range(len(members)):
        for i in range(j):
            how = members[j].get('how', '?') if members[j].get('from') == i else 'distant'
            _judge_pair(members[i], members[j], res[i], res[j], how, ctx, 'family[%d,%d]' % (i, j))
    return res


def prop(case, ctx):
    if isinstance(case, dict) and 'small' in case:
        return _small_case(case, ctx)
    xp = None
    if isinstance(case, dict):
        xp = case.get('xp')
        case = case['family']
    res = _check_family(case, ctx)
    if xp:
        _cross_process([case], [res], xp, ctx)


# ---------------------------------------------------------------- cross-process leg

def child_main():
    with open(sys.argv[1]) as f:
        fams = json.load(f)
    out = []
    for fam in fams:
        out.append([[n, _hex(k)] for n, k in (compute(m) for m in fam)])
    json.dump(out, sys.stdout)


def _cross_process(fams, results, hashseeds, ctx):
    import tempfile
    fd, path = tempfile.mkstemp(prefix='c32-xp-', suffix='.json', dir=ctx.tmp)
    with os.fdopen(fd, 'w') as f:
        json.dump(fams, f)
    procs = []
    for hs in hashseeds:
        env = dict(os.environ)
        env['PYTHONHASHSEED'] = hs
        p = subprocess.Popen([sys.executable, '-c',
                              'import checks.c32_verify_names as m; m.child_main()', path],
                             stdin=subprocess.DEVNULL, stdout=subprocess.PIPE, stderr=subprocess.PIPE,
                             env=env, cwd=os.path.dirname(os.path.dirname(os.path.abspath(__file__))))
        procs.append((hs, p))
    outs = []
    for hs, p in procs:
        o, e = p.communicate()
        if p.returncode != 0:
            raise HarnessError('C32 child (PYTHONHASHSEED=%s) failed rc=%s: %s'
                               % (hs, p.returncode, e.decode('utf-8', 'replace')[-2000:]))
        outs.append((hs, json.loads(o)))
    os.unlink(path)
    for hs, got in outs:
        for fi, fam in enumerate(fams):
            for mi, m in enumerate(fam):
                name, calls = results[fi][mi]
                ctx.note(['xp', hs, json.dumps(m, sort_keys=True)], True, 'cross-process:hashseed=' + hs)
                if got[fi][mi] != [name, _hex(calls)]:
                    ctx.fail('module name/key differs in a fresh process with PYTHONHASHSEED=%s: %s vs %s'
                             % (hs, got[fi][mi][0], name),
                             case={'family': [m], 'xp': [hs]}, parent=[name, _hex(calls)], child=got[fi][mi])


def _collect_families(ctx, n):
    import hypothesis
    from hypothesis import given, settings, HealthCheck, Phase, Verbosity
    fams = []

    @hypothesis.seed(ctx.seed * 7919 + 17)
    @settings(max_examples=n, database=None, deadline=None, suppress_health_check=list(HealthCheck),
              phases=[Phase.generate], verbosity=Verbosity.quiet)
    @given(strategy(ctx))
    def collect(f):
        fams.append(f)
    collect()
    return fams


# ---------------------------------------------------------------- small-scope enumeration

def _small_values(tier):
    strs = ['', 's', '1', 'ss', 's1', '1s', '11']
    if tier == 'thorough':
        strs += ['l', '1l', 'i', '1i', 'd', '2s', 's2', '\x01']
    atoms = [['s', s] for s in strs] + [['i', n] for n in (0, 1, -1, 11)]
    keys = strs[:7]
    l1 = [['l', []]] + [['l', [a]] for a in atoms] + [['l', [a, b]] for a in atoms for b in atoms]
    d1 = [['d', []]] + [['d', [[k, a]]] for k in keys for a in atoms]
    lvl1 = atoms + l1 + d1
    out = list(lvl1)
    if tier == 'thorough':
        out += [['l', [a, b]] for a in lvl1 for b in lvl1]
    else:
        few = atoms + [['l', []], ['d', []]]
        out += [['l', [a, b]] for a in lvl1 for b in few[::2]] + [['l', [a, b]] for a in few[1::2] for b in lvl1]
    out += [['l', [a, b, c]] for a in atoms for b in atoms for c in atoms]
    out += [['d', [[k1, a], [k2, b]]] for i, k1 in enumerate(keys) for k2 in keys[i + 1:]
            for a in atoms[:8] for b in atoms[:8]]
    return out


def _small_case(case, ctx):
    """replay form of a small-scope collision: {'small': [inputA, inputB]}"""
    a, b = case['small']
    ra, rb = compute(a), compute(b)
    _judge_pair(a, b, ra, rb, 'enumerated', ctx, 'small-scope')


def _enumerate_small(ctx):
    import cffi
    seen = {}

    def visit(inp, ffi, cls):
        r = compute(inp, ffi)
        k = tuple(r[1])
        ctx.note('small' + repr((inp['cdefs'], inp['src'], inp['kw'])), True, cls)
        if k in seen:
            other = seen[k]
            ka, kb = keyed(other), keyed(inp)
            if ka[0] != kb[0] or ka[1] != kb[1] or loose(ka[2]) != loose(kb[2]):
                ctx.fail('small-scope enumeration: two different inputs share one hashed key',
                         case={'small': [other, inp]}, key=_hex(r[1]))
        else:
            seen[k] = inp
    # (a) kwds value trees, as the single keyword k=<value> and as the whole (nested) dict where possible
    ffi0 = cffi.FFI()
    ffi0.cdef('')
    for v in _small_values(ctx.tier):
        visit({'cdefs': [{'c': ['']}], 'src': [''], 'kw': ['d', [['k', v]]], 'tag': '', 'generic': False},
              ffi0, 'small:kwds-tree')
        if v[0] == 'd':
            visit({'cdefs': [{'c': ['']}], 'src': [''], 'kw': v, 'tag': '', 'generic': False},
                  ffi0, 'small:kwds-tree')
    # (b) every split of short texts over (source | kwds | cdef list)
    texts = ['', ';', ' ', ';;', '; ', ' ;', '  ']
    kws = [['d', []], ['d', [['', ['s', '']]]], ['d', [[';', ['s', ' ']]]], ['d', [['', ['l', []]]]]]
    lists = [[]] + [[a] for a in texts] + [[a, b] for a in texts for b in texts]
    if ctx.tier == 'thorough':
        lists += [[a, b, c] for a in texts[:4] for b in texts[:4] for c in texts[:4]]
    else:
        lists += [[a, b, c] for a in texts[:3] for b in texts[:2] for c in texts[:3]]
    for cds in lists:
        items = [{'c': [t]} for t in cds]
        ffi = build_ffi(items)
        for src in texts:
            for kw in kws:
                visit({'cdefs': items, 'src': [src], 'kw': kw, 'tag': '', 'generic': False},
                      ffi, 'small:source|kwds|cdefs-split')
    # (c) include brackets around every contiguous run of a 3-cdef list
    base = [';', ' ', ';;']
    shapes = [[0, 1, 2], [[0], 1, 2], [0, [1], 2], [0, 1, [2]], [[0, 1], 2], [0, [1, 2]], [[0, 1, 2]],
              [[0], [1], 2], [[0], [1, 2]], [[[0], 1], 2], [[0, [1]], 2], [[], 0, 1, 2], [0, 1, 2, []],
              [[[]], 0, 1, 2], [[[0, 1, 2]]], [[[0], [1], [2]]]]

    def mk(shape):
        return [{'c': [base[x]]} if isinstance(x, int) else {'inc': mk(x)} for x in shape]
    for sh in shapes:
        items = mk(sh)
        visit({'cdefs': items, 'src': ['x'], 'kw': ['d', []], 'tag': '', 'generic': False},
              build_ffi(items), 'small:include-brackets')


def pre(ctx):
    _enumerate_small(ctx)
    n, seeds = XP[ctx.tier]
    fams = _collect_families(ctx, n)
    results = [[compute(m) for m in fam] for fam in fams]
    ctx.extra['cross_process_inputs'] = sum(len(f) for f in fams)
    ctx.extra['cross_process_children'] = len(seeds)
    _cross_process(fams, results, seeds, ctx)
