"""C19 -- ffi.buffer, ffi.from_buffer and ffi.memmove match a byte-array model.

A case is a history over a pool of 1-3 memories (ffi.new('char[n]'),
bytearray, array.array of several typecodes, read-only bytes), each mirrored
by a bytearray model.  Operations create views (ffi.buffer(p, k) at arbitrary
offsets, ffi.from_buffer('T[]' | 'T[k]', obj-or-memoryview-slice)), read and
assign items and slices of buffer views with arbitrary int/None bounds, write
through from_buffer arrays and through the Python objects themselves, and
ffi.memmove between every pair of representations (cdata pointer, Python
object / memoryview, ffi.buffer object) including overlapping ranges of the
same memory.  After every operation every memory (observed independently of
cffi: bytes(bytearray), array.tobytes(), ctypes.string_at for cdata) and
every live view must equal the model.
"""
import array, ctypes, struct
from hypothesis import strategies as st
from vlib.core import Violation, HarnessError

ID = 'C19'
LEVEL = 'exploration'
RULE = ('Hypothesis-generated histories: 1-3 memories (char[n] cdata, bytearray, array.array B/h/i/q/d, bytes; '
        '0-24 bytes) x 4-40 operations (create ffi.buffer views sized/unsized/through typed pointers at any '
        'offset; ffi.from_buffer("T[]"/"T[k]") over objects, memoryview slices and ffi.buffer objects with '
        'fitting and too-large k; item/slice reads and assignments on buffer views with bounds in '
        '[-n-3, n+3], None or huge and step None/1, right-hand sides bytes/bytearray/memoryview/array/'
        'ffi.buffer of right and wrong length; writes through from_buffer arrays and through the Python '
        'object; ffi.memmove over all (cdata pointer | Python buffer | ffi.buffer) pairs incl. overlapping '
        'ranges), interpreted against bytearray models (slice semantics = those of bytearray itself) with all '
        'memories and live views compared after every step. An evaluation is one history; non-trivial iff it '
        'contains (an overlapping memmove or a clamped/negative slice) and a rejected assignment; distinct by '
        'the hash of (memories, operation list).')
TECHNIQUE = 'model-based history testing (operation lists vs bytearray models; ASan build in the thorough tier)'
LEVEL_TEXT = ('Randomised exploration of operation histories: all reads, accepted/rejected assignments, '
              'from_buffer lengths and memmove results agreed with bytearray models and every live view '
              'stayed equal to its model after each step; bounded to memories of 0-24 bytes and 40 steps.')
LEVEL_NOTE = ('Trusted: CPython bytearray slice semantics as the reference; bytes(bytearray), array.tobytes() '
              'and ctypes.string_at as independent observers of the memories.')
ASSUMPTIONS = ['CPython bytearray slicing/assignment defines "the slice semantics of a length-n bytearray"',
               'buffer item reads/writes use length-1 bytes objects (cffi\'s documented item type) where a bytearray uses ints',
               'slice steps other than None/1, non-bytes-like right-hand sides and read-only destinations are out of scope',
               'memmove sizes and buffer sizes are only generated inside the test-owned memories (C precondition)']
BUDGET = {'quick': 2400, 'thorough': 48000}
STEPS = {'quick': 40, 'thorough': 60}
TIME = {'quick': 15, 'thorough': 800}
CRASHY = True
ASAN_TIERS = ('thorough',)

MEMKINDS = ['cdata', 'cdata', 'bytearray', 'bytearray', 'array:B', 'array:h', 'array:i', 'array:q', 'array:d', 'bytes']
ITEM = {'B': 1, 'h': 2, 'i': 4, 'q': 8, 'd': 8}
FROMTYPES = {'char': (1, None), 'unsigned char': (1, '<B'), 'short': (2, '<h'), 'unsigned short': (2, '<H'),
             'int': (4, '<i'), 'long long': (8, '<q'), 'double': (8, '<d')}
HUGE = [2 ** 31, 2 ** 63 - 1, 2 ** 63, 2 ** 70, -2 ** 63, -2 ** 63 - 1, -2 ** 70]


def strategy(ctx):
    maxops = STEPS[ctx.tier]
    r = st.integers(0, 60)                       # raw selector, reduced modulo the relevant size in prop
    seed = st.integers(0, 2 ** 64 - 1)
    bound = st.one_of(st.integers(-28, 28), st.integers(-6, 8), st.integers(0, 12), st.none(), st.none(),
                      st.sampled_from(HUGE))
    index = st.one_of(st.integers(-28, 28), st.integers(-8, 8), st.integers(-4, 6), st.integers(0, 12), st.sampled_from(HUGE))
    step = st.sampled_from([None, None, None, 1])
    rep = st.sampled_from(['cdata', 'obj', 'buf'])

    def mk(*parts):
        return st.tuples(*parts).map(list)

    table = {
        'mkbuf': mk(st.just('mkbuf'), r, r, r, st.sampled_from(['sized', 'sized', 'sized', 'whole', 'short', 'int', 'double'])),
        'mkfrom': mk(st.just('mkfrom'), r, st.sampled_from(sorted(FROMTYPES)),
                     st.sampled_from([None, None, None, -1, 0, 0, 1, 1, 2]), st.one_of(st.none(), r), r),
        'getitem': mk(st.just('getitem'), r, index),
        'getslice': mk(st.just('getslice'), r, bound, bound, step),
        'setitem': mk(st.just('setitem'), r, index, st.integers(0, 255)),
        'setslice': mk(st.just('setslice'), r, bound, bound, step,
                       st.sampled_from(['bytes', 'bytes', 'bytearray', 'memoryview', 'array', 'buffer', 'buffer', 'buffer']),
                       st.sampled_from([0, 0, 0, 0, 0, 0, -1, 1, 2, -3]), seed, st.one_of(st.none(), r), st.integers(-3, 3)),
        'arrset': mk(st.just('arrset'), r, r, seed),
        'objset': mk(st.just('objset'), r, r, st.integers(0, 255)),
        'memmove': mk(st.just('memmove'), r, r, rep, st.one_of(st.none(), r), st.one_of(st.integers(-4, 4), r), rep, r),
        'len': mk(st.just('len'), r),
    }
    weights = (['mkbuf'] * 3 + ['mkfrom'] * 3 + ['getitem'] * 2 + ['getslice'] * 4 + ['setitem'] * 2 + ['setslice'] * 6
               + ['arrset'] * 2 + ['objset'] * 2 + ['memmove'] * 5 + ['len'])
    op = st.sampled_from(weights).flatmap(lambda k: table[k])

    @st.composite
    def case(draw):
        nm = draw(st.sampled_from([1, 1, 2, 2, 3]))
        mems = [[draw(st.sampled_from(MEMKINDS)), draw(st.one_of(st.integers(0, 24), st.integers(4, 16))),
                 draw(st.binary(min_size=8, max_size=8)).hex()] for _ in range(nm)]
        nops = draw(st.integers(4, maxops))
        return {'mems': mems, 'ops': draw(st.lists(op, min_size=nops, max_size=nops))}
    return case()


def setup(ctx):
    import cffi
    return {'ffi': cffi.FFI()}


class _Mem(object):
    pass


def prop(case, ctx):
    ffi = ctx.state['ffi']
    mems = []
    for kind, sz, inithex in case['mems']:
        m = _Mem()
        m.kind = kind
        init = bytes.fromhex(inithex) or b'\0'
        if kind.startswith('array:'):
            tc = kind[6:]
            nbytes = (sz // ITEM[tc]) * ITEM[tc]
        else:
            nbytes = sz
        content = (init * (nbytes // len(init) + 1))[:nbytes]
        m.size = nbytes
        m.model = bytearray(content)
        if kind == 'cdata':
            m.obj = ffi.new('char[]', nbytes)
            m.cptr = m.obj
            m.addr = int(ffi.cast('uintptr_t', m.obj))
            ctypes.memmove(m.addr, content, nbytes)
        elif kind == 'bytearray':
            m.obj = bytearray(content)
        elif kind == 'bytes':
            m.obj = bytes(bytearray(content))          # a private copy, never an interned constant
        else:
            m.obj = array.array(kind[6:])
            m.obj.frombytes(content)
        if kind != 'cdata':
            m.cptr = ffi.from_buffer('char[]', m.obj)
            if len(m.cptr) != nbytes:
                ctx.fail("len(from_buffer('char[]', %s of %d bytes)) is %d" % (kind, nbytes, len(m.cptr)))
        m.writable = kind != 'bytes'
        mems.append(m)

    def real(m):
        if m.kind == 'cdata':
            return ctypes.string_at(m.addr, m.size)
        if m.kind in ('bytearray', 'bytes'):
            return bytes(m.obj)
        return m.obj.tobytes()

    bufs = []       # dicts: obj (ffi.buffer), mem, off, n
    arrs = []       # dicts: obj (from_buffer array), mem, off, n (bytes), T, isz, fmt, keep
    stats = {'overlap_move': False, 'clamped': False, 'rejected': False}
    step_no = [0]

    def fail(msg, **kw):
        k = step_no[0]
        ctx.fail('step %d %r: %s' % (k, case['ops'][k] if 0 <= k < len(case['ops']) else 'setup', msg),
                 mems=[[m.kind, m.size] for m in mems], **kw)

    def char_ptr(m, off):
        return m.cptr + off

    def pybuffer(m, off, n=None):
        """a Python-level buffer object for bytes [off, off+n) of memory m that does not go through
        ffi.buffer unless the memory is a cdata"""
        end = m.size if n is None else off + n
        if m.kind == 'cdata':
            return ffi.buffer(m.obj + off, end - off)
        mv = memoryview(m.obj)
        if mv.format != 'B' or mv.itemsize != 1:
            mv = mv.cast('B')
        return mv[off:end]

    def check_all(what):
        for mi, m in enumerate(mems):
            got = real(m)
            if got != bytes(m.model):
                fail('%s: memory %d (%s) is %s, model %s' % (what, mi, m.kind, got.hex(), bytes(m.model).hex()))
        for b in bufs:
            exp = bytes(b['mem'].model[b['off']:b['off'] + b['n']])
            if len(b['obj']) != b['n']:
                fail('%s: len(buffer view) is %d, expected %d' % (what, len(b['obj']), b['n']))
            got = b['obj'][:]
            if got != exp or type(got) is not bytes:
                fail('%s: buffer view over bytes %d..%d reads %r, model %r' % (what, b['off'], b['off'] + b['n'], got, exp))
            if bytes(b['obj']) != exp:
                fail('%s: bytes(buffer view) is %r, model %r' % (what, bytes(b['obj']), exp))
        for a in arrs:
            exp = bytes(a['mem'].model[a['off']:a['off'] + a['n']])
            got = ctypes.string_at(int(ffi.cast('uintptr_t', a['obj'])), a['n'])
            if got != exp:
                fail('%s: from_buffer view (%s) memory is %s, model %s' % (what, a['T'], got.hex(), exp.hex()))

    step_no[0] = -1
    for m in mems:
        if m.kind == 'cdata':
            b = ffi.buffer(m.obj)
        else:
            b = ffi.buffer(m.cptr)
        bufs.append({'obj': b, 'mem': m, 'off': 0, 'n': m.size})
    check_all('initial views')

    def clamped_slice(a, b, n):
        """does [a:b] need clamping / negative-index handling on a length-n sequence?"""
        for x in (a, b):
            if x is not None and (x < 0 or x > n):
                return True
        s, e, _ = slice(a, b, None).indices(n)
        return s > e

    for k, o in enumerate(case['ops']):
        step_no[0] = k
        name = o[0]

        if name == 'mkbuf':
            m = mems[o[1] % len(mems)]
            how = o[4]
            if how in ('short', 'int', 'double'):
                isz = ffi.sizeof(how)
                if m.size < isz:
                    how = 'sized'
            if how == 'whole':
                off, n = 0, m.size
                obj = ffi.buffer(m.obj) if m.kind == 'cdata' else ffi.buffer(m.cptr)
            elif how == 'sized':
                off = o[2] % (m.size + 1)
                if o[2] % 3:
                    off //= 2                       # favour views that start early and are not empty
                n = o[3] % (m.size - off + 1)
                if o[3] % 2:
                    n = m.size - off - n // 2
                obj = ffi.buffer(char_ptr(m, off), n)
            else:
                off = o[2] % (m.size - isz + 1)
                n = isz
                obj = ffi.buffer(ffi.cast(how + ' *', char_ptr(m, off)))        # size = sizeof(*p)
            if len(obj) != n:
                fail('len(ffi.buffer(...)) is %d, expected %d' % (len(obj), n))
            ctx.event('mkbuf:' + ('typed-pointer' if how in ('short', 'int', 'double') else how)
                      + (':empty' if n == 0 else ''))
            if len(bufs) >= 8:
                del bufs[len(mems)]
            bufs.append({'obj': obj, 'mem': m, 'off': off, 'n': n})

        elif name == 'mkfrom':
            m = mems[o[1] % len(mems)]
            T = o[2]; isz, fmt = FROMTYPES[T]
            if o[4] is None:
                a, e = 0, m.size
                src = m.obj if m.kind != 'cdata' else ffi.buffer(m.obj)
                ctx.event('from_buffer-source:' + ('ffi.buffer' if m.kind == 'cdata' else m.kind.split(':')[0]))
            else:
                a = o[4] % (m.size + 1)
                e = a + o[5] % (m.size - a + 1)
                src = pybuffer(m, a, e - a)
                ctx.event('from_buffer-source:' + ('ffi.buffer-slice' if m.kind == 'cdata' else 'memoryview-slice'))
            nbytes = e - a
            fit = nbytes // isz
            if o[3] is None:
                decl = '%s[]' % T
                explen = fit
            else:
                klen = max(0, fit + o[3])
                decl = '%s[%d]' % (T, klen)
                explen = klen if klen * isz <= nbytes else None
            try:
                arr = ffi.from_buffer(decl, src)
            except ValueError as ex:
                if explen is not None:
                    fail("from_buffer('%s', <%d bytes>) raised ValueError: %s" % (decl, nbytes, ex))
                stats['rejected'] = True
                ctx.event('from_buffer-fixed-too-small-rejected')
            else:
                if explen is None:
                    fail("from_buffer('%s', <%d bytes>) was accepted with length %d" % (decl, nbytes, len(arr)))
                if len(arr) != explen:
                    fail("len(from_buffer('%s', <%d bytes>)) is %d, expected %d" % (decl, nbytes, len(arr), explen))
                if ffi.typeof(arr) is not ffi.typeof(decl):
                    fail("from_buffer('%s', ...) has type %s" % (decl, ffi.typeof(arr)))
                ctx.event('from_buffer-' + ('open' if o[3] is None else 'fixed')
                          + (':partial-last-item' if nbytes % isz else '') + (':itemsize>1' if isz > 1 else ''))
                if len(arrs) >= 8:
                    del arrs[0]
                arrs.append({'obj': arr, 'mem': m, 'off': a, 'n': explen * isz, 'T': T, 'isz': isz, 'fmt': fmt,
                             'len': explen, 'keep': src})

        elif name == 'len':
            b = bufs[o[1] % len(bufs)]
            if len(b['obj']) != b['n']:
                fail('len(buffer) is %d, expected %d' % (len(b['obj']), b['n']))

        elif name == 'getitem':
            b = bufs[o[1] % len(bufs)]; i = o[2]
            sub = b['mem'].model[b['off']:b['off'] + b['n']]
            try:
                exp = bytes([sub[i]])
            except IndexError:
                exp = None
            try:
                got = b['obj'][i]
            except IndexError:
                got = None
            if got != exp or (got is not None and type(got) is not bytes):
                fail('buffer[%d] on a view of length %d gives %r, model %r' % (i, b['n'], got, exp))
            ctx.event('getitem:' + ('rejected' if exp is None else 'negative' if i < 0 else 'ok'))

        elif name == 'getslice':
            b = bufs[o[1] % len(bufs)]; a, e, stp = o[2], o[3], o[4]
            sub = bytes(b['mem'].model[b['off']:b['off'] + b['n']])
            exp = sub[slice(a, e, stp)]
            got = b['obj'][slice(a, e, stp)]
            if got != exp or type(got) is not bytes:
                fail('buffer[%r:%r:%r] on a view of length %d gives %r, model %r' % (a, e, stp, b['n'], got, exp))
            cl = clamped_slice(a, e, b['n'])
            if cl:
                stats['clamped'] = True
            ctx.event('getslice:' + ('clamped-or-negative' if cl else 'plain'))

        elif name == 'setitem':
            b = bufs[o[1] % len(bufs)]; i = o[2]
            if not b['mem'].writable:
                ctx.event('write-to-readonly-memory-not-executed')
                continue
            sub = bytearray(b['mem'].model[b['off']:b['off'] + b['n']])
            try:
                sub[i] = o[3]
                ok = True
            except IndexError:
                ok = False
            try:
                b['obj'][i] = bytes([o[3]])
                got_ok = True
            except IndexError:
                got_ok = False
            if ok != got_ok:
                fail('buffer[%d] = b on a view of length %d was %s, model %s' % (
                    i, b['n'], 'accepted' if got_ok else 'rejected', 'accepts' if ok else 'rejects'))
            if ok:
                b['mem'].model[b['off']:b['off'] + b['n']] = sub
            else:
                stats['rejected'] = True
            ctx.event('setitem:' + ('ok' if ok else 'rejected'))

        elif name == 'setslice':
            b = bufs[o[1] % len(bufs)]; a, e, stp = o[2], o[3], o[4]
            srckind, delta, seed = o[5], o[6], o[7]
            tm = b['mem']
            if not tm.writable:
                ctx.event('write-to-readonly-memory-not-executed')
                continue
            n = b['n']
            s0, e0, _ = slice(a, e, stp).indices(n)
            need = max(0, e0 - s0)
            cnt = max(0, need + delta)
            data = bytes(((seed >> (8 * (t % 8))) + t * 37) & 0xff for t in range(cnt))
            overlap_tag = False
            if srckind == 'buffer':
                sm = tm if o[8] is None else mems[o[8] % len(mems)]
                soff = (b['off'] + s0 + o[9]) if sm is tm else o[9] % (sm.size + 1)
                if 0 <= soff and soff + cnt <= sm.size:
                    rhs = ffi.buffer(char_ptr(sm, soff), cnt)
                    data = bytes(sm.model[soff:soff + cnt])
                    dst0 = b['off'] + s0
                    if (sm is tm and cnt > 0 and cnt == need and soff != dst0
                            and soff < dst0 + cnt and dst0 < soff + cnt):
                        overlap_tag = True
                else:
                    srckind = 'bytes'
            if srckind == 'bytes':
                rhs = data
            elif srckind == 'bytearray':
                rhs = bytearray(data)
            elif srckind == 'memoryview':
                rhs = memoryview(b'\xee' + data + b'\xee')[1:1 + cnt]
            elif srckind == 'array':
                rhs = array.array('B', data)
            sub = bytearray(tm.model[b['off']:b['off'] + n])
            sub[slice(a, e, stp)] = data
            ok = len(sub) == n
            try:
                b['obj'][slice(a, e, stp)] = rhs
                got_ok = True
            except ValueError:
                got_ok = False
            if ok != got_ok:
                fail('buffer[%r:%r:%r] = <%d bytes, %s> on a view of length %d was %s, bytearray model %s' % (
                    a, e, stp, cnt, srckind, n, 'accepted' if got_ok else 'rejected with ValueError',
                    'accepts (length preserved)' if ok else 'would change the length'))
            if ok:
                tm.model[b['off']:b['off'] + n] = sub
            else:
                stats['rejected'] = True
            cl = clamped_slice(a, e, n)
            if cl:
                stats['clamped'] = True
            ctx.event('setslice:' + ('ok:' if ok else 'wrong-length:') + srckind)
            if cl:
                ctx.event('setslice:clamped-or-negative' + (':start>stop' if s0 > e0 else ''))
            if overlap_tag:
                ctx.event('setslice:overlapping-buffer-source')

        elif name == 'arrset':
            if not arrs:
                ctx.event('arrset-no-from_buffer-view-yet')
                continue
            a = arrs[o[1] % len(arrs)]
            if a['len'] == 0 or not a['mem'].writable:
                ctx.event('arrset-not-executed')
                continue
            j = o[2] % a['len']
            raw = (o[3].to_bytes(8, 'little'))[:a['isz']]
            if a['fmt'] is None:
                val = raw
            else:
                val = struct.unpack(a['fmt'], raw)[0]
                if val != val:
                    val = 1.5
                    raw = struct.pack(a['fmt'], val)
            a['obj'][j] = val
            lo = a['off'] + j * a['isz']
            a['mem'].model[lo:lo + a['isz']] = raw
            ctx.event('write-through-from_buffer-array')

        elif name == 'objset':
            m = mems[o[1] % len(mems)]
            if not m.writable or m.size == 0:
                ctx.event('objset-not-executed')
                continue
            i = o[2] % m.size
            if m.kind == 'cdata':
                m.obj[i] = bytes([o[3]])
            elif m.kind == 'bytearray':
                m.obj[i] = o[3]
            else:
                mv = memoryview(m.obj)
                (mv if mv.format == 'B' else mv.cast('B'))[i] = o[3]
            m.model[i] = o[3]
            ctx.event('write-through-object:' + m.kind.split(':')[0])

        elif name == 'memmove':
            dm = mems[o[1] % len(mems)]
            if not dm.writable:
                w = [m for m in mems if m.writable]
                if not w:
                    ctx.event('memmove-no-writable-memory')
                    continue
                dm = w[o[1] % len(w)]
            sm = dm if o[4] is None else mems[o[4] % len(mems)]
            doff = o[2] % (dm.size + 1)
            if sm is dm:
                soff = min(max(doff + o[5], 0), sm.size) if -4 <= o[5] <= 4 else o[5] % (sm.size + 1)
            else:
                soff = o[5] % (sm.size + 1)
            rest = min(dm.size - doff, sm.size - soff)
            n = o[7] % (rest + 1)
            if o[7] % 2:
                n = rest - n // 2                   # favour long moves (more overlap)

            def rep(m, off, how):
                if how == 'cdata':
                    return char_ptr(m, off)
                if how == 'buf':
                    return ffi.buffer(char_ptr(m, off), m.size - off)
                return pybuffer(m, off)
            dst = rep(dm, doff, o[3])
            src = rep(sm, soff, o[6])
            r = ffi.memmove(dst, src, n)
            if r is not None:
                fail('memmove returned %r' % (r,))
            tmp = bytes(sm.model[soff:soff + n])
            dm.model[doff:doff + n] = tmp
            ov = sm is dm and n > 0 and soff < doff + n and doff < soff + n and soff != doff
            if ov:
                stats['overlap_move'] = True
            ctx.event('memmove:%s<-%s' % (o[3], o[6]))
            if ov:
                ctx.event('memmove:overlapping:' + ('dst>src' if doff > soff else 'dst<src'))
            elif sm is dm:
                ctx.event('memmove:same-memory-disjoint')
        else:
            raise HarnessError('unknown op %r' % (o,))

        check_all('after the operation')

    nontriv = (stats['overlap_move'] or stats['clamped']) and stats['rejected']
    ctx.note((case['mems'], case['ops']), nontriv, ['history:nontrivial' if nontriv else 'history:trivial'])
    ctx.extra['steps_executed'] = ctx.extra.get('steps_executed', 0) + len(case['ops'])
    for m in mems:
        key = 'memories_' + m.kind
        ctx.extra[key] = ctx.extra.get(key, 0) + 1
