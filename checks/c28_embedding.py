"""C28 -- embedded-library start-up initialises once and never deadlocks.

Two real CFFI-embedded libraries A and B (built from the tree's recompiler and
_embedding.h, linked with libpython) are driven by native/c28_driver.c: up to 4
pthreads make calls into them according to a generated plan.  Each library's
init code announces itself, defines its extern "Python" functions and then
blocks at a gate owned by the driver, so plans such as "T1 enters while T0 is
inside A's init", "T2 calls B meanwhile", "init fails while two threads wait",
"init calls its own / the other library's function" are forced, not hoped for.
Init behaviour (ok / raise / call own function / call the other library) is
chosen per run through environment variables, so the libraries are built once.
"""
import os, subprocess, hashlib, fcntl, shutil, re
from hypothesis import strategies as st
from vlib.core import Violation, HarnessError
from vlib import env, build

ID = 'C28'
LEVEL = 'exploration'
TECHNIQUE = 'schedule-owning PBT: generated pthread plans with harness-owned init gates over real embedded libraries; event-log oracle'
RULE = ('Case = init modes for libraries A,B in {ok, raise, rec_self, rec_other} x a plan for 1-4 pthreads '
        '(start call / wait-for-init-gate / release-gate / join / pause steps). One process per plan. Oracle on the '
        'event log: Python initialised once (sitecustomize hook), each init code entered <= 1 time, no other thread '
        'runs a library\'s extern "Python" function before its init exited, calls return f(arg) after a successful '
        'init and 0 after a failed one, every call terminates (60 s deadline with all gates open), exit status 0. '
        'Non-trivial = at least one other thread has a call into a library outstanding while that library\'s init '
        'code is blocked at its gate; distinct by (modes, plan).')
LEVEL_TEXT = ('Forced start-up interleavings at the granularity of init-code gates and call starts, on the real '
              '_embedding.h code; interleavings inside the compare-and-swap spin loops are only sampled by real scheduling.')
LEVEL_NOTE = ('Trusted: the pthread driver (native/c28_driver.c), CPython embedding via libpython3.12, pauses of a few '
              'ms to let a started thread reach the point where it blocks (affects which interleaving is seen, never the '
              'verdict). Liveness by a 60 s deadline with all gates open.')
ASSUMPTIONS = ['GIL build of CPython 3.12 embedded through libpython3.12.so', 'at most 2 libraries, 4 threads']
BUDGET = {'quick': 120, 'thorough': 8000}
TIME = {'quick': 40, 'thorough': 900}
MIN_PER_SHARD = 30
MAX_SHARDS = 8

INIT_CODE = r'''
import os, ctypes
from _c28_%(x)s import ffi, lib
_d = ctypes.CDLL(None)
_d.drv_event.argtypes = [ctypes.c_char_p]
_d.drv_event.restype = None
_d.drv_gate.argtypes = [ctypes.c_int]
_d.drv_gate.restype = None
_mode = os.environ.get('C28_MODE_%(X)s', 'ok')
_d.drv_event(b'init_enter %(x)s')

@ffi.def_extern()
def %(x)s_f0(n):
    _d.drv_event(('fn_run %(x)s f0 %%d' %% n).encode())
    return n * 2 + %(K)d

@ffi.def_extern()
def %(x)s_f1(n):
    _d.drv_event(('fn_run %(x)s f1 %%d' %% n).encode())
    return n * 3 + %(K)d

_d.drv_gate(2 * %(idx)d)
if _mode == 'rec_self':
    _r = lib.%(x)s_f0(21)
    _d.drv_event(('rec_result %(x)s self %%d' %% _r).encode())
elif _mode == 'rec_other':
    _o = ctypes.CDLL(os.environ['C28_LIB_%(OX)s'])
    _r = _o.%(ox)s_f1(17)
    _d.drv_event(('rec_result %(x)s other %%d' %% _r).encode())
_d.drv_gate(2 * %(idx)d + 1)      # second gate: after the recursive call, before the init code ends
if _mode == 'raise':
    _d.drv_event(b'init_raise %(x)s')
    raise RuntimeError('C28 init failure requested')
_d.drv_event(b'init_exit %(x)s ok')
'''
KS = {'a': 1000, 'b': 5000}

SITECUSTOMIZE = '''
import ctypes
try:
    _e = ctypes.CDLL(None).drv_event
    _e.argtypes = [ctypes.c_char_p]
    _e.restype = None
    _e(b'py_init')
except AttributeError:
    pass
'''


def _tree_hash():
    h = hashlib.sha256(build.source_hash('c28').encode())
    for rel in ('src/cffi/recompiler.py', 'src/cffi/_embedding.h', 'src/cffi/api.py', 'src/cffi/_cffi_include.h'):
        with open(os.path.join(env.REPO, rel), 'rb') as f:
            h.update(f.read())
    with open(os.path.join(env.VERIF, 'native', 'c28_driver.c'), 'rb') as f:
        h.update(f.read())
    h.update(INIT_CODE.encode())
    return h.hexdigest()[:16]


def build_artifacts():
    import cffi, sysconfig
    out = os.path.join(env.BUILD, 'c28-' + _tree_hash())
    if os.path.exists(os.path.join(out, 'ok')):
        return out
    os.makedirs(env.BUILD, exist_ok=True)
    lock = open(os.path.join(env.BUILD, 'c28.lock'), 'w')
    fcntl.flock(lock, fcntl.LOCK_EX)
    try:
        if os.path.exists(os.path.join(out, 'ok')):
            return out
        shutil.rmtree(out, ignore_errors=True)
        os.makedirs(out)
        libdir = sysconfig.get_config_var('LIBDIR')
        ldver = sysconfig.get_config_var('LDVERSION') or '3.12'
        for x in ('a', 'b'):
            ffi = cffi.FFI()
            ffi.embedding_api('int %s_f0(int); int %s_f1(int);' % (x, x))
            ffi.set_source('_c28_' + x, '')
            ox = 'b' if x == 'a' else 'a'
            ffi.embedding_init_code(INIT_CODE % {'x': x, 'X': x.upper(), 'K': KS[x], 'idx': 'ab'.index(x),
                                                 'ox': ox, 'OX': ox.upper()})
            c = os.path.join(out, '_c28_%s.c' % x)
            ffi.emit_c_code(c)
            so = os.path.join(out, 'lib_c28_%s.so' % x)
            r = subprocess.run(['gcc', '-O0', '-w', '-shared', '-fPIC', '-pthread', '-I' + env.PYINC,
                                '-I' + os.path.join(env.REPO, 'src', 'cffi'), '-o', so, c,
                                '-L' + libdir, '-Wl,-rpath,' + libdir, '-lpython' + ldver],
                               capture_output=True, text=True)
            if r.returncode != 0:
                raise HarnessError('embedded library does not build:\n' + r.stderr[-3000:])
        drv = os.path.join(out, 'c28_driver')
        r = subprocess.run(['gcc', '-O1', '-w', '-rdynamic', '-pthread', '-o', drv,
                            os.path.join(env.VERIF, 'native', 'c28_driver.c'), '-ldl'],
                           capture_output=True, text=True)
        if r.returncode != 0:
            raise HarnessError('driver does not build:\n' + r.stderr[-3000:])
        os.makedirs(os.path.join(out, 'site'))
        with open(os.path.join(out, 'site', 'sitecustomize.py'), 'w') as f:
            f.write(SITECUSTOMIZE)
        with open(os.path.join(out, 'ok'), 'w') as f:
            f.write('ok')
        return out
    finally:
        lock.close()


def setup(ctx):
    return {'dir': build_artifacts()}


MODES = ['ok', 'ok', 'raise', 'rec_self', 'rec_other']


def strategy(ctx):
    @st.composite
    def structured(draw):
        """first caller reaches the first init gate; other threads pile up behind it (same or other
        library) while that gate is closed (phase 0) or while the init code is parked at its second
        gate, i.e. after its recursive call (phase 1); gates are then released in a drawn order."""
        nt = draw(st.integers(2, 4))
        first = draw(st.sampled_from('AB'))
        other = 'B' if first == 'A' else 'A'
        steps = [['S', 0, first, draw(st.integers(0, 1)), 1], ['W', first, 0]]
        started = {first}
        arg = [2]
        phases = [draw(st.integers(0, 1)) for _ in range(1, nt)]

        def start(t):
            L = first if draw(st.integers(0, 9)) < 7 else other
            steps.append(['S', t, L, draw(st.integers(0, 1)), arg[0]])
            arg[0] += 1
            if L not in started:
                started.add(L)
                if draw(st.booleans()):
                    steps.append(['W', L, 0])
            elif draw(st.booleans()):
                steps.append(['P', draw(st.sampled_from([1, 5, 20]))])
        for t in range(1, nt):
            if phases[t - 1] == 0:
                start(t)
        if 1 in phases:
            steps.append(['R', first, 0])
            steps.append(['W', first, 1])
            for t in range(1, nt):
                if phases[t - 1] == 1:
                    start(t)
            steps.append(['P', draw(st.sampled_from([5, 20]))])
        rel = draw(st.permutations([[first, 0], [first, 1], [other, 0], [other, 1]]))
        for L, k in rel[:2]:
            steps.append(['R', L, k])
        if draw(st.booleans()):
            steps.append(['P', draw(st.sampled_from([1, 5, 20]))])
        for L, k in rel[2:]:
            steps.append(['R', L, k])
        return nt, steps

    @st.composite
    def freeform(draw):
        nt = draw(st.integers(1, 4))
        steps = []
        started = set()
        busy = set()
        arg = 1
        for _ in range(draw(st.integers(2, 14))):
            k = draw(st.sampled_from(['S', 'S', 'S', 'W', 'R', 'J', 'P']))
            if k == 'S':
                t = draw(st.integers(0, nt - 1))
                if t in busy:
                    continue   # one outstanding call per thread; a J must come first
                L = draw(st.sampled_from('AB'))
                steps.append(['S', t, L, draw(st.integers(0, 1)), arg])
                arg += 1
                busy.add(t)
                if L not in started:
                    started.add(L)
                    if draw(st.integers(0, 3)) > 0:
                        steps.append(['W', L, 0])
                elif draw(st.booleans()):
                    steps.append(['P', draw(st.sampled_from([1, 5, 20]))])
            elif k == 'W':
                pass           # only meaningful right after the first call into a library
            elif k == 'R':
                steps.append(['R', draw(st.sampled_from('AB')), draw(st.integers(0, 1))])
            elif k == 'J':
                # joining a thread whose call is blocked behind an unreleased gate would only
                # time out: release first (the driver also releases everything at the end)
                if busy:
                    t = draw(st.sampled_from(sorted(busy)))
                    for L in 'AB':
                        for g in (0, 1):
                            steps.append(['R', L, g])
                    steps.append(['J', t])
                    busy.discard(t)
            else:
                steps.append(['P', draw(st.sampled_from([1, 5, 20]))])
        return nt, steps

    @st.composite
    def case(draw):
        ma = draw(st.sampled_from(MODES))
        mb = draw(st.sampled_from(MODES))
        if ma == 'rec_other' and mb == 'rec_other':
            mb = 'ok'          # mutual recursion A->B->A: B's init would call into A while A's init is running
        nt, steps = draw(structured()) if draw(st.integers(0, 4)) > 0 else draw(freeform())
        return {'modes': [ma, mb], 'nthreads': nt, 'steps': steps}
    return case()


def run_plan(case, ctx):
    d = ctx.state['dir']
    plan = ';'.join(' '.join(str(x) for x in s) for s in case['steps'])
    e = dict(os.environ)
    e['C28_LIB_A'] = os.path.join(d, 'lib_c28_a.so')
    e['C28_LIB_B'] = os.path.join(d, 'lib_c28_b.so')
    e['C28_MODE_A'], e['C28_MODE_B'] = case['modes']
    # the embedded interpreter must find the tree's _cffi_backend and the sitecustomize hook
    e['PYTHONPATH'] = os.pathsep.join([os.path.join(d, 'site'), os.environ['VERIF_BACKEND_DIR'],
                                       os.path.join(env.REPO, 'src')])
    e.pop('LD_PRELOAD', None)
    try:
        r = subprocess.run([os.path.join(d, 'c28_driver'), plan], env=e, capture_output=True, text=True,
                           errors='replace', timeout=400)
    except subprocess.TimeoutExpired:
        return None, 'driver-timeout', ''
    return r.stdout.splitlines(), r.returncode, r.stderr


def prop(case, ctx):
    log, rc, err = run_plan(case, ctx)
    if log is None:
        ctx.fail('driver process did not finish within 400 s (calls never terminated)')
    modes = dict(zip('ab', case['modes']))
    detail = {'log': log, 'stderr': err[-1500:], 'rc': rc}
    if any(l.startswith('TIMEOUT') for l in log) or rc == 3:
        ctx.fail('a call did not terminate within 60 s with every gate open', **detail)
    if rc != 0:
        ctx.fail('driver exited with status %r' % (rc,), **detail)
    if 'Fatal Python error' in err:
        ctx.fail('Fatal Python error in embedded start-up', **detail)
    n_pyinit = sum(1 for l in log if l.startswith('py_init'))
    if n_pyinit > 1:
        ctx.fail('Python initialised %d times' % n_pyinit, **detail)
    init_tid, init_done, init_failed = {}, {}, {}
    entered = {'a': 0, 'b': 0}
    overlap = False
    outstanding = {}     # tid -> lib of its current call
    for i, l in enumerate(log):
        w = l.split()
        tid = int(w[-1].split('=')[1])
        if w[0] == 'init_enter':
            entered[w[1]] += 1
            if entered[w[1]] > 1:
                ctx.fail("library %s: init code entered twice" % w[1], **detail)
            init_tid[w[1]] = tid
            if any(L == w[1] and t != tid for t, L in outstanding.items()):
                overlap = True
        elif w[0] == 'init_exit':
            init_done[w[1]] = i
        elif w[0] == 'init_raise':
            init_failed[w[1]] = i
            init_done[w[1]] = i
        elif w[0] == 'call_begin':
            outstanding[tid] = w[1]
            if w[1] in init_tid and w[1] not in init_done and init_tid[w[1]] != tid:
                overlap = True
        elif w[0] == 'fn_run':
            L = w[1]
            if L not in init_done and tid != init_tid.get(L):
                ctx.fail('thread %d ran %s_%s before the initialisation of %s finished' % (tid, L, w[2], L),
                         **detail)
            if L in init_failed:
                ctx.fail('extern "Python" function of %s ran after its initialisation failed' % L, **detail)
        elif w[0] == 'call_ret':
            outstanding.pop(tid, None)
            L, fn, arg, res = w[1], w[2], int(w[3]), int(w[4])
            good = arg * (2 if fn == 'f0' else 3) + KS[L]
            failed = modes[L] == 'raise'
            # a library whose init calls into a failing other library still initialises fine itself
            if failed:
                if res != 0:
                    ctx.fail('call into %s returned %d after its initialisation failed (expected 0)' % (L, res),
                             **detail)
            elif res != good:
                ctx.fail('call %s_%s(%d) returned %d, expected %d' % (L, fn, arg, res, good), **detail)
        elif w[0] == 'rec_result':
            L, kind, res = w[1], w[2], int(w[3])
            if kind == 'self':
                if res != 21 * 2 + KS[L]:
                    ctx.fail('recursive call from the init code of %s returned %d' % (L, res), **detail)
            else:
                o = 'b' if L == 'a' else 'a'
                expect = 0 if modes[o] == 'raise' else 17 * 3 + KS[o]
                if res != expect:
                    ctx.fail('init code of %s calling %s_f1(17) got %d, expected %d' % (L, o, res, expect), **detail)
    ncalls = sum(1 for s in case['steps'] if s[0] == 'S')
    nret = sum(1 for l in log if l.startswith('call_ret'))
    if nret != ncalls:
        ctx.fail('%d calls started, %d returned' % (ncalls, nret), **detail)
    ctx.note(case, overlap, ['overlap' if overlap else 'no-overlap', 'A=' + modes['a'], 'B=' + modes['b'],
                             '%d-threads' % case['nthreads']])
