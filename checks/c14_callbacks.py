"""C14 -- callbacks and extern "Python" pass values exactly and contain errors.

Case: 0-3 structs, 3-8 function-pointer signatures (same type universe as C13,
no varargs) and a list of invocations.  One API-mode module per case contains,
for every signature i, an  extern "Python" R ep_i(A...)  and, for every
invocation j, a C function
    void inv_j(void *fn, void *out, void **ptrs)
that calls fn (or ep_i when fn is NULL) with argument values that are *baked
into the C source* (integers, chars, bit-exact floats, structs assigned field by
field, pointers to static arrays), and copies the result it received to *out.

Each invocation is run three times: through @ffi.def_extern(), through
ffi.callback() of the API module's ffi, and through ffi.callback() of a fresh
in-line FFI.  The Python body records its arguments and then returns an accepted
value / raises / returns an unconvertible value, under {no error, error=v} x
{no onerror, onerror -> None, onerror -> v}.

Oracle (model, not differential): recorded arguments == the baked values
(type-exact; float parameters narrowed as C does; pointers by address and
contents); *out == the modelled conversion of the returned value, or on failure
the onerror value / error= value / zeros; the Python caller of inv_j sees no
exception; exactly one sys.unraisablehook report iff there is no onerror;
onerror is called exactly once with the exception.
"""
import os, sys, itertools, collections
from hypothesis import strategies as st, assume
from vlib.core import HarnessError
from vlib import cc, callgen

ID = 'C14'
LEVEL = 'exploration'
RULE = ('Hypothesis-generated function-pointer signatures (params/results over 23 integer types incl. _Bool, '
        'char/wchar_t/char16_t/char32_t, float, double, pointers to those/void/structs, structs by value '
        'with nested/array/pointer fields) x argument values baked into generated C callers x Python body '
        '{normal, raises Exception, raises BaseException, returns unconvertible} x {no error, error=v} x '
        '{no onerror, onerror->None, onerror->v} x {def_extern, API-ffi callback, in-line-ffi callback}; '
        'oracle = reference model of the conversions + error-value rules. An evaluation is one invocation '
        'through one mechanism; non-trivial = >=2 parameters incl. one narrower than 8 bytes, or a failing '
        'body; distinct by (signature, body kind, error config, mechanism).')
TECHNIQUE = 'property-based testing against a conversion/error-value model, generated C callers'
LEVEL_TEXT = ('random search: generated signatures x baked argument values x body/error configurations, '
              'each through extern "Python" and two ffi.callback() routes; no exhaustiveness claim')
LEVEL_NOTE = ('trusted: gcc -O0 (the C callers pass the literal values; floats are materialised from bit '
              'patterns), the small Python model of C conversions in vlib/callgen.py (model_value), '
              'reading *out through cffi (covered by other properties)')
ASSUMPTIONS = ['onerror handlers that raise or return unconvertible values are not generated (outcome not defined by the statement)',
               'values returned for pointer results are NULL, integer-cast addresses or one of the received pointers',
               'x86-64 SysV ABI, libffi 3.4.4 closures']
BUDGET = {'quick': 32, 'thorough': 3200}
INVS = {'quick': 48, 'thorough': 48}
MIN_PER_SHARD = 2
CRASHY = True          # a wrongly passed pointer/struct may crash the worker: report the case
TIME = {'quick': 20, 'thorough': 840}

_counter = itertools.count()
_built = collections.OrderedDict()      # cdef + C source -> (ffi, lib, in-line ffi) of the last few modules


class CbError(Exception):
    pass


class CbBase(BaseException):
    pass


def strategy(ctx):
    ninv = INVS[ctx.tier]
    callgen.allow_big_examples()

    @st.composite
    def case(draw):
        assume(draw(st.integers(0, 255)) != 0)      # skip Hypothesis' all-minimal first example (see C13)
        ns = draw(st.integers(0, 3))
        structs = [draw(callgen.struct_defs(k)) for k in range(ns)]
        mod = {'structs': structs}
        sigs = [draw(callgen.cb_sigs(ns)) for _ in range(draw(st.integers(3, 8)))]
        invs = [draw(callgen.invocations(mod, sigs)) for _ in range(draw(st.integers(ninv // 2, ninv)))]
        assume(draw(st.integers(0, 255)) != 0)      # ... and its 'prefix + all-minimal rest' early examples
        return {'structs': structs, 'sigs': sigs, 'invs': invs}
    return case()


def _kind(t):
    return {'i': 'int', 'c': 'char', 'f': 'float', 's': 'struct', 'p': 'ptr', 'v': 'void'}[t[0]]


def _narrow(t):
    return callgen.is_scalar(t) and callgen.sizeof_scalar(t) < 8


def c_source(mod, sigs, invs):
    out = [callgen.PRELUDE]
    for k, fs in enumerate(mod['structs']):
        out.append(callgen.struct_decl(k, fs))
    for i, sig in enumerate(sigs):
        out.append('static %s;' % callgen.sig_decl(sig, 'ep_%d' % i))
    for j, inv in enumerate(invs):
        sig = sigs[inv['sig']]
        b = ['void inv_%d(void *fn, void *out, void **ptrs) {' % j]
        names = []
        for q, (t, v) in enumerate(zip(sig['args'], inv['args'])):
            if t[0] == 'p':
                elem, n = t[1], t[2]
                ect = 'unsigned char' if elem[0] == 'v' else callgen.cname(elem)
                pt = callgen.cname(['p', elem])
                if v[0] == 'NULL':
                    b.append('%s v%d = (%s)0; ptrs[%d] = 0;' % (callgen.declare(['p', elem], ''), q, pt, q))
                else:
                    b.append('static %s arr%d[%d];' % (ect, q, n))
                    et = ['i', 'unsigned char'] if elem[0] == 'v' else elem
                    for w, item in enumerate(v[1]):
                        if elem[0] == 's':
                            b.append('memset(&arr%d[%d], 0, sizeof arr%d[%d]);' % (q, w, q, w))
                        b += callgen.c_assign(mod, 'arr%d[%d]' % (q, w), et, item)
                    b.append('%s v%d = (%s)arr%d; ptrs[%d] = arr%d;' % (
                        callgen.declare(['p', elem], ''), q, pt, q, q, q))
            else:
                b.append('%s;' % callgen.declare(t, 'v%d' % q))
                if t[0] == 's':
                    b.append('memset(&v%d, 0, sizeof v%d);' % (q, q))
                b += callgen.c_assign(mod, 'v%d' % q, t, v)
            names.append('v%d' % q)
        call_fp = '((%s)fn)(%s)' % (callgen.sig_ctype(sig), ', '.join(names))
        call_ep = 'ep_%d(%s)' % (inv['sig'], ', '.join(names))
        if sig['ret'][0] == 'v':
            b.append('if (fn) %s; else %s; (void)out;' % (call_fp, call_ep))
        else:
            rt = sig['ret'] if sig['ret'][0] != 'p' else ['p', sig['ret'][1]]
            b.append('{ %s; if (fn) r = %s; else r = %s; memcpy(out, &r, sizeof r); }' % (
                callgen.declare(rt, 'r'), call_fp, call_ep))
        b.append('}')
        out.append(' '.join(b))
    return '\n'.join(out) + '\n'


def cdef_text(mod, sigs, invs, with_funcs=True):
    out = [callgen.struct_decl(k, fs) for k, fs in enumerate(mod['structs'])]
    if with_funcs:
        for i, sig in enumerate(sigs):
            out.append('extern "Python" %s;' % callgen.sig_decl(sig, 'ep_%d' % i))
        for j in range(len(invs)):
            out.append('void inv_%d(void *fn, void *out, void **ptrs);' % j)
    return '\n'.join(out) + '\n'


def observe(ffi, t, x):
    """what the Python body received for parameter type t"""
    if t[0] != 'p':
        return callgen.simplify(callgen.norm(ffi, x))
    elem, n = t[1], t[2]
    if not isinstance(x, ffi.CData) or ffi.typeof(x) is not ffi.typeof(callgen.cname(['p', elem])):
        return ['wrong-type', repr(x)]
    addr = int(ffi.cast('uintptr_t', x))
    if addr == 0:
        return ['ptr', 0]
    y = ffi.cast('unsigned char *', x) if elem[0] == 'v' else x
    return ['ptrdata', addr, [callgen.simplify(callgen.norm(ffi, y[i])) for i in range(n)]]


def expected_arg(mod, t, v, addr):
    if t[0] != 'p':
        return callgen.model_value(mod, t, v)
    if v[0] == 'NULL':
        return ['ptr', 0]
    et = ['i', 'unsigned char'] if t[1][0] == 'v' else t[1]
    return ['ptrdata', addr, [callgen.model_value(mod, et, item) for item in v[1]]]


def raw_partial(mod, t, v):
    return (t[0] == 's' and v is not None and v[0] in ('list', 'tuple', 'dict')
            and callgen.init_is_partial(mod, t[1], v))


def run_one(mech, inv, j, sig, mod, ffi1, lib1, ffi3):
    """-> dict of observations"""
    ffi = ffi3 if mech == 'cb-abi' else ffi1
    rt = sig['ret']
    rec = {'calls': 0, 'args': None, 'onerr': [], 'unraisable': [], 'argaddr': None}
    keep = callgen.Built()

    def build(v):
        try:
            return callgen.build_value(ffi, None, v, keep)
        except Exception as e:
            raise HarnessError('cannot build %r: %s: %s' % (v, type(e).__name__, e))
    ret = inv['ret']
    retobj = None if ret[0] == 'argptr' else build(ret)
    errobj = None if inv['error'] is None else build(inv['error'])
    oe = inv['onerror']
    oeobj = None if oe is None or oe == ['none'] else build(oe)
    exc_obj = CbError('callback failed on purpose') if inv['body'] == 'raise' else CbBase()

    def body(*a):
        rec['calls'] += 1
        rec['args'] = [observe(ffi, t, x) for t, x in zip(sig['args'], a)]
        rec['nargs'] = len(a)
        if inv['body'] in ('raise', 'raise-base'):
            raise exc_obj
        if ret[0] == 'argptr':
            rec['argaddr'] = int(ffi.cast('uintptr_t', a[ret[1]]))
            return a[ret[1]]
        return retobj

    def onerror(et, ev, tb):
        rec['onerr'].append((et, ev, tb))
        return oeobj
    kw = {}
    if errobj is not None:
        kw['error'] = errobj
    if oe is not None:
        kw['onerror'] = onerror
    out = ffi1.new('char[]', 256) if rt[0] != 'v' else ffi1.NULL
    if rt[0] != 'v':
        ffi1.buffer(out)[:] = b'\xa5' * 256
    ptrs = ffi1.new('void *[8]')
    if mech == 'extern':
        ffi1.def_extern(name='ep_%d' % inv['sig'], **kw)(body)
        fn = ffi1.NULL
    else:
        fn = ffi.callback(callgen.sig_ctype(sig), body, **kw)
    old_hook = sys.unraisablehook
    sys.unraisablehook = lambda u: rec['unraisable'].append((u.exc_type, u.err_msg))
    escaped = None
    try:
        try:
            getattr(lib1, 'inv_%d' % j)(fn, out, ptrs)
        except BaseException as e:
            if isinstance(e, (KeyboardInterrupt, SystemExit, MemoryError)):
                raise
            escaped = e
    finally:
        sys.unraisablehook = old_hook
    rec['escaped'] = escaped
    rec['ptrs'] = [int(ffi1.cast('uintptr_t', ptrs[q])) for q in range(8)]
    if rt[0] != 'v':
        ct = callgen.cname(rt if rt[0] != 'p' else ['p', rt[1]])
        rec['out'] = callgen.simplify(callgen.norm(ffi1, ffi1.cast(ct + ' *', out)[0]))
    else:
        rec['out'] = None
    del fn
    return rec


def prop(case, ctx):
    import cffi
    mod = {'structs': case['structs']}
    sigs, invs = case['sigs'], case['invs']
    src = c_source(mod, sigs, invs)
    cdef = cdef_text(mod, sigs, invs)
    key = cdef + src
    if key in _built:
        # (Hypothesis follows most examples by mutated copies; those that only differ in the
        # Python body / error configuration need no new gcc run)
        _built.move_to_end(key)
        ctx.event('module-build-reused')
    else:
        uid = '%d_%d' % (os.getpid(), next(_counter))
        ffi_a = cffi.FFI()
        ffi_a.cdef(cdef)
        name = 'c14api_' + uid
        ffi_a.set_source(name, src)
        try:
            m = cc.build_api_module(ffi_a, name, ctx.tmp)
        except cc.CompileFailed as e:
            raise HarnessError('API module does not compile: %s\n%s' % (e, src[:6000]))
        ffi3 = cffi.FFI()
        ffi3.cdef(cdef_text(mod, sigs, invs, with_funcs=False))
        _built[key] = (m.ffi, m.lib, ffi3)
        while len(_built) > 3:
            _built.popitem(last=False)
    ffi1, lib1, ffi3 = _built[key]
    for j, inv in enumerate(invs):
        sig = sigs[inv['sig']]
        rt = sig['ret']
        failing = inv['body'] != 'normal'
        if inv['body'] == 'normal' and raw_partial(mod, rt, inv['ret']) and ctx.skip_known('struct-result-partial-init'):
            continue
        proto = callgen.sig_ctype(sig)
        errcfg = ('error' if inv['error'] is not None else 'noerror') + '/' + (
            'no-onerror' if inv['onerror'] is None else 'onerror-none' if inv['onerror'] == ['none'] else 'onerror-value')
        nontriv = failing or (len(sig['args']) >= 2 and any(_narrow(t) for t in sig['args']))
        for mech in ('extern', 'cb-api', 'cb-abi'):
            r = run_one(mech, inv, j, sig, mod, ffi1, lib1, ffi3)
            cls = ['mech:' + mech, 'body:' + inv['body'], errcfg, 'ret:' + _kind(rt)]
            cls += ['arg:' + _kind(t) + ('/NULL' if v[0] == 'NULL' else '') for t, v in zip(sig['args'], inv['args'])]
            if inv['ret'][0] == 'argptr':
                cls.append('ret-is-arg-pointer')
            ctx.note([proto, inv['body'], errcfg, mech], nontriv, cls)

            def fail(msg, **kw):
                ctx.fail('%s [%s, %s, body=%s, %s]' % (msg, mech, proto, inv['body'], errcfg), proto=proto,
                         mechanism=mech, invocation=inv,
                         structs=[callgen.struct_decl(k, fs) for k, fs in enumerate(mod['structs'])], **kw)
            if r['escaped'] is not None:
                fail('exception escaped from the C caller: %s: %s' % (type(r['escaped']).__name__, r['escaped']))
            if r['calls'] != 1:
                fail('Python function called %d times' % r['calls'])
            exp_args = [expected_arg(mod, t, v, r['ptrs'][q]) for q, (t, v) in enumerate(zip(sig['args'], inv['args']))]
            if r['args'] is None:
                fail('the Python function was entered but its arguments could not be read back '
                     '(recording them raised inside the callback)', passed=exp_args)
            if r['args'] != exp_args:
                bad = [q for q in range(len(exp_args)) if q >= len(r['args']) or r['args'][q] != exp_args[q]]
                fail('argument %s received by the Python function differs from what C passed' % bad,
                     received=[r['args'][q] for q in bad if q < len(r['args'])], passed=[exp_args[q] for q in bad])
            # ---- result
            if not failing:
                if inv['ret'][0] == 'argptr':
                    exp_out = ['ptr', r['argaddr']]
                elif rt[0] == 'v':
                    exp_out = None
                else:
                    exp_out = callgen.model_value(mod, rt, inv['ret'])
                exp_onerr, exp_unr = 0, 0
            else:
                oe = inv['onerror']
                if rt[0] == 'v':
                    exp_out = None
                elif oe is not None and oe != ['none']:
                    exp_out = callgen.model_value(mod, rt, oe)
                elif inv['error'] is not None:
                    exp_out = callgen.model_value(mod, rt, inv['error'])
                else:
                    exp_out = callgen.zero_norm(mod, rt)
                exp_onerr = 1 if oe is not None else 0
                exp_unr = 0 if oe is not None else 1
            if r['out'] != exp_out:
                fail('C caller received %r, expected %r' % (r['out'], exp_out), received=r['out'], expected=exp_out)
            if len(r['onerr']) != exp_onerr:
                fail('onerror called %d times, expected %d' % (len(r['onerr']), exp_onerr))
            if len(r['unraisable']) != exp_unr:
                fail('%d unraisable reports, expected %d' % (len(r['unraisable']), exp_unr),
                     reports=[repr(u) for u in r['unraisable']])
            if exp_onerr:
                et, ev, tb = r['onerr'][0]
                if not (isinstance(et, type) and isinstance(ev, et)):      # (tb is None for conversion errors)
                    fail('onerror received (%r, %r, %r)' % (et, ev, tb))
                if inv['body'] in ('raise', 'raise-base') and not isinstance(ev, (CbError, CbBase)):
                    fail('onerror received %r instead of the raised exception' % (ev,))
