"""C03 -- integer stores accept exactly the type's range and round-trip, on every
store path.

Case: one integer type (47 primitive integer spellings incl. _Bool + 4 enums),
a list of Python ints (G-INT for that type's range), a set of store paths, the
callback error value and the FFI flavour used for the pure-memory paths.  Every
value is pushed through every listed path.

Oracle: range model from gcc's sizeof / signedness of the type (read through
ctypes from the typezoo .so, never from cffi); accepted => read-back (and what C
reads / what the compiled identity function echoes) == v and the target bytes
are v's two's-complement encoding with everything around it untouched;
rejected => OverflowError and the 0xA5-prefilled target byte-identical;
callbacks => the C caller gets v, or the callback's error value (0 if none was
given) with an OverflowError reported through sys.unraisablehook and nothing
raised into the Python caller.
"""
import sys
from hypothesis import strategies as st
from vlib.core import Violation, HarnessError
from vlib import gen, typezoo

ID = 'C03'
LEVEL = 'exploration'
RULE = ('One case = one integer type (47 primitive integer spellings incl. _Bool, 4 enums with '
        'int/unsigned/long/unsigned long underlying type) x 1-10 G-INT values for its range x a subset '
        'of 17 store paths (ffi.new initializer / array initializer / struct initializer, p[0]=, '
        'array item, struct field, global variable via in-line dlopen / out-of-line ABI / API lib, call '
        'argument via API wrapper / API libffi pointer / in-line dlopen / out-of-line dlopen, callback '
        'result via ffi.callback of each FFI flavour and extern "Python"); plus a deterministic sweep in '
        'pre(): every type x every value within 3 of a range boundary or in {-1,0,1} x every path '
        '(thorough: also all of [-300,300] for 1-byte types). Oracle = gcc-derived range model + '
        'read-back + C-side read/echo + byte-exact target comparison. An evaluation is one store through '
        'one path; non-trivial = |v - boundary| <= 3 or |v| >= 2**63; distinct by (type, path, value).')
TECHNIQUE = 'property-based testing (Hypothesis) + boundary enumeration against a range model and compiled C'
LEVEL_TEXT = ('Every integer type and every store path is exercised with all near-boundary values '
              '(enumerated) and thousands of random in-range, out-of-range and >64-bit values per run; '
              'a disagreement between any two range checks in the backend / generated wrappers would '
              'show as a violation.  Finds violations, cannot establish absence for all 2**64+ values.')
LEVEL_NOTE = ('Trusted: gcc 12 x86-64 (sizeof, signedness, identity functions, callers of function '
              'pointers), ctypes for reading the fact tables, the range model in this module, Hypothesis.')
ASSUMPTIONS = ['gcc -O0 x86-64 as the reference for sizeof / signedness of every integer type',
               'little-endian two\'s-complement encoding for the byte-exactness comparison',
               'sys.unraisablehook receives the exceptions raised while converting a callback result']
BUDGET = {'quick': 2400, 'thorough': 120000}
TIME = {'quick': 15, 'thorough': 600}
MIN_PER_SHARD = 20

MEM_PATHS = ['new', 'new_array_init', 'field_init', 'ptr_item', 'array_item', 'field']
GLOBAL_PATHS = ['global_inline', 'global_abi', 'global_api']
ARG_PATHS = ['arg_api', 'arg_api_ffi', 'arg_inline', 'arg_abi']
CB_PATHS = ['cb_inline', 'cb_abi', 'cb_api', 'externpy']
ALL_PATHS = MEM_PATHS + GLOBAL_PATHS + ARG_PATHS + CB_PATHS

INT_TYPES = [t.name for t in typezoo.TYPES if t.kind in typezoo.INTEGER_KINDS]

_unraisable = []


def _hook(u):
    _unraisable.append(u.exc_type)


def setup(ctx):
    zoo = typezoo.get()
    sys.unraisablehook = _hook
    return zoo


def _err_choices(lo, hi):
    out = [None, 0, 1, lo, hi]
    for c in (-1, 42, -42, 77):
        if lo <= c <= hi:
            out.append(c)
    return out


def strategy(ctx):
    zoo = ctx.state
    paths = st.one_of(st.lists(st.sampled_from(ALL_PATHS), min_size=1, max_size=6, unique=True),
                      st.just(ALL_PATHS))
    per_type = {}
    for t in INT_TYPES:          # built once: constructing strategies per draw is slow
        lo, hi = zoo.int_range(t)
        per_type[t] = st.fixed_dictionaries({
            't': st.just(t),
            'vals': st.lists(gen.ints_for_range(lo, hi), min_size=1, max_size=10, unique=True),
            'paths': paths,
            'err': st.sampled_from(_err_choices(lo, hi)),
            'flav': st.integers(0, 2)})
    weighted = INT_TYPES + ['_Bool'] * 2 + [t for t in INT_TYPES if t.startswith('enum')]
    return st.sampled_from(weighted).flatmap(lambda t: per_type[t])


def _flavour(zoo, k):
    if k == 0:
        return zoo.inline()
    if k == 1:
        return zoo.abi()
    return zoo.api.ffi, zoo.api.lib


def _enc(v, size, signed):
    return v.to_bytes(size, 'little', signed=signed)


def _classes(zoo, t, v, lo, hi, path, inrange):
    size, signed = zoo.facts[t]
    kind = typezoo.BY_NAME[t].kind
    cl = ['path=' + path, 'in-range' if inrange else 'out-of-range',
          '%s%d' % ('bool' if kind == 'bool' else ('enum-' if kind == 'enum' else '') +
                    ('i' if signed else 'u'), 8 * size)]
    if abs(v) >= 2 ** 64:
        cl.append('wider-than-64-bit')
    elif abs(v) >= 2 ** 63:
        cl.append('magnitude>=2**63')
    if v in (lo, hi):
        cl.append('on-boundary')
    elif v in (lo - 1, hi + 1):
        cl.append('just-outside')
    return cl


def prop(case, ctx):
    zoo = ctx.state
    t = case['t']
    if t not in INT_TYPES:
        raise HarnessError('not an integer type of the zoo: %r' % (t,))
    info = typezoo.BY_NAME[t]
    N = info.ident
    lo, hi = zoo.int_range(t)
    size, signed = zoo.facts[t]
    err = case['err']
    if err is not None and not (lo <= err <= hi):
        raise HarnessError('error value %r outside the range of %s' % (err, t))
    mffi, mlib = _flavour(zoo, case['flav'])
    for v in case['vals']:
        inrange = lo <= v <= hi
        nontriv = min(abs(v - lo), abs(v - hi)) <= 3 or abs(v) >= 2 ** 63
        for path in case['paths']:
            if (path == 'global_inline' and info.kind == 'enum'
                    and ctx.skip_known('inline-dlopen-enum-global')):
                continue
            ctx.note((t, path, v), nontriv, _classes(zoo, t, v, lo, hi, path, inrange))
            if path in MEM_PATHS:
                _mem(ctx, mffi, t, N, v, inrange, size, signed, path, case)
            elif path in GLOBAL_PATHS:
                ffi, lib = _flavour(zoo, GLOBAL_PATHS.index(path))
                _global(ctx, ffi, lib, t, N, v, inrange, size, signed, path)
            elif path in ARG_PATHS:
                _arg(ctx, zoo, t, N, v, inrange, path)
            elif path in CB_PATHS:
                _callback(ctx, zoo, t, N, v, inrange, err, path)
            else:
                raise HarnessError('unknown path %r' % (path,))


def _check_accept(ctx, inrange, t, v, path):
    if not inrange:
        ctx.fail('out-of-range value %d accepted for %s via %s' % (v, t, path), type=t, value=v, path=path)


def _check_reject(ctx, inrange, t, v, path):
    if inrange:
        ctx.fail('in-range value %d rejected (OverflowError) for %s via %s' % (v, t, path),
                 type=t, value=v, path=path)


def _check_read(ctx, got, v, t, path, what='read back'):
    if not isinstance(got, int) or got != v:
        ctx.fail('%s %r after storing %d into %s via %s' % (what, got, v, t, path),
                 type=t, value=v, path=path)


def _mem(ctx, ffi, t, N, v, inrange, size, signed, path, case):
    if path in ('new', 'new_array_init', 'field_init'):
        # stores performed by the initializer of ffi.new: no pre-existing target
        try:
            if path == 'new':
                p = ffi.new(t + ' *', v)
                got, raw, off = p[0], bytes(ffi.buffer(p)), 0
            elif path == 'new_array_init':
                p = ffi.new(t + '[]', [v])
                got, raw, off = p[0], bytes(ffi.buffer(p)), 0
            else:
                p = ffi.new('struct s_%s *' % N, {'f': v})
                got, raw, off = p.f, bytes(ffi.buffer(p)), ffi.offsetof('struct s_%s' % N, 'f')
        except OverflowError:
            _check_reject(ctx, inrange, t, v, path)
            return
        _check_accept(ctx, inrange, t, v, path)
        _check_read(ctx, got, v, t, path)
        if raw[off:off + size] != _enc(v, size, signed) or raw[:off].strip(b'\0'):
            ctx.fail('bytes %s after initialising %s with %d via %s' % (raw.hex(), t, v, path),
                     type=t, value=v, path=path)
        return
    if path == 'ptr_item':
        p = ffi.new(t + ' *')
        off = 0
    elif path == 'array_item':
        p = ffi.new(t + '[3]')
        off = size
    else:
        p = ffi.new('struct s_%s *' % N)
        off = ffi.offsetof('struct s_%s' % N, 'f')
    buf = ffi.buffer(p)
    total = len(buf)
    buf[:] = b'\xa5' * total
    try:
        if path == 'ptr_item':
            p[0] = v
        elif path == 'array_item':
            p[1] = v
        else:
            p.f = v
    except OverflowError:
        _check_reject(ctx, inrange, t, v, path)
        if bytes(buf) != b'\xa5' * total:
            ctx.fail('rejected store of %d into %s via %s changed memory: %s' % (v, t, path, bytes(buf).hex()),
                     type=t, value=v, path=path)
        return
    _check_accept(ctx, inrange, t, v, path)
    got = p[0] if path == 'ptr_item' else p[1] if path == 'array_item' else p.f
    _check_read(ctx, got, v, t, path)
    want = b'\xa5' * off + _enc(v, size, signed) + b'\xa5' * (total - off - size)
    if bytes(buf) != want:
        ctx.fail('memory after storing %d into %s via %s is %s, expected %s'
                 % (v, t, path, bytes(buf).hex(), want.hex()), type=t, value=v, path=path)


def _global(ctx, ffi, lib, t, N, v, inrange, size, signed, path):
    name = 'g_' + N
    buf = ffi.buffer(ffi.addressof(lib, name))
    if len(buf) != size:
        ctx.fail('global %s: buffer of %d bytes, gcc says sizeof is %d' % (name, len(buf), size), type=t)
    buf[:] = b'\xa5' * size
    try:
        setattr(lib, name, v)
    except OverflowError:
        _check_reject(ctx, inrange, t, v, path)
        if bytes(buf) != b'\xa5' * size:
            ctx.fail('rejected store of %d into global %s via %s changed memory: %s'
                     % (v, name, path, bytes(buf).hex()), type=t, value=v, path=path)
        return
    _check_accept(ctx, inrange, t, v, path)
    _check_read(ctx, getattr(lib, name), v, t, path)
    _check_read(ctx, getattr(lib, 'get_' + N)(), v, t, path, what='C code reads')
    if bytes(buf) != _enc(v, size, signed):
        ctx.fail('global %s holds %s after storing %d via %s' % (name, bytes(buf).hex(), v, path),
                 type=t, value=v, path=path)


def _arg(ctx, zoo, t, N, v, inrange, path):
    if path == 'arg_api':
        fn = getattr(zoo.api.lib, 'id_' + N)
    elif path == 'arg_api_ffi':
        fn = zoo.api.ffi.addressof(zoo.api.lib, 'id_' + N)
    elif path == 'arg_inline':
        fn = getattr(zoo.inline()[1], 'id_' + N)
    else:
        fn = getattr(zoo.abi()[1], 'id_' + N)
    try:
        got = fn(v)
    except OverflowError:
        _check_reject(ctx, inrange, t, v, path)
        return
    _check_accept(ctx, inrange, t, v, path)
    _check_read(ctx, got, v, t, path, what='C identity function echoed')


def _callback(ctx, zoo, t, N, v, inrange, err, path):
    sig = '%s(*)(void)' % t
    kw = {} if err is None else {'error': err}
    if path == 'externpy':
        ffi, lib = zoo.api.ffi, zoo.api.lib
        ffi.def_extern(name='xp_' + N, **kw)(lambda: v)
        cb = getattr(lib, 'xp_' + N)
    else:
        ffi, lib = _flavour(zoo, CB_PATHS.index(path))
        cb = ffi.callback(sig, lambda: v, **kw)
    del _unraisable[:]
    got = getattr(lib, 'callcb_' + N)(cb)      # any exception here reached the Python caller
    reported = list(_unraisable)
    del _unraisable[:]
    if inrange:
        _check_read(ctx, got, v, t, path, what='C caller of the callback received')
        if reported:
            ctx.fail('callback returning in-range %d for %s (%s) reported %r'
                     % (v, t, path, [e.__name__ for e in reported]), type=t, value=v, path=path)
        return
    want = 0 if err is None else err
    if not isinstance(got, int) or got != want:
        ctx.fail('callback returned out-of-range %d for %s (%s, error=%r): C caller received %r, expected %r'
                 % (v, t, path, err, got, want), type=t, value=v, path=path, error=err)
    if not reported or any(not (isinstance(e, type) and issubclass(e, OverflowError)) for e in reported):
        ctx.fail('callback returned out-of-range %d for %s (%s): expected an OverflowError to be reported, got %r'
                 % (v, t, path, [getattr(e, '__name__', e) for e in reported]), type=t, value=v, path=path)


def _run(case, ctx):
    try:
        prop(case, ctx)
    except Violation as e:
        e.detail['case'] = case
        raise
    except HarnessError:
        raise
    except Exception as e:
        import traceback
        raise Violation('unexpected %s: %s' % (type(e).__name__, str(e)[:300]),
                        case=case, traceback=traceback.format_exc()[-3000:])


def pre(ctx):
    """Deterministic sweep: every type x every near-boundary value x every path."""
    zoo = ctx.state
    n = 0
    for t in INT_TYPES:
        lo, hi = zoo.int_range(t)
        size, signed = zoo.facts[t]
        vals = sorted(set([lo + d for d in range(-3, 4)] + [hi + d for d in range(-3, 4)] + [-1, 0, 1] +
                          [-2 ** 63 - 1, -2 ** 63, 2 ** 63 - 1, 2 ** 63, 2 ** 64 - 1, 2 ** 64, 2 ** 64 + 1,
                           -2 ** 64, 2 ** 127, -2 ** 127, 10 ** 40]))
        if size == 1 and ctx.tier == 'thorough':
            vals = sorted(set(vals) | set(range(-300, 301)))
        errs = _err_choices(lo, hi)
        for i in range(0, len(vals), 8):
            chunk = vals[i:i + 8]
            err = errs[(i // 8 + 1) % len(errs)]
            _run({'t': t, 'vals': chunk, 'paths': ALL_PATHS, 'err': err, 'flav': (i // 8) % 3}, ctx)
            n += len(chunk) * len(ALL_PATHS)
    ctx.extra['boundary_sweep_stores'] = n
