"""C12 -- API-mode modules faithfully reflect the C source and detect mismatches.

One Hypothesis case = one G-CDEF spec (5..14 declarations) + a list of
per-declaration *treatments* + raw numbers for call arguments / global stores.
One extension module is built per case; each declaration is then checked on
its own (struct/enum/constant checks are lazy and per item in cffi, so one
module can carry many independently mutated items):

 exact   the cdef line equals the C declaration              -> must agree with gcc facts
 mut     single-point mutation of the cdef line, no '...'    -> using the item must raise
         (struct: field int type of another size / swap two fields / drop a field;
          #define, static const, enumerator: value +-k, negated, wrapped mod 2**64)
         iff gcc says the mutated declaration really disagrees with the C one
         (some field's offset or size, or the total size); when it does not
         disagree (swap inside a union, field dropped from tail padding ...)
         the item must work and agree.
 flex    '...' form, possibly with a perturbed cdef            -> compiler's layout/value, silently
         (struct "...;" with fields swapped/dropped, field/global "[...]", "#define X ...",
          "static const T X;", enum "A, B, ...", "A = ...", "typedef int... t;")
 add     (whole-case mode) a field that the C struct lacks    -> the C compile must fail

gcc facts come from `verif_facts()` -- C code appended to the module's own
source (not declared in the cdef, called through ctypes on the same .so): sizeof /
_Alignof / offsetof / field sizes / bitfield masks, constant and enumerator
values, &global, initial values, results of calling every function with the
case's arguments; `verif_rd_<g>` / `verif_wr_<g>` read and write each global from C.
Declarations that mention a mutated item are left out (their cdef differs too).
"""
import ctypes, re, itertools, os
from hypothesis import strategies as st
from vlib.core import HarnessError
from vlib import cc, cdefgen
from vlib.cdefgen import declarator, resolve, INT_RANGE

ID = 'C12'
LEVEL = 'exploration'
TECHNIQUE = 'differential vs gcc facts in the same module + single-point cdef mutation'
RULE = ('Hypothesis-generated G-CDEF specs (5-14 declarations: typedefs, structs/unions with nested '
        'aggregates, arrays, bitfields, function pointers, opaque types, enums, #define / static const '
        'integers, functions, global scalars/arrays/pointers) built as one API-mode module per case '
        'against a C source with the same declarations; each declaration is either exact, carries one '
        'single-point cdef mutation, or uses a "..." form with a perturbed cdef.  An evaluation is one '
        'declared item checked (layout/value/call/global against gcc-computed facts from the same '
        'translation unit, or raise/no-raise for a mutated item).  Non-trivial = a mutated item whose '
        'mutation really disagrees with the C source per gcc, a "..." item whose nominal cdef '
        'layout/value differs from the compiler\'s, or an exact item of a module that exposes >=1 '
        'function, >=1 global and >=1 struct; distinct by (declaration, treatment).')
LEVEL_TEXT = ('Random search: no disagreement between API-mode modules and gcc facts, no undetected checked '
              'mismatch and no spurious error was found in the sampled (cdef, C source, mutation) space; '
              'not exhaustive.')
LEVEL_NOTE = ('Trusted: gcc -O0 x86-64 as the reference for layouts/values/call results; facts are computed by '
              'C code in the same translation unit as the module (so "the compiler\'s layout" is literally the '
              'one the wrapped code uses); ctypes for calling the fact/reader/writer functions.')
ASSUMPTIONS = ['gcc -O0 -w x86-64 is "the compiler"; a gcc rejection of cdef-independent helper code is a harness error',
               'bitfield width/position mutations are not generated: C has no offsetof/sizeof for bitfields, '
               'cffi checks them only through the total size',
               'with "...;" only offsets, total size and alignment are flexible (doc/source/cdef.rst); field '
               'types of another size are never generated for flexible structs',
               'declarations that mention a mutated item (by value or as array length) are not judged',
               'generated functions are pure formulas of their arguments']
BUDGET = {'quick': 128, 'thorough': 6000}
TIME = {'quick': 20, 'thorough': 840}
MIN_PER_SHARD = 8

FEATURES = frozenset(cdefgen.DEFAULT_FEATURES | {'const_novalue'})
SIZEOF = {'char': 1, 'signed char': 1, 'unsigned char': 1, 'short': 2, 'unsigned short': 2, 'int': 4,
          'unsigned int': 4, 'long': 8, 'unsigned long': 8, 'long long': 8, 'unsigned long long': 8,
          'int8_t': 1, 'uint8_t': 1, 'int16_t': 2, 'uint16_t': 2, 'int32_t': 4, 'uint32_t': 4,
          'int64_t': 8, 'uint64_t': 8, 'size_t': 8, 'ssize_t': 8, 'intptr_t': 8, 'uintptr_t': 8,
          '_Bool': 1, 'wchar_t': 4, 'float': 4, 'double': 8}
MUT_PRIMS = ['signed char', 'unsigned char', 'short', 'unsigned short', 'int', 'unsigned int', 'long',
             'unsigned long long', 'int8_t', 'uint16_t', 'int32_t', 'uint64_t', 'size_t']
VALUE_DELTAS = [1, -1, 2 ** 32, -2 ** 32, 'neg', 'wrap', 2 ** 31, 7, 2 ** 33 + 1, -2 ** 31]
KNOWN_ENUM = 'enumerator-value-unchecked'

_modcount = itertools.count()


# ------------------------------------------------------------------ strategy

def strategy(ctx):
    small = st.integers(0, 2 ** 16)
    raw = st.integers(0, 2 ** 64 - 1)

    @st.composite
    def case(draw):
        spec = draw(cdefgen.specs(features=FEATURES, min_decls=5, max_decls=14))
        mode = draw(st.sampled_from(['agree', 'mixed', 'mixed', 'mixed', 'mixed', 'mixed', 'mixed',
                                     'mixed', 'mixed', 'add']))
        treat = []
        if mode == 'mixed':
            for i in range(len(spec['decls'])):
                c = draw(st.integers(0, 9))
                if c >= 4:
                    treat.append([i, 'mut' if c <= 6 else 'flex', draw(small), draw(small), draw(small)])
        elif mode == 'add':
            treat.append([draw(small), 'add', draw(small), draw(small), draw(small)])
        return {'spec': spec, 'mode': mode, 'treat': treat,
                'raw': draw(st.lists(raw, min_size=8, max_size=8)),
                # cdef(..., packed=True) against a C source compiled under #pragma pack(1); applied
                # only when no struct of the spec has a bitfield
                'packed': draw(st.integers(0, 2)) == 0}
    return case()


# ------------------------------------------------------------------ small model helpers

def _mix(case, a, b):
    r = case['raw']
    return (r[(a * 5 + b) % len(r)] * 6364136223846793005 + a * 1442695040888963407 + b * 97 + 1) % 2 ** 64


def _prim_of(t, decls):
    """resolved prim name, or 'ptr', 'enum', None"""
    r = resolve(t, decls)
    if r[0] == 'prim':
        return r[1]
    if r[0] in ('ptr', 'fptr'):
        return 'ptr'
    if r[0] == 'enum':
        return 'enum'
    return None


def _pick(h, lo, hi):
    if h % 8 == 0:
        return lo
    if h % 8 == 1:
        return hi
    if h % 8 == 2:
        return min(hi, max(lo, (h >> 3) % 3))
    return lo + (h >> 3) % (hi - lo + 1)


def _arg_value(h, p):
    """abstract argument value for resolved prim p: an int, or a float"""
    if p == 'ptr':
        return 0 if h % 3 == 0 else 0x1000 * ((h >> 2) % 7 + 1)
    if p == 'enum':
        return (h >> 1) % 3
    if p in ('float', 'double'):
        return [0.0, 1.0, 0.25, 2.5, -3.0][h % 5]
    if p == 'wchar_t':
        return _pick(h, 0, 0xD7FF)
    lo, hi = INT_RANGE[p]
    return _pick(h, lo, hi)


def _c_literal(v, t, p):
    ctype = declarator(t, '')
    if p == 'ptr':
        return '((%s)(uintptr_t)%dULL)' % (ctype, v)
    if p in ('float', 'double'):
        return '((%s)%r)' % (ctype, v)
    return '((%s)%s)' % (ctype, cdefgen._c_int(v))


def _to_py(ffi, v, t, p):
    if p == 'ptr':
        return ffi.cast(declarator(t, ''), v)
    if p == 'char':
        return bytes([v])
    if p == 'wchar_t':
        return chr(v)
    return v


def _from_py(ffi, x, p):
    """python-level result -> comparable number"""
    if p == 'ptr':
        return int(ffi.cast('uintptr_t', x))
    if p == 'char':
        if not (isinstance(x, bytes) and len(x) == 1):
            return ('bad', repr(x))
        return x[0]
    if p == 'wchar_t':
        if not (isinstance(x, str) and len(x) == 1):
            return ('bad', repr(x))
        return ord(x)
    if p in ('float', 'double'):
        return float(x)
    if p == '_Bool':
        return int(x)
    if type(x) is not int:
        return ('bad', repr(x))
    return x


def _is_signed(p):
    return p == 'enum' or (p in INT_RANGE and INT_RANGE[p][0] < 0)


def _fmt(expr, p):
    """(format, C expression) printing a value of resolved prim p"""
    if p == 'ptr':
        return '%llu', '(unsigned long long)(uintptr_t)(%s)' % expr
    if p in ('float', 'double'):
        return '%.17g', '(double)(%s)' % expr
    if p == 'char':
        return '%llu', '(unsigned long long)(unsigned char)(%s)' % expr
    if p == 'wchar_t' or _is_signed(p):
        return '%lld', '(long long)(%s)' % expr
    return '%llu', '(unsigned long long)(%s)' % expr


def _enum_values(d):
    out, nxt = [], 0
    for name, v in d['items']:
        if v is not None:
            nxt = v
        out.append(nxt)
        nxt += 1
    return out


def _defined_names(d):
    k = d['k']
    if k == 'struct':
        return [d['tag']] + ([d['tdname']] if d['tdname'] else [])
    if k == 'enum':
        return [d['tag']] + [n for n, _ in d['items']]
    if k == 'opaque':
        return [d['tag']]
    return [d['name']]


def _line(d):
    return cdefgen.decl_lines({'decls': [d]})[0][0]


def _int_field(ft):
    while ft[0] == 'arr':
        ft = ft[2]
    return ft[0] == 'prim' and ft[1] in INT_RANGE


def _set_base(ft, new):
    if ft[0] == 'arr':
        return ['arr', ft[1], _set_base(ft[2], new)]
    return ['prim', new]


def _base(ft):
    while ft[0] == 'arr':
        ft = ft[2]
    return ft[1]


# ------------------------------------------------------------------ treatments

def plan(case):
    """-> list of items, one per declaration:
    {'d': original decl, 'how': 'exact'|'mut'|'flex'|'add', 'what': label,
     'cdef': cdef line, 'md': mutated decl (struct mut/flex/add), ...}"""
    decls = case['spec']['decls']
    treat = {}
    if case['mode'] == 'add':
        structs = [i for i, d in enumerate(decls) if d['k'] == 'struct']
        if structs and case['treat']:
            t = case['treat'][0]
            treat[structs[t[0] % len(structs)]] = t
    else:
        for t in case['treat']:
            if 0 <= t[0] < len(decls):
                treat.setdefault(t[0], t)
    items = []
    for i, d in enumerate(decls):
        it = {'i': i, 'd': d, 'how': 'exact', 'what': 'exact', 'cdef': None, 'md': None}
        t = treat.get(i)
        if t is not None:
            _apply(it, t[1], t[2], t[3], t[4])
        if it['cdef'] is None:
            it['cdef'] = _line(d)
        if d['k'] == 'const' and not d.get('withval', True) and it['how'] == 'exact':
            it.update(how='flex', what='const-novalue')
        items.append(it)
    _avoid_partial_bitfield_structs(items, decls)
    # a mutated constant that serves as an array length elsewhere: keep it a valid length (value + 1);
    # gcc may still reject the dependent declaration's checking code ("the C compile fails")
    for it in items:
        if it['how'] == 'mut' and it['d']['k'] == 'define':
            n = it['d']['name']
            if any(o is not it and n in re.findall(r'\w+', o['cdef']) for o in items):
                md = dict(it['d'], value=it['d']['value'] + 1, lit=str(it['d']['value'] + 1))
                it.update(md=md, cdef=_line(md), arrfield=True)
    # '#define X ...' has no value at cdef time: it cannot serve as an array length
    for it in items:
        if it['how'] == 'flex' and it['d']['k'] == 'define':
            n = it['d']['name']
            if any(o is not it and n in re.findall(r'\w+', o['cdef']) for o in items):
                it.update(how='exact', what='exact', cdef=_line(it['d']))
    return items


def _avoid_partial_bitfield_structs(items, decls):
    """cparser: "using both bitfields and '...;'" is NotImplementedError for a
    'struct' (not for a union); a struct also becomes partial by directly
    embedding a partial struct.  Revert the flexible treatments that would
    lead there."""
    while True:
        partial = {}          # struct tag -> set of root item indices that made it partial
        for it in items:
            d = it['d']
            if d['k'] == 'struct' and it['how'] == 'flex':
                partial[d['tag']] = set([it['i']])
        conflict = None
        for it in items:      # declaration order: embedded structs come first
            d = it['d']
            if d['k'] != 'struct':
                continue
            roots = set(partial.get(d['tag'], ()))
            for fn, ft, bits in (it['md'] or d)['fields']:
                r = resolve(ft, decls) if ft[0] == 'td' else ft
                if r[0] == 'agg' and r[1] == 'struct' and r[2] in partial:
                    roots |= partial[r[2]]
            if roots:
                if d['kw'] == 'struct' and any(b for _, _, b in d['fields']):
                    conflict = roots
                    break
                partial[d['tag']] = roots
        if conflict is None:
            return
        for it in items:
            if it['i'] in conflict:
                it.update(how='exact', what='exact', md=None, cdef=_line(it['d']))


def _apply(it, how, a, b, c):
    d = it['d']
    k = d['k']
    if how == 'add':
        md = dict(d)
        f = list(d['fields'])
        f.insert(a % (len(f) + 1), ['mx', ['prim', MUT_PRIMS[b % len(MUT_PRIMS)]], None])
        md['fields'] = f
        it.update(how='add', what='add-field', md=md, cdef=_line(md))
        return
    if k == 'struct' and how == 'mut':
        f = [list(x) for x in d['fields']]
        choice = a % 3
        cands = [j for j, (fn, ft, bits) in enumerate(f) if bits is None and _int_field(ft)]
        if choice == 0 and not cands:
            choice = 1
        if choice in (1, 2) and len(f) < 2:
            choice = 0
            if not cands:
                return
        if choice == 0:
            j = cands[b % len(cands)]
            old = SIZEOF[_base(f[j][1])]
            news = [p for p in MUT_PRIMS if SIZEOF[p] != old]
            f[j][1] = _set_base(f[j][1], news[c % len(news)])
            what = 'field-type-size'
            it['arrfield'] = d['fields'][j][1][0] == 'arr'
        elif choice == 1:
            j = b % (len(f) - 1)
            f[j], f[j + 1] = f[j + 1], f[j]
            what = 'field-swap'
        else:
            del f[b % len(f)]
            what = 'field-drop'
        md = dict(d)
        md['fields'] = f
        it.update(how='mut', what=what, md=md, cdef=_line(md))
    elif k == 'struct' and how == 'flex':
        f = [list(x) for x in d['fields']]
        has_bf = any(bits for _, _, bits in f)
        choice = 0 if has_bf else a % 4
        dots = True
        what = 'struct-dots'
        if choice == 1 and len(f) >= 2:
            j = b % (len(f) - 1)
            f[j], f[j + 1] = f[j + 1], f[j]
            what = 'struct-dots-swap'
        elif choice == 2 and len(f) >= 2:
            del f[b % len(f)]
            what = 'struct-dots-drop'
        elif choice == 3:
            arrs = [j for j, (fn, ft, bits) in enumerate(f) if ft[0] == 'arr']
            if arrs:
                j = arrs[b % len(arrs)]
                f[j][1] = ['arr', '...', f[j][1][2]]
                dots = bool(c % 2)
                what = 'field-arrlen-dots' + ('+dots' if dots else '')
        md = dict(d)
        md['fields'] = f
        line = _line(md)
        if dots:
            head, tail = line.rsplit('}', 1)
            line = head + '...; }' + tail
        it.update(how='flex', what=what, md=md, cdef=line)
    elif k == 'enum' and how == 'mut':
        vals = _enum_values(d)
        j = b % len(vals)
        new = _mutate_value(vals[j], c)
        items = [list(x) for x in d['items']]
        items[j][1] = new
        md = dict(d)
        md['items'] = items
        newvals = _enum_values(md)
        it.update(how='mut', what='enumerator-value', md=md, cdef=_line(md),
                  changed=[n for (n, _), v0, v1 in zip(items, vals, newvals) if v0 != v1])
    elif k == 'enum' and how == 'flex':
        names = [n for n, _ in d['items']]
        if a % 2 == 0:
            if len(names) >= 2 and b % 2:
                del names[c % len(names)]
            if len(names) >= 2 and b % 4 >= 2:
                names = names[1:] + names[:1]
            line = 'enum %s { %s, ... };' % (d['tag'], ', '.join(names))
            what = 'enum-trailing-dots'
        else:
            parts = []
            for j, (n, v) in enumerate(d['items']):
                parts.append(n + ' = ...' if (v is not None or (b >> j) & 1 or j == 0) else n)
            line = 'enum %s { %s };' % (d['tag'], ', '.join(parts))
            what = 'enum-eq-dots'
        it.update(how='flex', what=what, cdef=line, names=names)
    elif k == 'define' and how == 'mut':
        new = _mutate_value(d['value'], a)
        md = dict(d)
        md['value'] = new
        md['lit'] = str(new)
        it.update(how='mut', what='define-value', md=md, cdef=_line(md))
    elif k == 'define' and how == 'flex':
        it.update(how='flex', what='define-dots', cdef='#define %s ...' % d['name'])
    elif k == 'const' and how == 'mut' and d.get('withval', True):
        md = dict(d)
        md['value'] = _mutate_value(d['value'], a)
        it.update(how='mut', what='const-value', md=md, cdef=_line(md))
    elif k == 'const' and how == 'flex':
        md = dict(d)
        md['withval'] = False
        it.update(how='flex', what='const-novalue', cdef=_line(md))
    elif k == 'typedef' and how == 'flex' and d['type'][0] == 'prim':
        p = d['type'][1]
        if p in ('float', 'double'):
            sp = ['float', 'double'][a % 2]
        elif p in INT_RANGE and p not in ('char', '_Bool', 'wchar_t'):
            sp = ['int', 'unsigned long', 'short', 'signed char', 'long long'][a % 5]
        else:
            return
        it.update(how='flex', what='typedef-%s-dots' % ('float' if p in ('float', 'double') else 'int'),
                  cdef='typedef %s... %s;' % (sp, d['name']))
    elif k == 'gvar' and how == 'flex' and d['type'][0] == 'arr':
        md = dict(d)
        md['type'] = ['arr', '...', d['type'][2]]
        it.update(how='flex', what='global-arrlen-dots', cdef=_line(md))


def _mutate_value(v, sel):
    for off in range(len(VALUE_DELTAS)):
        k = VALUE_DELTAS[(sel + off) % len(VALUE_DELTAS)]
        if k == 'neg':
            new = -v
        elif k == 'wrap':
            new = v + 2 ** 64 if v < 0 else v - 2 ** 64
        else:
            new = v + k
        if new != v and -2 ** 63 <= new <= 2 ** 64 - 1:
            return new
    raise HarnessError('no mutation for %r' % v)


def taint(items):
    """indices of items whose cdef mentions a name defined by a mutated item
    (other than themselves), transitively: their own cdef line is then not a
    faithful/single-point-mutated copy of the C declaration any more."""
    bad = {}
    for it in items:
        if it['how'] in ('mut', 'add'):
            for n in _defined_names(it['d']):
                bad[n] = it['i']
    tainted = set()
    changed = True
    while changed:
        changed = False
        for it in items:
            if it['i'] in tainted:
                continue
            toks = set(re.findall(r'\w+', it['cdef']))
            if any(n in toks and owner != it['i'] for n, owner in bad.items()):
                tainted.add(it['i'])
                for n in _defined_names(it['d']):
                    bad[n] = -1
                changed = True
    return tainted


# ------------------------------------------------------------------ C side

def _struct_facts(out, kw, tag, fields, label):
    T = '%s %s' % (kw, tag)
    out.append('P("S.%s %%zu %%zu\\n", sizeof(%s), _Alignof(%s));' % (label, T, T))
    for fn, ft, bits in fields:
        if bits is None:
            out.append('P("F.%s.%s %%zu %%zu\\n", offsetof(%s, %s), sizeof(((%s *)0)->%s));'
                       % (label, fn, T, fn, T, fn))
        else:
            out.append('{ %s x; size_t i; memset(&x, 0, sizeof x); x.%s = -1; P("B.%s.%s "); '
                       'for (i = 0; i < sizeof x; i++) P("%%02x", ((unsigned char *)&x)[i]); P("\\n"); }'
                       % (T, fn, label, fn))


def _int_fact(out, name):
    out.append('if ((%s) <= 0) P("I.%s %%lld\\n", (long long)(%s)); else P("I.%s %%llu\\n", '
               '(unsigned long long)(%s));' % (name, name, name, name, name))


# globals whose C "variable" is a dynamic macro (documented in cdef.rst: '#define myvar (*fetchme())'): what
# the name designates changes with c12_dcur, so every access has to ask the C side again
DYN_CDEF = """
struct c12_dpt { int x, y; };
extern int c12_dcur;
extern struct c12_dpt c12_dcurpt;
extern int c12_dcurarr[3];
extern int c12_dcurint;
"""
DYN_SRC = """
struct c12_dpt { int x, y; };
int c12_dcur = 0;
static struct c12_dpt c12_dpts[2] = {{1, 2}, {30, 40}};
static int c12_darrs[2][3] = {{1, 2, 3}, {10, 20, 30}};
static int c12_dints[2] = {7, 70};
#define c12_dcurpt (c12_dpts[c12_dcur])
#define c12_dcurarr (c12_darrs[c12_dcur])
#define c12_dcurint (c12_dints[c12_dcur])
"""


def check_dynamic_globals(env):
    lib, ffi, ctx = env['lib'], env['ffi'], env['ctx']
    want = [((1, 2), [1, 2, 3], 7), ((30, 40), [10, 20, 30], 70)]

    def see():
        pt = lib.c12_dcurpt
        ap = ffi.addressof(lib, 'c12_dcurpt')
        return ((pt.x, pt.y), list(lib.c12_dcurarr), lib.c12_dcurint, (ap.x, ap.y),
                list(ffi.addressof(lib, 'c12_dcurarr')[0]))
    for cur in (0, 1, 0, 1):
        lib.c12_dcur = cur
        got = see()
        exp = want[cur] + (want[cur][0], want[cur][1])
        if got != exp:
            ctx.fail('macro globals with c12_dcur = %d read %r, the C objects hold %r' % (cur, got, exp),
                     cdef=DYN_CDEF, source=DYN_SRC)
    lib.c12_dcur = 1
    lib.c12_dcurarr[1] = 99
    lib.c12_dcurpt.y = 77
    lib.c12_dcurint = 5
    lib.c12_dcur = 0
    if see()[:3] != want[0]:
        ctx.fail('writes through macro globals with c12_dcur = 1 changed the objects of c12_dcur = 0: %r' % (see(),),
                 cdef=DYN_CDEF, source=DYN_SRC)
    lib.c12_dcur = 1
    if see()[:3] != ((30, 77), [10, 99, 30], 5):
        ctx.fail('writes through macro globals with c12_dcur = 1 are not read back: %r' % (see(),),
                 cdef=DYN_CDEF, source=DYN_SRC)
    ctx.note(['dynamic-macro-globals', env['cdef'][:200]], True, ['dynamic-macro-globals'])


def build_sources(case, items):
    spec = case['spec']
    decls = spec['decls']
    csrc = cdefgen.c_source(spec) + DYN_SRC
    body = []
    extra = []
    calls = {}
    for it in items:
        d = it['d']
        k = d['k']
        if k == 'struct':
            _struct_facts(body, d['kw'], d['tag'], d['fields'], d['tag'])
            if it['how'] in ('mut', 'flex') and it['md'] is not None:
                md = dict(it['md'])
                md['tag'] = 'verif_mut_' + d['tag']
                md['tdname'] = None
                md['fields'] = [[fn, (['arr', d['fields'][[x[0] for x in d['fields']].index(fn)][1][1], ft[2]]
                                      if ft[0] == 'arr' and ft[1] == '...' else ft), bits]
                                for fn, ft, bits in md['fields']]
                extra.append(_line(md))
                _struct_facts(body, d['kw'], md['tag'], md['fields'], md['tag'])
        elif k == 'enum':
            T = 'enum %s' % d['tag']
            body.append('P("E.%s %%zu %%d\\n", sizeof(%s), (int)(((%s)-1) < 0));' % (d['tag'], T, T))
            for n, _ in d['items']:
                _int_fact(body, n)
        elif k in ('define', 'const'):
            _int_fact(body, d['name'])
        elif k == 'typedef':
            p = _prim_of(d['type'], decls)
            sg = ('(int)(((%s)-1) < 0)' % d['name']
                  if ((p in INT_RANGE and p not in ('char', 'wchar_t')) or p == 'enum') else '-1')
            body.append('P("T.%s %%zu %%d\\n", sizeof(%s), %s);' % (d['name'], d['name'], sg))
        elif k == 'fptd':
            body.append('P("T.%s %%zu -1\\n", sizeof(%s));' % (d['name'], d['name']))
        elif k == 'func':
            vals = []
            for j, a in enumerate(d['args']):
                p = _prim_of(a, decls)
                vals.append(_arg_value(_mix(case, it['i'], j), p))
            calls[d['name']] = vals
            lits = ', '.join(_c_literal(v, a, _prim_of(a, decls)) for v, a in zip(vals, d['args']))
            pr = _prim_of(d['ret'], decls)
            if pr == 'void':
                body.append('%s(%s); P("C.%s void\\n");' % (d['name'], lits, d['name']))
            else:
                fmt, ex = _fmt('%s(%s)' % (d['name'], lits), pr)
                body.append('P("C.%s %s\\n", %s);' % (d['name'], fmt, ex))
        elif k == 'gvar':
            n = d['name']
            t = d['type']
            body.append('P("A.%s %%llu\\n", (unsigned long long)(uintptr_t)&%s);' % (n, n))
            if t[0] == 'arr':
                pe = _prim_of(t[2], decls)
                fmt, ex = _fmt('%s[i]' % n, pe)
                body.append('{ size_t i; P("N.%s %%zu\\n", sizeof(%s)/sizeof(%s[0])); P("V.%s"); '
                            'for (i = 0; i < sizeof(%s)/sizeof(%s[0]); i++) P(" %s", %s); P("\\n"); }'
                            % (n, n, n, n, n, n, fmt, ex))
                el = declarator(t[2], '')
                extra.append('long long verif_rd_%s(int i) { return (long long)%s[i]; }' % (n, n))
                extra.append('void verif_wr_%s(int i, long long v) { %s[i] = (%s)v; }' % (n, n, el))
            else:
                p = _prim_of(t, decls)
                fmt, ex = _fmt(n, p)
                body.append('P("V.%s %s\\n", %s);' % (n, fmt, ex))
                ct = declarator(t, '')
                if p == 'ptr':
                    extra.append('long long verif_rd_%s(int i) { return (long long)(uintptr_t)%s; }' % (n, n))
                    extra.append('void verif_wr_%s(int i, long long v) { %s = (%s)(uintptr_t)v; }' % (n, n, ct))
                else:
                    extra.append('long long verif_rd_%s(int i) { return (long long)%s; }' % (n, n))
                    extra.append('void verif_wr_%s(int i, long long v) { %s = (%s)v; }' % (n, n, ct))
    helper = ('\n#include <stdio.h>\n#include <string.h>\n' + '\n'.join(extra) +
              '\nstatic char verif_buf[1 << 17]; static char *verif_p;\n'
              '#define P(...) (verif_p += sprintf(verif_p, __VA_ARGS__))\n'
              'const char *verif_facts(void) {\n  verif_p = verif_buf; verif_buf[0] = 0;\n  '
              + '\n  '.join(body) + '\n  return verif_buf;\n}\n')
    cdef = '\n'.join(it['cdef'] for it in items) + '\n' + DYN_CDEF
    if use_packed(case):
        # every struct/union of the C source (and the alias structs used to judge mutations) is laid
        # out packed; system headers stay outside the pragma regions
        lines = csrc.split('\n')
        n = 0
        while n < len(lines) and (lines[n].startswith('#include') or not lines[n].strip()):
            n += 1
        csrc = '\n'.join(lines[:n]) + '\n#pragma pack(push, 1)\n' + '\n'.join(lines[n:]) + '\n#pragma pack(pop)\n'
        helper = helper.replace('\n#include <stdio.h>\n#include <string.h>\n',
                                '\n#include <stdio.h>\n#include <string.h>\n#pragma pack(push, 1)\n', 1)
        helper = helper.replace('\nstatic char verif_buf[1 << 17];', '\n#pragma pack(pop)\nstatic char verif_buf[1 << 17];', 1)
    return cdef, csrc + helper, calls


def use_packed(case):
    if not case.get('packed'):
        return False
    def has_bf(fields):
        return any(b is not None or (t and t[0] == 'anon' and has_bf(t[2])) for _n, t, b in fields)
    return not any(d['k'] == 'struct' and has_bf(d['fields']) for d in case['spec']['decls'])


def parse_facts(text):
    facts = {}
    for line in text.splitlines():
        parts = line.split()
        if parts:
            facts[parts[0]] = parts[1:]
    return facts


# ------------------------------------------------------------------ the property

def normalise(case):
    """G-CDEF may leave an implicit enumerator right after INT_MAX, which gcc
    rejects ("overflow in enumeration values"): make that follower explicit."""
    decls = []
    for d in case['spec']['decls']:
        if d['k'] == 'enum':
            items, prev = [], -1
            for n, v in d['items']:
                if v is None and prev == 2 ** 31 - 1:
                    v = 2 ** 31
                prev = prev + 1 if v is None else v
                items.append([n, v])
            d = dict(d, items=items)
        decls.append(d)
    out = dict(case)
    out['spec'] = dict(case['spec'], decls=decls)
    return out


def prop(case, ctx):
    import cffi
    case = normalise(case)
    items = plan(case)
    decls = case['spec']['decls']
    cdef, source, calls = build_sources(case, items)
    modname = 'c12m_%d_%d' % (os.getpid(), next(_modcount))
    ffi = cffi.FFI()
    try:
        if use_packed(case):
            ctx.event('cdef(packed=True)')
            ffi.cdef(cdef, packed=True)
        else:
            ffi.cdef(cdef)
    except Exception as e:
        ctx.fail('cdef() rejected a generated declaration list: %s: %s' % (type(e).__name__, e), cdef=cdef)
    ffi.set_source(modname, source)
    must_fail = any(it['how'] == 'add' for it in items)
    may_fail = must_fail or any(it.get('arrfield') for it in items)
    try:
        mod = cc.build_api_module(ffi, modname, ctx.tmp)
    except cc.CompileFailed as e:
        if may_fail:
            ctx.note(('compile-fail', cdef), must_fail, ['mut:add-field -> compile error' if must_fail
                                                        else 'mut:array-field-type -> compile error'])
            return
        _diagnose(source, ctx, cdef)
        ctx.fail('module for an agreeing/lazily-checked cdef does not compile', cdef=cdef, source=source,
                 gcc=str(e)[-1500:])
    except cffi.VerificationError as e:
        ctx.fail('emit_c_code raised VerificationError: %s' % e, cdef=cdef)
    if must_fail:
        ctx.fail('cdef declares a field the C struct does not have, yet the module compiled',
                 cdef=cdef, source=source)
    cdll = ctypes.CDLL(mod.__file__)
    cdll.verif_facts.restype = ctypes.c_char_p
    facts = parse_facts(cdll.verif_facts().decode('latin-1'))
    mffi, lib = mod.ffi, mod.lib
    tainted = taint(items)
    kinds = set(d['k'] for d in decls)
    rich = 'func' in kinds and 'gvar' in kinds and 'struct' in kinds
    env = {'items': items, 'case': case, 'decls': decls, 'facts': facts, 'ffi': mffi, 'lib': lib, 'cdll': cdll,
           'ctx': ctx, 'cdef': cdef, 'rich': rich, 'calls': calls, 'errors': (mffi.error, cffi.VerificationError)}
    present = set(dir(lib))
    check_dynamic_globals(env)
    for it in items:
        d = it['d']
        if it['i'] in tainted:
            ctx.event('left-out: mentions a mutated item')
            continue
        CHECK[d['k']](it, env)
        if d['k'] in ('func', 'gvar', 'define', 'const') and d['name'] not in present:
            ctx.fail('%s %s missing from dir(lib)' % (d['k'], d['name']), cdef=cdef)
        if d['k'] == 'enum':
            for n in it.get('names') or [x for x, _ in d['items']]:
                if n not in present:
                    ctx.fail('enumerator %s missing from dir(lib)' % n, cdef=cdef)


def _diagnose(source, ctx, cdef):
    """the module did not compile: if the plain C source + fact helpers do not
    compile either, the generator is at fault (harness error), not cffi"""
    import subprocess
    c = os.path.join(ctx.tmp, 'diag_%d_%d.c' % (os.getpid(), next(_modcount)))
    with open(c, 'w') as f:
        f.write(source)
    r = subprocess.run(['gcc', '-O0', '-w', '-fsyntax-only', c], capture_output=True, text=True)
    os.unlink(c)
    if r.returncode != 0:
        raise HarnessError('gcc rejects the generated C source itself: %s\n--- cdef ---\n%s'
                           % (r.stderr[:1200], cdef[:1500]))


def _note(env, it, nontrivial, extra_cls=()):
    cls = ['%s:%s' % (it['how'], it['what']) if it['how'] != 'exact' else 'exact:' + it['d']['k']]
    cls += list(extra_cls)
    env['ctx'].note((it['d'], it['how'], it['cdef']), nontrivial, cls)


def _fact(env, key):
    try:
        return env['facts'][key]
    except KeyError:
        raise HarnessError('fact %s missing' % key)


def _must_raise(env, it, label, thunks):
    """every use must raise ffi.error/VerificationError, on each attempt"""
    for name, th in thunks:
        for attempt in (1, 2):
            try:
                got = th()
            except env['errors']:
                continue
            env['ctx'].fail('%s: cdef disagrees with the C source, but %s (attempt %d) did not raise; it gave %r'
                            % (label, name, attempt, got), cdef_line=it['cdef'],
                            c_decl=_line(it['d']), cdef=env['cdef'])


def _embeds_partial(fields, env, seen=None):
    """does a struct with these fields contain, by value (directly, through arrays, typedefs or
    nested complete structs), a struct/union that this case declares with '...;' ?"""
    seen = seen or set()
    partial_tags = set(x['d']['tag'] for x in env['items']
                       if x['d']['k'] == 'struct' and x['how'] == 'flex' and x['what'].startswith('struct-dots'))
    by_tag = dict((x['d']['tag'], x['d']) for x in env['items'] if x['d']['k'] == 'struct')
    spec = env['case']['spec']

    def walk(t):
        while t[0] == 'arr':
            t = t[2]
        if t[0] == 'td':
            try:
                t = cdefgen.resolve(t, spec)
            except KeyError:
                return False
            return walk(t)
        if t[0] == 'agg':
            tag = t[2]
            if tag in partial_tags:
                return True
            if tag in by_tag and tag not in seen:
                seen.add(tag)
                return any(b is None and walk(ft) for _fn, ft, b in by_tag[tag]['fields'])
        return False
    return any(bits is None and walk(ft) for _fn, ft, bits in fields)


def check_struct(it, env):
    d, ctx, ffi, facts = it['d'], env['ctx'], env['ffi'], env['facts']
    T = '%s %s' % (d['kw'], d['tag'])
    csize, calign = [int(x) for x in _fact(env, 'S.' + d['tag'])]
    cf = {}
    for fn, ft, bits in d['fields']:
        if bits is None:
            cf[fn] = tuple(int(x) for x in _fact(env, 'F.%s.%s' % (d['tag'], fn)))
    how = it['how']
    fields = d['fields'] if it['md'] is None else it['md']['fields']
    check_masks = how == 'exact' or it['what'] == 'struct-dots'
    nominal_differs = False
    if it['md'] is not None:
        mt = 'verif_mut_' + d['tag']
        msize, malign = [int(x) for x in _fact(env, 'S.' + mt)]
        mf = {}
        for fn, ft, bits in fields:
            if bits is None:
                mf[fn] = tuple(int(x) for x in _fact(env, 'F.%s.%s' % (mt, fn)))
        disagree = msize != csize or any(mf[fn] != cf[fn] for fn in mf)
        nominal_differs = disagree or malign != calign
        if how == 'mut':
            if disagree and _embeds_partial(fields, env) and ctx.skip_known('struct-embedding-partial-struct-unchecked'):
                return
            if disagree:
                _note(env, it, True, ['mut:struct really disagrees'])
                first = fields[0][0]
                _must_raise(env, it, T, [
                    ('ffi.sizeof', lambda: ffi.sizeof(T)),
                    ('ffi.new', lambda: ffi.new(T + ' *')),
                    ('ffi.offsetof', lambda: ffi.offsetof(T, first)),
                    ('ffi.typeof().fields', lambda: ffi.typeof(T).fields),
                    ('ffi.alignof', lambda: ffi.alignof(T)),
                    ('ffi.addressof(ptr, field)', lambda: ffi.addressof(ffi.cast(T + ' *', 4096), first)),
                    ('field read', lambda: getattr(ffi.cast(T + ' *', 4096), first)),
                ])
                # operations that need only the total size may work, but then with the compiler's size
                try:
                    asize = ffi.sizeof(ffi.new(T + '[2]'))
                except env['errors']:
                    asize = 2 * csize
                if asize != 2 * csize:
                    ctx.fail('%s[2] allocated with %d bytes, the compiler needs %d' % (T, asize, 2 * csize),
                             cdef_line=it['cdef'], c_decl=_line(d))
                return
            if malign != calign:
                ctx.event('mut:struct differs in alignment only (not judged)')
                return
            ctx.event('mut:struct mutation without layout disagreement')
    _note(env, it, (how == 'exact' and env['rich']) or (how == 'flex' and nominal_differs) or how == 'mut',
          ['struct has bitfields'] if any(b for _, _, b in d['fields']) else [])
    # must work, silently, with the compiler's layout
    try:
        ct = ffi.typeof(T)
        if d['tdname']:
            if ffi.typeof(d['tdname']) is not ct:
                ctx.fail('typedef %s is not %s' % (d['tdname'], T), cdef=env['cdef'])
        size, align = ffi.sizeof(T), ffi.alignof(T)
        fl = dict(ct.fields)
        p = ffi.new(T + ' *')
    except Exception as e:
        ctx.fail('%s (%s): %s: %s' % (T, it['what'], type(e).__name__, e), cdef_line=it['cdef'],
                 c_decl=_line(d), cdef=env['cdef'])
    if ct.kind != d['kw']:
        ctx.fail('%s has kind %r' % (T, ct.kind))
    if (size, align) != (csize, calign):
        ctx.fail('%s: cffi size/alignment %r, gcc %r' % (T, (size, align), (csize, calign)),
                 cdef_line=it['cdef'], c_decl=_line(d))
    if [f[0] for f in ct.fields] != [f[0] for f in fields]:
        ctx.fail('%s: field names %r, declared %r' % (T, [f[0] for f in ct.fields], [f[0] for f in fields]))
    for fn, ft, bits in fields:
        f = fl[fn]
        if bits is None:
            off, fsize = cf[fn]
            if f.offset != off or ffi.offsetof(T, fn) != off:
                ctx.fail('%s.%s: cffi offset %d, gcc %d' % (T, fn, f.offset, off), cdef_line=it['cdef'],
                         c_decl=_line(d))
            if ffi.sizeof(f.type) != fsize:
                ctx.fail('%s.%s: cffi field size %d, gcc %d' % (T, fn, ffi.sizeof(f.type), fsize),
                         cdef_line=it['cdef'], c_decl=_line(d))
            if f.bitsize != -1:
                ctx.fail('%s.%s: bitsize %r on a plain field' % (T, fn, f.bitsize))
        elif check_masks:
            mask = bytes.fromhex(_fact(env, 'B.%s.%s' % (d['tag'], fn))[0])
            q = ffi.new(T + ' *')
            signed = INT_RANGE[ft[1]][0] < 0
            setattr(q, fn, -1 if signed else (1 << bits) - 1)
            got = bytes(ffi.buffer(q))
            if got != mask:
                ctx.fail('%s.%s:%d occupies %s, gcc says %s' % (T, fn, bits, got.hex(), mask.hex()),
                         cdef_line=it['cdef'], c_decl=_line(d))
            ctx.event('bitfield mask compared')


def check_enum(it, env):
    d, ctx, ffi, lib = it['d'], env['ctx'], env['ffi'], env['lib']
    T = 'enum ' + d['tag']
    csize, csigned = [int(x) for x in _fact(env, 'E.' + d['tag'])]
    cvals = dict((n, int(_fact(env, 'I.' + n)[0])) for n, _ in d['items'])
    model = dict(zip([n for n, _ in d['items']], _enum_values(d)))
    if model != cvals:
        raise HarnessError('enum model %r != gcc %r' % (model, cvals))
    if it['how'] == 'mut':
        if ctx.skip_known(KNOWN_ENUM):
            return
        _note(env, it, True)
        thunks = []
        for n in it['changed']:
            thunks.append(('lib.%s' % n, lambda n=n: getattr(lib, n)))
            thunks.append(('ffi.integer_const(%r)' % n, lambda n=n: ffi.integer_const(n)))
        _must_raise(env, it, T, thunks)
        return
    names = it.get('names') or [n for n, _ in d['items']]
    nominal = list(range(len(names)))
    _note(env, it, (it['how'] == 'exact' and env['rich']) or
          (it['how'] == 'flex' and nominal != [cvals[n] for n in names]))
    try:
        ct = ffi.typeof(T)
        got = dict((n, getattr(lib, n)) for n in names)
        got2 = dict((n, ffi.integer_const(n)) for n in names)
        size = ffi.sizeof(T)
        signed = int(ffi.cast(T, -1)) < 0
        rel = dict(ct.relements)
    except Exception as e:
        ctx.fail('%s (%s): %s: %s' % (T, it['what'], type(e).__name__, e), cdef_line=it['cdef'],
                 c_decl=_line(d), cdef=env['cdef'])
    want = dict((n, cvals[n]) for n in names)
    if got != want or got2 != want or rel != want:
        ctx.fail('%s: enumerators lib=%r integer_const=%r relements=%r, gcc %r' % (T, got, got2, rel, want),
                 cdef_line=it['cdef'], c_decl=_line(d))
    if any(type(v) is not int for v in got.values()):
        ctx.fail('%s: non-int enumerator values %r' % (T, got))
    if (size, int(signed)) != (csize, csigned):
        ctx.fail('%s: cffi size/signed %r, gcc %r' % (T, (size, int(signed)), (csize, csigned)),
                 cdef_line=it['cdef'], c_decl=_line(d))


def check_intconst(it, env):
    d, ctx, ffi, lib = it['d'], env['ctx'], env['ffi'], env['lib']
    n = d['name']
    cval = int(_fact(env, 'I.' + n)[0])
    if cval != d['value']:
        raise HarnessError('constant %s: spec %d, gcc %d' % (n, d['value'], cval))
    if it['how'] == 'mut':
        _note(env, it, True, ['mut:value differs by >= 2**32' if abs(it['md']['value'] - cval) >= 2 ** 32
                              else 'mut:value differs by < 2**32'])
        uses = [('lib.%s' % n, lambda: getattr(lib, n)),
                ('ffi.integer_const', lambda: ffi.integer_const(n))]
        if 0 < cval < 2 ** 40:
            # the constant used as an array length inside a type string (C parser path)
            uses.append(('ffi.typeof("char[%s]")' % n, lambda: ffi.typeof('char[%s]' % n)))
            uses.append(('ffi.sizeof("short[2][%s]")' % n, lambda: ffi.sizeof('short[2][%s]' % n)))
        _must_raise(env, it, n, uses)
        return
    _note(env, it, (it['how'] == 'exact' and env['rich']) or it['how'] == 'flex')
    if 0 < cval < 2 ** 40:
        try:
            alen = ffi.typeof('char[%s]' % n).length
        except Exception as e:
            ctx.fail('%s as an array length in a type string: %s: %s' % (n, type(e).__name__, e),
                     cdef_line=it['cdef'], c_value=cval)
        if alen != cval:
            ctx.fail('ffi.typeof("char[%s]").length is %r, gcc says %d' % (n, alen, cval), cdef_line=it['cdef'])
    try:
        got, got2 = getattr(lib, n), ffi.integer_const(n)
    except Exception as e:
        ctx.fail('%s (%s): %s: %s' % (n, it['what'], type(e).__name__, e), cdef_line=it['cdef'],
                 c_decl=_line(d), cdef=env['cdef'])
    if got != cval or got2 != cval or type(got) is not int:
        ctx.fail('%s: lib gives %r, integer_const %r, gcc %d' % (n, got, got2, cval), cdef_line=it['cdef'],
                 c_decl=_line(d))


def check_typedef(it, env):
    d, ctx, ffi = it['d'], env['ctx'], env['ffi']
    n = d['name']
    csize, csigned = [int(x) for x in _fact(env, 'T.' + n)]
    _note(env, it, (it['how'] == 'exact' and env['rich']) or it['how'] == 'flex')
    try:
        ct = ffi.typeof(n)
        size = ffi.sizeof(n)
        signed = (int(ffi.cast(n, -1)) < 0) if csigned >= 0 else None
    except Exception as e:
        ctx.fail('typedef %s (%s): %s: %s' % (n, it['what'], type(e).__name__, e), cdef_line=it['cdef'],
                 cdef=env['cdef'])
    if size != csize:
        ctx.fail('typedef %s: cffi size %d, gcc %d' % (n, size, csize), cdef_line=it['cdef'], c_decl=_line(d))
    if signed is not None and int(signed) != csigned:
        ctx.fail('typedef %s: cffi signed=%r, gcc %r' % (n, signed, csigned), cdef_line=it['cdef'],
                 c_decl=_line(d))
    if it['how'] == 'exact':
        if d['k'] == 'fptd':
            want = ffi.typeof(declarator(['fptr', d['ret'], d['args']], ''))
        else:
            want = ffi.typeof(declarator(d['type'], ''))
        if ct is not want:
            ctx.fail('typedef %s is %r, expected %r' % (n, ct, want), cdef_line=it['cdef'])


def check_opaque(it, env):
    d, ctx, ffi = it['d'], env['ctx'], env['ffi']
    T = '%s %s' % (d['kw'], d['tag'])
    _note(env, it, env['rich'])
    ct = ffi.typeof(T)
    if ct.kind != d['kw'] or ct.fields is not None or ffi.typeof(T + ' *').item is not ct:
        ctx.fail('opaque %s: kind %r fields %r' % (T, ct.kind, ct.fields))


def check_func(it, env):
    d, ctx, ffi, lib, decls = it['d'], env['ctx'], env['ffi'], env['lib'], env['decls']
    n = d['name']
    vals = env['calls'][n]
    prims = [_prim_of(a, decls) for a in d['args']]
    pr = _prim_of(d['ret'], decls)
    _note(env, it, env['rich'], ['call returns ' + (pr if pr in ('ptr', 'enum', 'void', 'float', 'double',
                                                                 'char', 'wchar_t', '_Bool') else 'integer')])
    cres = _fact(env, 'C.' + n)[0]
    try:
        fn = getattr(lib, n)
        fnptr = ffi.addressof(lib, n)
        args = [_to_py(ffi, v, a, p) for v, a, p in zip(vals, d['args'], prims)]
    except Exception as e:
        ctx.fail('function %s: %s: %s' % (n, type(e).__name__, e), cdef_line=it['cdef'], cdef=env['cdef'])
    if pr == 'wchar_t' and not (0 <= int(cres) <= 0x10FFFF):
        ctx.event('wchar_t result is no code point: call left out')
        return
    try:
        res = fn(*args)
    except Exception as e:
        ctx.fail('calling %s%r: %s: %s' % (n, tuple(vals), type(e).__name__, e), cdef_line=it['cdef'],
                 c_decl=_c_line(env, it))
    if pr == 'void':
        if res is not None:
            ctx.fail('void function %s returned %r' % (n, res))
        return
    got = _from_py(ffi, res, pr)
    want = float(cres) if pr in ('float', 'double') else int(cres)
    if got != want:
        ctx.fail('%s%r: cffi returns %r (%r), the C function returns %r' % (n, tuple(vals), res, got, want),
                 cdef_line=it['cdef'], c_decl=_c_line(env, it))
    # (ffi.addressof(lib, f) is by design a pointer to cffi's direct-call trampoline, not &f: only call it)
    got2 = _from_py(ffi, fnptr(*args), pr)
    if got2 != want:
        ctx.fail('%s%r through ffi.addressof(lib, ...): %r, the C function returns %r'
                 % (n, tuple(vals), got2, want), cdef_line=it['cdef'], c_decl=_c_line(env, it))


def _c_line(env, it):
    src = cdefgen.c_source(env['case']['spec']).rstrip('\n').split('\n')
    return src[len(src) - len(env['decls']) + it['i']]


def _ll(v):
    v &= 2 ** 64 - 1
    return v - 2 ** 64 if v >= 2 ** 63 else v


def check_gvar(it, env):
    d, ctx, ffi, lib, decls, cdll = it['d'], env['ctx'], env['ffi'], env['lib'], env['decls'], env['cdll']
    n, t = d['name'], d['type']
    caddr = int(_fact(env, 'A.' + n)[0])
    rd, wr = getattr(cdll, 'verif_rd_' + n), getattr(cdll, 'verif_wr_' + n)
    rd.restype, rd.argtypes = ctypes.c_longlong, [ctypes.c_int]
    wr.restype, wr.argtypes = None, [ctypes.c_int, ctypes.c_longlong]
    _note(env, it, (it['how'] == 'exact' and env['rich']) or it['how'] == 'flex',
          ['global ' + ('array' if t[0] == 'arr' else 'pointer' if t[0] == 'ptr' else 'scalar')])
    # a wchar_t object that holds no code point is outside the domain (not readable as a str)
    badwchar = (t[0] != 'arr' and _prim_of(t, decls) == 'wchar_t' and not 0 <= d['init'] <= 0x10FFFF)
    try:
        addr = int(ffi.cast('uintptr_t', ffi.addressof(lib, n)))
        cur = None if badwchar else getattr(lib, n)
    except Exception as e:
        ctx.fail('global %s (%s): %s: %s' % (n, it['what'], type(e).__name__, e), cdef_line=it['cdef'],
                 cdef=env['cdef'])
    if addr != caddr:
        ctx.fail('ffi.addressof(lib, %r) = %#x, C says &%s = %#x' % (n, addr, n, caddr), cdef_line=it['cdef'])
    if t[0] == 'arr':
        clen = int(_fact(env, 'N.' + n)[0])
        pe = _prim_of(t[2], decls)
        lo, hi = INT_RANGE[pe]
        mask = (1 << 8 * SIZEOF[pe]) - 1
        if len(cur) != clen or ffi.sizeof(cur) != clen * SIZEOF[pe]:
            ctx.fail('global array %s: len %d, C has %d' % (n, len(cur), clen), cdef_line=it['cdef'])
        if int(ffi.cast('uintptr_t', cur)) != caddr:
            ctx.fail('lib.%s points to %#x, C says %#x' % (n, int(ffi.cast('uintptr_t', cur)), caddr))
        init = [int(x) for x in _fact(env, 'V.' + n)]
        if list(cur) != init or init != list(d['init']):
            ctx.fail('global array %s reads %r, C initial values %r' % (n, list(cur), init))
        for i in range(clen):
            v = _pick(_mix(env['case'], it['i'] + 31, i), lo, hi)
            cur[i] = v
            if rd(i) & mask != v & mask:
                ctx.fail('lib.%s[%d] = %d, but C reads %d' % (n, i, v, rd(i)), cdef_line=it['cdef'])
            w = _pick(_mix(env['case'], it['i'] + 47, i), lo, hi)
            wr(i, _ll(w))
            if getattr(lib, n)[i] != w:
                ctx.fail('C stored %d into %s[%d], lib reads %r' % (w, n, i, getattr(lib, n)[i]),
                         cdef_line=it['cdef'])
        return
    p = _prim_of(t, decls)
    init = _fact(env, 'V.' + n)[0]
    got = int(init) if (badwchar and cur is None) else _from_py(ffi, cur, p)
    if got != int(init) or (t[0] != 'ptr' and int(init) != d['init']):
        ctx.fail('global %s reads %r, C initial value %s' % (n, cur, init), cdef_line=it['cdef'])
    if p == 'ptr':
        mask = 2 ** 64 - 1
    else:
        mask = (1 << 8 * SIZEOF[p]) - 1
    for r in range(2):
        v = _arg_value(_mix(env['case'], it['i'] + 31, r), p)
        try:
            setattr(lib, n, _to_py(ffi, v, t, p))
        except Exception as e:
            ctx.fail('lib.%s = %r: %s: %s' % (n, v, type(e).__name__, e), cdef_line=it['cdef'])
        if rd(0) & mask != v & mask:
            ctx.fail('lib.%s = %d, but C reads %d' % (n, v, rd(0)), cdef_line=it['cdef'])
        w = _arg_value(_mix(env['case'], it['i'] + 47, r), p)
        wr(0, _ll(w))
        back = _from_py(ffi, getattr(lib, n), p)
        if back != w:
            ctx.fail('C stored %d into %s, lib reads %r' % (w, n, back), cdef_line=it['cdef'])
        # through the address as well
        ptr = ffi.addressof(lib, n)
        if _from_py(ffi, ptr[0], p) != w:
            ctx.fail('ffi.addressof(lib, %r)[0] reads %r, C stored %d' % (n, ptr[0], w))


CHECK = {'struct': check_struct, 'enum': check_enum, 'define': check_intconst, 'const': check_intconst,
         'typedef': check_typedef, 'fptd': check_typedef, 'opaque': check_opaque, 'func': check_func,
         'gvar': check_gvar}
