"""C29 -- callback closures stay distinct and bound to their own function.

Case: {'flavour': 0|1, 'ops': [[name, a, b, c], ...]} interpreted against the real
ffi.callback() objects and a model (list of live callbacks: id, signature).

ops:  create (one or a batch of up to 5000 callbacks, one or mixed signatures,
      optionally each in a reference cycle with itself so that only gc.collect()
      can free its closure), drop (one / strided subset / newest or oldest half /
      pseudo-random subset / all), collect, call (through the cdata, through a C
      caller compiled once per worker, through the bare address cast back to a
      function pointer).

Every new callback's address is compared with the addresses of all callbacks alive
at that moment (pairwise distinctness is thus maintained incrementally; the addresses
of all live callbacks are read again after each step while <= 300 are alive and at
the end of the history).  After every step a sample of the live callbacks (all of
them when <= 160; else the 40 oldest, the 60 newest and ~60 strided ones) is called:
each must run exactly its own Python function once, with the arguments sent, and
deliver f(id, args) computed for its own signature.
"""
import gc, os, io, contextlib
from hypothesis import strategies as st
from vlib.core import Violation, HarnessError
from vlib import cc

ID = 'C29'
LEVEL = 'exploration'
CRASHY = True
ASAN_TIERS = ('thorough',)
RULE = ('Hypothesis-generated create/drop/collect/call histories over 6 callback signatures; batch sizes '
        '1..20000 (incl. 73/74 = closures per first 4K page), drops of single/strided/half/pseudo-random/all '
        'subsets, callbacks in self-cycles freed only by gc.collect(); oracle = pairwise distinct addresses '
        'of live callbacks + each sampled live callback invoked via cdata / C caller / bare address runs '
        'exactly its own function with the sent arguments and returns f(id, args) of its signature.  '
        'One evaluation = one history.  Non-trivial = the live callbacks of the history spanned >= 2 '
        'closure pages (4K) and at least one new callback received the address of a closure freed earlier '
        'in the same history; distinct by op-list hash.')
TECHNIQUE = 'model-based history testing of the closure allocator (create/drop/call), ASan backend in thorough tier'
LEVEL_TEXT = ('Random create/drop/call histories, including thousands of live callbacks, pool growth and reuse '
              'of freed closures, keep every live callback at a distinct address and bound to its own function '
              'and signature; sampled, no proof.')
LEVEL_NOTE = ('Trusted: the id->function model, gcc-compiled C callers, libffi.  The closure pool is process-global '
              'and never shrinks, so pool growth happens only in histories exceeding the earlier maximum of '
              'their worker (counted as class pool-grew).')
ASSUMPTIONS = ['x86-64 Linux: cffi uses its own closure allocator (malloc_closure.h), 56-byte closures',
               'callbacks are only invoked while their cdata object is alive',
               'Python callbacks return in-range values (no error path)']
BUDGET = {'quick': 160, 'thorough': 3200}
STEPS = {'quick': 30, 'thorough': 60}
TIME = {'quick': 20, 'thorough': 600}
MIN_PER_SHARD = 20      # 8 shards in the quick tier
MAX_LIVE = 70000

SIGS = ['int(*)(int)', 'int(*)(int, int)', 'double(*)(double)', 'long long(*)(long long, int)',
        'void(*)(int *)', 'short(*)(short, signed char, long)']

CDEF = """
int call0(int (*f)(int), int x);
int call1(int (*f)(int, int), int x, int y);
double call2(double (*f)(double), double x);
long long call3(long long (*f)(long long, int), long long x, int y);
void call4(void (*f)(int *), int *p);
short call5(short (*f)(short, signed char, long), short x, signed char y, long z);
"""
CSRC = """
int call0(int (*f)(int), int x) { return f(x); }
int call1(int (*f)(int, int), int x, int y) { return f(x, y); }
double call2(double (*f)(double), double x) { return f(x); }
long long call3(long long (*f)(long long, int), long long x, int y) { return f(x, y); }
void call4(void (*f)(int *), int *p) { f(p); }
short call5(short (*f)(short, signed char, long), short x, signed char y, long z) { return f(x, y, z); }
"""

# (20000-batches take the closure pool through its later, larger growth steps: 47, 62, 81, 106 ... pages)
BATCH = [1, 20000, 1, 2, 3, 8, 30, 72, 73, 74, 75, 146, 147, 300, 1000, 5000]
INTS = [0, 1, -1, 2, 7, -8, 100, -100, 12345, -12345, 32767, -32768, 2 ** 31 - 1, -2 ** 31, 65536, 46341]


def setup(ctx):
    import cffi
    so = cc.compile_shared(CSRC, ctx.tmp, stem='c29lib')
    ffi1 = cffi.FFI()
    ffi1.cdef(CDEF)
    lib1 = ffi1.dlopen(so)
    ffiG = cffi.FFI()
    ffiG.cdef(CDEF)
    ffiG.set_source('_c29_ool', None)
    path = os.path.join(ctx.tmp, '_c29_ool_%d.py' % os.getpid())
    with contextlib.redirect_stdout(io.StringIO()):
        ffiG.emit_python_code(path)
    ns = {}
    with open(path) as f:
        exec(compile(f.read(), path, 'exec'), ns)
    ffi2 = ns['ffi']
    lib2 = ffi2.dlopen(so)
    return {'ffis': [ffi1, ffi2], 'libs': [lib1, lib2]}


OPS = ['create'] * 6 + ['drop'] * 6 + ['collect'] * 2 + ['call'] * 3 + ['selfdrop'] + ['pagefill'] + ['fork']


def strategy(ctx):
    small = st.integers(0, 15)
    op = st.tuples(st.sampled_from(OPS), small, small, small).map(list)
    top = STEPS[ctx.tier]
    ops = st.sampled_from([1, 6, top // 2, top - 5]).flatmap(
        lambda m: st.lists(op, min_size=m, max_size=top))
    return st.fixed_dictionaries({'flavour': st.integers(0, 1), 'ops': ops})


# ---------------------------------------------------------------- model

def wrap(v, bits):
    v &= (1 << bits) - 1
    return v - (1 << bits) if v >> (bits - 1) else v


def formula(sig, ident, args):
    """what callback `ident` of signature `sig` returns for args"""
    if sig == 0:
        return wrap(args[0] * 3 + ident, 32)
    if sig == 1:
        return wrap(args[0] - 7 * args[1] + ident, 32)
    if sig == 2:
        return args[0] * 0.5 + ident
    if sig == 3:
        return wrap(args[0] * 5 + args[1] + ident * 1000003, 64)
    if sig == 4:
        return wrap(args[0] ^ (ident * 2654435761), 32)
    return wrap(args[0] + 3 * args[1] + args[2] + ident, 16)


def args_for(sig, k):
    a, b, c = INTS[k % 16], INTS[(k * 7 + 3) % 16], INTS[(k * 5 + 11) % 16]
    if sig == 0:
        return [a]
    if sig == 1:
        return [a, b]
    if sig == 2:
        return [float(a) + 0.25]
    if sig == 3:
        return [wrap(a * 4294967311 + b, 64), c]
    if sig == 4:
        return [a]
    return [wrap(a, 16), wrap(b, 8), wrap(c * 4294967311 + a, 64)]


_DURING = [None]        # hook run inside the next callback invocation (op_selfdrop)


def make_function(sig, ident, log, cyc):
    """the Python function behind callback `ident`; cyc (a list, or None) makes it
    part of a reference cycle with its own cdata"""
    if sig == 4:
        def fn(p):
            log.append((ident, (p[0],)))
            hook, _DURING[0] = _DURING[0], None
            if hook is not None:
                hook()
            p[0] = formula(4, ident, (p[0],))
            cyc
    else:
        def fn(*args):
            log.append((ident, args))
            hook, _DURING[0] = _DURING[0], None
            if hook is not None:
                hook()
            cyc
            return formula(sig, ident, args)
    return fn


class Rec(object):
    __slots__ = ('ident', 'sig', 'cb', 'addr')


class History(object):
    def __init__(self, ffi, lib, ctx):
        self.ffi = ffi
        self.lib = lib
        self.ctx = ctx
        self.live = []
        self.next_id = 1
        self.log = []
        self.freed_addrs = set()
        self.addrs = {}               # address -> id of the live callback there
        self.pages = set()
        self.reused = 0
        self.flags = set()
        self.step = -1
        self.ctypes = [ffi.typeof(s) for s in SIGS]
        self.callers = [getattr(lib, 'call%d' % i) for i in range(6)]
        self.pool0 = self.pool = rwx_bytes()

    def op_create(self, sig, n, mode):
        n = BATCH[n % 16]
        if len(self.live) + n > MAX_LIVE:
            return None
        ffi = self.ffi
        mixed = mode % 4 == 1
        cyclic = mode % 4 == 2
        for k in range(n):
            r = Rec()
            r.ident = self.next_id
            self.next_id += 1
            r.sig = (sig + k) % 6 if mixed else sig % 6
            cyc = [] if cyclic else None
            fn = make_function(r.sig, r.ident, self.log, cyc)
            if mode >= 8:
                r.cb = ffi.callback(SIGS[r.sig], fn)
            else:
                r.cb = ffi.callback(self.ctypes[r.sig], fn)
            if cyclic:
                cyc.append(r.cb)        # cb -> fn -> cyc -> cb
            r.addr = int(ffi.cast('uintptr_t', r.cb))
            if r.addr in self.addrs:
                self.ctx.fail('live callbacks #%d and #%d share address %#x' % (self.addrs[r.addr], r.ident, r.addr),
                              step=self.step, live=len(self.live))
            self.addrs[r.addr] = r.ident
            if r.addr in self.freed_addrs:
                self.reused += 1
                self.freed_addrs.discard(r.addr)
            self.pages.add(r.addr >> 12)
            self.live.append(r)
        p = rwx_bytes()
        if p > self.pool:
            self.flags.add('pool-grew')
            if self.pool > self.pool0:
                self.flags.add('pool-grew>=2x')
            self.pool = p
        lab = ['create-%s' % ('1' if n == 1 else '<=75' if n <= 75 else '<=300' if n <= 300 else '>=1000')]
        if cyclic:
            lab.append('create-in-cycle')
        if mixed:
            lab.append('create-mixed-signatures')
        return lab

    def op_drop(self, mode, a, b):
        live = self.live
        if not live:
            return None
        n = len(live)
        mode %= 6
        if mode == 0:
            idx = {(a * 16 + b) * 7919 % n}
        elif mode == 1:
            stride = 2 + b % 5
            idx = set(range(a % stride, n, stride))
        elif mode == 2:
            idx = set(range(n // 2, n))
        elif mode == 3:
            idx = set(range(0, (n + 1) // 2))
        elif mode == 4:
            idx = set(range(n))
        else:
            x = a * 16 + b + 1
            idx = set()
            for i in range(n):
                x = (x * 1103515245 + 12345) & 0x7fffffff
                if (x >> 16) & 3 == 0:
                    idx.add(i)
            if not idx:
                idx = {0}
        keep = []
        for i, r in enumerate(live):
            if i in idx:
                self.freed_addrs.add(r.addr)
                del self.addrs[r.addr]
            else:
                keep.append(r)
        del r
        self.live = keep           # the dropped records (and their cdata) go away here ...
        del live                   # ... unless they sit in a cycle (then at the next gc.collect())
        return ['drop-' + ('one', 'strided', 'newest-half', 'oldest-half', 'all', 'random')[mode]]

    def op_collect(self, _, __, ___):
        gc.collect()
        return 'gc.collect'

    def call(self, r, how, k):
        ffi = self.ffi
        ctx = self.ctx
        args = args_for(r.sig, k)
        want = formula(r.sig, r.ident, args)
        del self.log[:]
        how %= 3
        if r.sig == 4:
            box = ffi.new('int *', args[0])
            if how == 0:
                r.cb(box)
            elif how == 1:
                self.callers[4](r.cb, box)
            else:
                ffi.cast(self.ctypes[4], r.addr)(box)
            got = box[0]
        elif how == 0:
            got = r.cb(*args)
        elif how == 1:
            got = self.callers[r.sig](r.cb, *args)
        else:
            got = ffi.cast(self.ctypes[r.sig], r.addr)(*args)
        if self.log != [(r.ident, tuple(args))]:
            ctx.fail('calling callback #%d (%s) %s ran %s instead of exactly its own function with the '
                     'arguments sent' % (r.ident, SIGS[r.sig], ('through the cdata', 'from C', 'through its address')[how],
                                         self.log[:4]), step=self.step, args=args)
        if got != want or type(got) is not type(want):
            ctx.fail('callback #%d (%s) called %s returned %r, its function returns %r'
                     % (r.ident, SIGS[r.sig], ('through the cdata', 'from C', 'through its address')[how], got, want),
                     step=self.step, args=args)

    def op_call(self, i, how, k):
        if not self.live:
            return None
        r = self.live[(i * 16 + k) * 7919 % len(self.live)]
        self.call(r, how, k)
        return 'call-' + ('cdata', 'from-C', 'address')[how % 3]

    def op_pagefill(self, sig, a, b):
        """create callbacks one at a time until the closure allocator has handed out the last block of
        its current mapping (blocks are handed out from the end of a mapping towards its page-aligned
        start), then -- with no creation in between -- drop one callback and call the newest ones"""
        for _ in range(700):
            if len(self.live) + 1 > MAX_LIVE:
                return None
            self.op_create(sig, 0, 0)
            if self.live[-1].addr % 4096 == 0:
                break
        else:
            return 'pagefill-mapping-not-exhausted'
        if len(self.live) >= 2:
            pos = (a * 16 + b) % (len(self.live) - 1)
            r = self.live.pop(pos)
            self.freed_addrs.add(r.addr)
            del self.addrs[r.addr]
            del r
        for r in self.live[-3:]:
            self.call(r, 2, b)
            self.call(r, 1, a)
        self.flags.add('drop-while-every-closure-block-is-in-use')
        return 'pagefill-drop-call'

    def op_fork(self, sig, a, b):
        """fork() without exec: the child drops the callbacks it inherited, creates and calls new ones and
        exits; the parent's callbacks must be untouched by whatever the child did with its copy"""
        if len(self.live) > 3000:
            return None
        import os, sys
        sys.stdout.flush()
        sys.stderr.flush()
        pid = os.fork()
        if pid == 0:
            rc = 0
            try:
                keep = self.live[a % 2::2]                     # drop every other inherited callback ...
                for r in self.live:
                    if r not in keep:
                        del self.addrs[r.addr]
                self.live = keep
                gc.collect()
                for _ in range(3):                             # ... and create / call / drop new ones
                    self.op_create(sig, 5 + b % 6, 0)
                    for r in self.live[-8:]:
                        self.call(r, 2, b)
                    self.op_drop(2, a, b)
            except BaseException:
                rc = 3
            os._exit(rc)
        _, status = os.waitpid(pid, 0)
        if status != 0:
            self.ctx.fail('after fork(), the child process failed while using its own callbacks (wait status %d)'
                          % status, step=self.step, live=len(self.live))
        n = len(self.live)
        for j in sorted(set([0, n // 2, n - 1] + [(a * 16 + b + 7 * q) % n for q in range(12)])) if n else []:
            self.call(self.live[j], 2, b)
            self.call(self.live[j], 1, a)
        self.flags.add('fork')
        return 'fork-child-churns-parent-calls'

    def op_selfdrop(self, i, _how, k):
        """a one-shot callback: invoked through its bare address (so that the call itself holds no
        reference to the cdata), it drops the last reference to itself from inside its own
        invocation and makes new objects that recycle the memory; it must still return its own
        function's result"""
        if not self.live:
            return None
        pos = (i * 16 + k) * 7919 % len(self.live)
        r = self.live.pop(pos)
        self.freed_addrs.add(r.addr)
        del self.addrs[r.addr]
        made = []

        def hook():
            r.cb = None                              # the cdata dies here, during its own call
            made.append(tuple(range(4)))
            made.append(self.ffi.callback(SIGS[0], lambda x: 0))   # may reuse the freed closure
        _DURING[0] = hook
        try:
            self.call(r, 2, k)
        finally:
            _DURING[0] = None
        if r.cb is not None:
            raise HarnessError('selfdrop hook did not run')
        del made[:]
        # the same with a failing body: the declared error value of *this* callback must reach the
        # caller although the callback object died (and its memory was recycled) during the call
        import sys
        ffi = self.ffi
        holder, keep = [None], []
        raising = k % 2 == 0

        def oneshot(x):
            holder[0] = None
            keep.append([(n, bytes(8), None, None) for n in range(3)])
            keep.append(ffi.callback('int(int)', lambda y: 0, error=1234))
            if raising:
                raise ValueError('one-shot callback fails after dropping itself')
            return x * 3 + 1
        holder[0] = ffi.callback('int(int)', oneshot, error=-7)
        addr = int(ffi.cast('uintptr_t', holder[0]))
        fnptr = ffi.cast('int(*)(int)', addr)
        old_hook = sys.unraisablehook
        sys.unraisablehook = lambda *a: None
        try:
            got = fnptr(5 + i)
        finally:
            sys.unraisablehook = old_hook
        want = -7 if raising else (5 + i) * 3 + 1
        if holder[0] is not None:
            raise HarnessError('one-shot callback did not run')
        if got != want:
            self.ctx.fail('a callback that dropped itself during its own invocation %s: the caller received '
                          '%r, expected %r' % ('and then raised (error=-7)' if raising else 'returned normally',
                                               got, want), step=self.step)
        del keep[:]
        return 'selfdrop'

    def check(self, full=False):
        live = self.live
        n = len(live)
        ffi = self.ffi
        # distinctness is established when a callback is created (op_create, against the
        # addresses of everything live); here the addresses are read again: of all live
        # callbacks when there are few or at the end, else of the sampled ones
        if n <= 300 or full:
            addrs = set()
            for r in live:
                a = int(ffi.cast('uintptr_t', r.cb))
                if a != r.addr:
                    self.ctx.fail('address of live callback #%d changed' % r.ident, step=self.step)
                addrs.add(a)
            if len(addrs) != n or len(self.addrs) != n:
                self.ctx.fail('%d live callbacks have %d distinct addresses' % (n, len(addrs)), step=self.step)
        if n <= 160:
            sample = range(n)
        else:
            sample = sorted(set(list(range(40)) + list(range(n - 60, n)) +
                                list(range(self.step % 7, n, max(1, n // 60)))))
        for j, i in enumerate(sample):
            if int(ffi.cast('uintptr_t', live[i].cb)) != live[i].addr:
                self.ctx.fail('address of live callback #%d changed' % live[i].ident, step=self.step)
            self.call(live[i], (self.step + j) % 3, self.step + i)
        if n >= 1000:
            self.flags.add('live>=1000')
        if n >= 74:
            self.flags.add('live>=74')

    def run(self, ops):
        ctx = self.ctx
        for self.step, (name, a, b, c) in enumerate(ops):
            lab = getattr(self, 'op_' + name)(a, b, c)
            if lab is None:
                ctx.event('op:not-applicable')
                continue
            for l in ([lab] if isinstance(lab, str) else lab):
                ctx.event('op:' + l)
            self.check()
        self.step = len(ops)
        self.check(full=True)
        if self.reused:
            self.flags.add('reused-freed-closure')
        if len(self.pages) >= 2:
            self.flags.add('pages>=2')


def rwx_bytes():
    """size of the executable anonymous mappings = cffi's closure pool (grows in more_core())"""
    tot = 0
    with open('/proc/self/maps') as f:
        for ln in f:
            fld = ln.split()
            if fld[1].startswith('rwx') and len(fld) < 6:
                a, b = fld[0].split('-')
                tot += int(b, 16) - int(a, 16)
    return tot


def prop(case, ctx):
    st_ = ctx.state
    fl = case['flavour'] % 2
    was_enabled = gc.isenabled()
    gc.disable()
    gc.freeze()
    h = None
    try:
        h = History(st_['ffis'][fl], st_['libs'][fl], ctx)
        h.run(case['ops'])
        flags = set(h.flags)
    finally:
        if h is not None:
            h.live = []
        h = None
        gc.collect()
        gc.unfreeze()
        if was_enabled:
            gc.enable()
    nontrivial = 'reused-freed-closure' in flags and 'pages>=2' in flags
    ctx.note([fl, case['ops']], nontrivial,
             ['flavour=' + ('cffi.FFI', 'compiled FFI')[fl]] + sorted('hist:' + f for f in flags) +
             ['hist:nontrivial' if nontrivial else 'hist:trivial'])
