"""C16 -- array/pointer indexing, slicing and arithmetic follow the C model.

A case is a history: an element kind, an array length n, the way "the array"
x is obtained (owning T[n], owning T[] of length n, a T[n] view cast into the
middle of a larger allocation with guard elements on both sides, or a slice
view of that middle), random initial bytes and a list of operations.  The
operations are interpreted against the real cdata objects and a bytearray
model of the whole allocation; views (array slices, derived pointers) are
kept in pools and later operations pick them by index modulo the pool size.
After every operation the bytes of the whole allocation (ffi.buffer) must
equal the model, so a rejected access that touched memory, a write through a
view that landed elsewhere, or damage to the guard elements is detected at
the step where it happens.
"""
import struct
from hypothesis import strategies as st
from vlib.core import Violation, HarnessError

ID = 'C16'
LEVEL = 'exploration'
RULE = ('Hypothesis-generated histories: element kind (int8..int64 signed/unsigned, float, double, void*, '
        'char, 12-byte struct) x array length 0-8 x array origin (owning T[n], owning T[], T[n] cast into '
        'a guarded allocation, slice view) x 1-40 operations (get/set by index in [-3, n+3] or huge; '
        'slice with int/None bounds and step variants, nested slices of views; slice assignment from '
        'list/tuple/iterator/cdata array/overlapping view/bytes with right and wrong lengths; p+i, p-i, '
        'i+p, p-q, addressof, offsetof through both the Python and the C FFI object; owning T* indexed '
        'by 0 and non-0), interpreted against a bytearray model with the whole-allocation byte '
        'comparison after every step. An evaluation is one history; it is non-trivial iff it contains a '
        'write through a derived view or pointer and a rejected access; distinct by the hash of '
        '(kind, n, origin, operation list).')
TECHNIQUE = 'model-based history testing (operation lists vs a bytearray model; ASan build in the thorough tier)'
LEVEL_TEXT = ('Randomised exploration of operation histories: every accepted/rejected access, every derived '
              'view/pointer address and every byte of the allocation (including guard elements) agreed with '
              'the reference model after each step; bounded to arrays of 0-8 elements and 40 steps.')
LEVEL_NOTE = ('Trusted: ffi.buffer over the owning allocation and int(ffi.cast("uintptr_t", p)) as observers; '
              'struct-module codecs for element values; NaN payloads are not compared.')
ASSUMPTIONS = ['ffi.buffer(owning array) and ffi.cast("uintptr_t", p) observe memory/addresses correctly',
               'pointer dereferences are only generated inside the test-owned allocation (C precondition)',
               'index/slice operands are Python ints or None (objects with __index__ are not in scope)',
               'the effect of a wrong-length slice assignment inside the slice is unspecified '
               '(model is resynchronised there); outside the slice nothing may change']
BUDGET = {'quick': 2400, 'thorough': 48000}
STEPS = {'quick': 40, 'thorough': 60}
TIME = {'quick': 15, 'thorough': 800}
CRASHY = True
ASAN_TIERS = ('thorough',)

G = 3
KNOWN_SLICE_OVERFLOW = 'slice-bound-beyond-ssize_t'

# kind -> (C type, size, struct fmt or None)
KINDS = {
    'i8': ('int8_t', 1, '<b'), 'u8': ('uint8_t', 1, '<B'),
    'i16': ('int16_t', 2, '<h'), 'u16': ('uint16_t', 2, '<H'),
    'i32': ('int32_t', 4, '<i'), 'u32': ('uint32_t', 4, '<I'),
    'i64': ('int64_t', 8, '<q'), 'u64': ('uint64_t', 8, '<Q'),
    'long': ('long', 8, '<q'), 'ulong': ('unsigned long', 8, '<Q'),
    'float': ('float', 4, '<f'), 'double': ('double', 8, '<d'),
    'ptr': ('void *', 8, '<Q'), 'char': ('char', 1, None), 'struct': ('struct s12', 12, None),
}
HUGE = [2 ** 31, 2 ** 63 - 1, 2 ** 63, 2 ** 64, 2 ** 70, -2 ** 63, -2 ** 63 - 1, -2 ** 70]
SSIZE_MIN, SSIZE_MAX = -2 ** 63, 2 ** 63 - 1


def strategy(ctx):
    maxops = STEPS[ctx.tier]
    vref = st.integers(0, 30)
    seed = st.integers(0, 2 ** 64 - 1)
    which = st.sampled_from(['py', 'c'])
    huge = st.sampled_from(HUGE)

    def ops_for(n, kind):
        # indices/bounds are drawn relative to n so that accepted and just-rejected accesses are both
        # common on the array itself and still frequent on shorter derived views
        inside = st.integers(0, max(n - 1, 0))
        edge = st.sampled_from([-1, 0, n - 1, n, n + 1, -2, n + 3])
        idx = st.one_of(inside, inside, inside, st.integers(0, 2), edge, edge, st.integers(-3, n + 3), huge)
        pidx = st.integers(0, n + 2 * G + 2)
        step = st.sampled_from([None] * 24 + [1, 2, -1, 0])

        @st.composite
        def slc(draw):
            mode = draw(st.integers(0, 9))
            if mode <= 5:                      # valid on an array of length n
                i = draw(st.integers(0, n)); j = draw(st.integers(min(i + draw(st.integers(0, 1)), n), n))
            elif mode == 6:                    # short, near the start (valid on derived views too)
                i = draw(st.integers(0, 2)); j = i + draw(st.integers(0, 2))
            elif mode == 7:                    # just outside
                i, j = draw(st.sampled_from([(-1, 0), (0, n + 1), (n, n + 1), (n + 1, n + 1), (1, 0), (n, n - 1),
                                             (-1, n), (n, n), (0, 0), (-2, -1)]))
            elif mode == 8:
                i = draw(st.integers(-2, n + 2)); j = draw(st.integers(-2, n + 2))
            else:
                i = draw(st.one_of(st.none(), huge, st.integers(0, n)))
                j = draw(st.one_of(st.none(), huge, st.integers(0, n)))
            return [i, j]

        def mk(*parts):
            return st.tuples(*parts).map(list)
        get = mk(st.just('get'), vref, idx)
        set_ = mk(st.just('set'), vref, idx, seed)
        pget = mk(st.just('pget'), vref, pidx)
        pset = mk(st.just('pset'), vref, pidx, seed)
        slice_ = st.tuples(st.just('slice'), vref, slc(), step).map(lambda t: [t[0], t[1], t[2][0], t[2][1], t[3]])
        srckinds = ['list', 'tuple', 'iter', 'cdata', 'view', 'view', 'view']
        if kind == 'char':
            srckinds += ['bytes', 'bytes', 'bytearray', 'bytearray']
        # [.., source kind, length delta, value seeds, source view (None = the target view itself), source offset
        #  relative to the slice start]
        setslice = st.tuples(st.just('setslice'), vref, slc(), step, st.sampled_from(srckinds),
                             st.sampled_from([0, 0, 0, 0, 0, -1, 1, 2, -2]), st.lists(seed, min_size=1, max_size=4),
                             st.one_of(st.none(), vref), st.integers(-2, 2)).map(
            lambda t: [t[0], t[1], t[2][0], t[2][1], t[3], t[4], t[5], t[6], t[7], t[8]])
        arith = mk(st.sampled_from(['add', 'add', 'sub', 'radd']), vref,
                   st.one_of(st.integers(-G, n + G), st.integers(-2, 3), st.integers(0, max(n, 1)),
                             st.sampled_from([2 ** 20, -2 ** 20, 2 ** 40, -2 ** 40])))
        diff = mk(st.just('diff'), vref, vref)
        addrof = mk(st.just('addressof'), vref,
                    st.one_of(st.integers(-G, n + G), inside, st.sampled_from([2 ** 20, -2 ** 20, 2 ** 40])), which)
        offs = mk(st.just('offsetof'), st.one_of(st.integers(-3, 40), st.sampled_from([2 ** 20, 2 ** 40, -2 ** 31])), which)
        ownp = mk(st.just('ownptr'), st.one_of(st.sampled_from([0, 0, 1, -1, 2]), idx), seed, st.booleans())
        table = {'get': get, 'set': set_, 'pget': pget, 'pset': pset, 'slice': slice_, 'setslice': setslice,
                 'arith': arith, 'diff': diff, 'addressof': addrof, 'offsetof': offs, 'ownptr': ownp}
        weights = (['get'] * 3 + ['set'] * 4 + ['pget'] * 2 + ['pset'] * 3 + ['slice'] * 5 + ['setslice'] * 4
                   + ['arith'] * 3 + ['diff'] + ['addressof'] * 2 + ['offsetof'] + ['ownptr'])
        return st.sampled_from(weights).flatmap(lambda k: table[k])

    @st.composite
    def case(draw):
        n = draw(st.sampled_from([0, 1, 1, 2, 2, 3, 3, 4, 4, 5, 5, 6, 6, 7, 8]))
        nops = draw(st.integers(4, maxops))
        kind = draw(st.sampled_from(sorted(KINDS)))
        return {'kind': kind,
                'n': n,
                'origin': draw(st.sampled_from(['own-fixed', 'own-open', 'cast', 'slice'])),
                'init': draw(st.binary(min_size=16, max_size=16)).hex(),
                'ops': draw(st.lists(ops_for(n, kind), min_size=nops, max_size=nops))}
    return case()


def setup(ctx):
    import cffi, _cffi_backend
    ffi = cffi.FFI()
    ffi.cdef('struct s12 { int32_t a; int16_t b; char c[6]; };')
    if ffi.sizeof('struct s12') != 12:
        raise HarnessError('struct s12 is not 12 bytes')
    return {'ffi': ffi, 'cffi': _cffi_backend.FFI()}


class _View(object):
    __slots__ = ('cd', 'start', 'length', 'derived')

    def __init__(self, cd, start, length, derived):
        self.cd = cd              # the cdata
        self.start = start        # element offset from the base of the allocation
        self.length = length      # None for pointers
        self.derived = derived


def prop(case, ctx):
    ffi = ctx.state['ffi']
    ffis = {'py': ffi, 'c': ctx.state['cffi']}
    kind = case['kind']
    T, size, fmt = KINDS[kind]
    n = case['n']
    origin = case['origin']
    guard = G if origin in ('cast', 'slice') else 0
    total = n + 2 * guard
    init = bytes.fromhex(case['init']) or b'\0'
    mem = bytearray((init * (total * size // len(init) + 1))[:total * size])

    if origin == 'own-fixed':
        backing = ffi.new('%s[%d]' % (T, n))
    else:
        backing = ffi.new('%s[]' % T, total)
    wbuf = ffi.buffer(backing)
    if len(wbuf) != len(mem):
        raise HarnessError('allocation is %d bytes, model %d' % (len(wbuf), len(mem)))
    wbuf[:] = bytes(mem)
    base = int(ffi.cast('uintptr_t', backing))
    ptr_t = ffi.typeof(ffi.getctype(T, '*'))
    open_t = ffi.typeof(ffi.getctype(T, '[]'))
    item_t = ffi.typeof(T)

    if origin in ('own-fixed', 'own-open'):
        x = backing
    elif origin == 'cast':
        x = ffi.cast(ffi.getctype(T, '(*)[%d]' % n), ffi.cast(ptr_t, base + guard * size))[0]
    else:
        x = backing[guard:guard + n]
    if len(x) != n:
        ctx.fail('len(x) is %d, expected %d' % (len(x), n), origin=origin, kind=kind)

    arrays = [_View(x, guard, n, False)]
    ptrs = []
    stats = {'derived_write': False, 'rejected': False}
    step_no = [0]

    def addr(cd):
        return int(ffi.cast('uintptr_t', cd))

    def fail(msg, **kw):
        ctx.fail('step %d %r: %s' % (step_no[0], case['ops'][step_no[0]] if step_no[0] < len(case['ops']) else None, msg),
                 kind=kind, n=n, origin=origin, **kw)

    def check_mem(what):
        got = bytes(wbuf)
        if got != bytes(mem):
            bad = [i for i in range(len(got)) if got[i] != mem[i]]
            fail('%s: memory differs from the model at byte offsets %r (element size %d, array occupies '
                 'elements %d..%d of the allocation)' % (what, bad[:12], size, guard, guard + n - 1),
                 memory=got.hex(), model=bytes(mem).hex())

    def value_bytes(seed):
        raw = (seed.to_bytes(8, 'little') * 2)[:size]
        if kind in ('float', 'double'):
            v = struct.unpack(fmt, raw)[0]
            if v != v:
                raw = struct.pack(fmt, 1.5)
        return raw

    def to_value(raw):
        """Python-level value that, stored into an element, must produce `raw`."""
        if kind == 'char':
            return raw
        if kind == 'ptr':
            return ffi.cast('void *', int.from_bytes(raw, 'little'))
        if kind == 'struct':
            t = ffi.new('struct s12 *')
            ffi.buffer(t)[:] = raw
            return t[0]
        return struct.unpack(fmt, raw)[0]

    def check_read(got, off_elems, what):
        raw = bytes(mem[off_elems * size:(off_elems + 1) * size])
        if kind == 'char':
            ok = got == raw and type(got) is bytes
        elif kind == 'ptr':
            ok = (isinstance(got, ffi.CData) and ffi.typeof(got) is item_t
                  and addr(got) == int.from_bytes(raw, 'little'))
        elif kind == 'struct':
            ok = (isinstance(got, ffi.CData) and ffi.typeof(got) is item_t
                  and addr(ffi.addressof(got)) == base + off_elems * size
                  and bytes(ffi.buffer(ffi.addressof(got))) == raw)
        else:
            exp = struct.unpack(fmt, raw)[0]
            if kind in ('float', 'double'):
                ok = type(got) is float and ((got != got and exp != exp) or
                                             (got == exp and struct.pack('<d', got) == struct.pack('<d', exp)))
            else:
                ok = got == exp and type(got) is int
        if not ok:
            fail('%s returned %r, model bytes %s' % (what, got, raw.hex()))

    def in_alloc(e):
        return 0 <= e < total

    def pick(pool, i):
        return pool[i % len(pool)]

    def allviews():
        return arrays + ptrs

    def ptr_of(v):
        """a plain pointer to the first element of view v (without using the operations under test)"""
        return ffi.cast(ptr_t, base + v.start * size)

    def add_ptr(cd, start, what):
        if not (isinstance(cd, ffi.CData) and ffi.typeof(cd) is ptr_t):
            fail('%s is %r, expected a %s' % (what, cd, ptr_t.cname))
        if addr(cd) != (base + start * size) % 2 ** 64:
            fail('%s is at %#x, expected %#x (base + %d * %d)' % (what, addr(cd), base + start * size, start, size))
        if len(ptrs) < 10:
            ptrs.append(_View(cd, start, None, True))

    def expect_index_error(fn, what):
        try:
            r = fn()
        except IndexError:
            stats['rejected'] = True
            return
        except (OverflowError, ValueError, TypeError, RuntimeError) as e:
            fail('%s raised %s (%s); the statement requires IndexError' % (what, type(e).__name__, e))
        fail('%s was accepted (returned %r); the statement requires IndexError' % (what, r))

    nops = len(case['ops'])
    for k, o in enumerate(case['ops']):
        step_no[0] = k
        name = o[0]

        if name in ('get', 'set', 'pget', 'pset'):
            v = pick(ptrs if (name[0] == 'p' and ptrs) else allviews(), o[1]); i = o[2]
            if name[0] == 'p' and v.length is None and total > 0 and abs(v.start) < 2 ** 50:
                # aim the pointer index at an element of the allocation (negative indices included)
                i = (i % total) - v.start
            name = name[-3:]
            if v.length is None:
                # pointer: no bounds, C precondition = stay inside the allocation
                if not in_alloc(v.start + i):
                    ctx.event('ptr-deref-outside-allocation-not-executed')
                    continue
                elif name == 'get':
                    check_read(v.cd[i], v.start + i, 'p[%d]' % i)
                    ctx.event('ptr-read')
                else:
                    raw = value_bytes(o[3])
                    v.cd[i] = to_value(raw)
                    mem[(v.start + i) * size:(v.start + i + 1) * size] = raw
                    stats['derived_write'] = True
                    ctx.event('ptr-write')
            else:
                accept = 0 <= i < v.length
                if name == 'get':
                    if accept:
                        check_read(v.cd[i], v.start + i, 'x[%d]' % i)
                        ctx.event('array-read-accepted')
                    else:
                        expect_index_error(lambda: v.cd[i], 'read of index %d of an array of length %d' % (i, v.length))
                        ctx.event('array-read-rejected:' + ('negative' if i < 0 else 'eq-length' if i == v.length else 'beyond'))
                else:
                    raw = value_bytes(o[3])
                    val = to_value(raw)
                    if accept:
                        v.cd[i] = val
                        mem[(v.start + i) * size:(v.start + i + 1) * size] = raw
                        if v.derived:
                            stats['derived_write'] = True
                        ctx.event('array-write-accepted')
                    else:
                        expect_index_error(lambda: v.cd.__setitem__(i, val),
                                           'write to index %d of an array of length %d' % (i, v.length))
                        ctx.event('array-write-rejected:' + ('negative' if i < 0 else 'eq-length' if i == v.length else 'beyond'))

        elif name in ('slice', 'setslice'):
            v = pick(arrays, o[1]); i, j, stp = o[2], o[3], o[4]
            ints = isinstance(i, int) and isinstance(j, int)
            overflow = any(isinstance(b, int) and not (SSIZE_MIN <= b <= SSIZE_MAX) for b in (i, j))
            if overflow and ctx.skip_known(KNOWN_SLICE_OVERFLOW):
                ctx.event('skipped:' + KNOWN_SLICE_OVERFLOW)
                continue
            accept = ints and stp is None and 0 <= i <= j <= v.length
            sl = slice(i, j, stp)
            why = ('bound-none' if not ints else 'step' if stp is not None else 'start>stop' if i > j
                   else 'negative' if i < 0 else 'stop>length' if j > v.length else 'ok')
            if name == 'slice':
                if not accept:
                    expect_index_error(lambda: v.cd[sl], 'slice [%r:%r:%r] of an array of length %d' % (i, j, stp, v.length))
                    ctx.event('slice-rejected:' + why)
                else:
                    r = v.cd[sl]
                    if not (isinstance(r, ffi.CData) and ffi.typeof(r).kind == 'array' and ffi.typeof(r).item is item_t):
                        fail('slice result %r is not an array of %s' % (r, item_t.cname))
                    if len(r) != j - i:
                        fail('len(x[%d:%d]) is %d' % (i, j, len(r)))
                    if addr(r) != base + (v.start + i) * size:
                        fail('x[%d:%d] starts at %#x, expected %#x' % (i, j, addr(r), base + (v.start + i) * size))
                    if ffi.sizeof(r) != (j - i) * size:
                        fail('sizeof(x[%d:%d]) is %d' % (i, j, ffi.sizeof(r)))
                    ctx.event('slice-accepted' + (':empty' if i == j else ':full' if (i, j) == (0, v.length) else
                                                  ':to-end' if j == v.length else ''))
                    if v.derived:
                        ctx.event('slice-of-view')
                    if len(arrays) < 10:
                        arrays.append(_View(r, v.start + i, j - i, True))
            else:
                srckind, delta, seeds = o[5], o[6], o[7]
                need = (j - i) if accept else (max(0, j - i) if ints and abs(j - i) < 64 else 2)
                cnt = max(0, need + delta)
                raws = [value_bytes(seeds[t % len(seeds)] ^ (t * 0x9e3779b97f4a7c15 & (2 ** 64 - 1))) for t in range(cnt)]
                overlap_src = None
                if srckind in ('bytes', 'bytearray') and kind != 'char':
                    srckind = 'list'
                if srckind == 'view':
                    w = v if o[8] is None else pick(arrays, o[8])
                    a = (i if isinstance(i, int) and abs(i) < 100 else 0) + o[9]
                    if w is not v:
                        a -= w.start - v.start           # same absolute position, seen from w
                    if 0 <= a and a + cnt <= w.length:
                        overlap_src = (w.start + a, cnt)
                        raws = [bytes(mem[(w.start + a + t) * size:(w.start + a + t + 1) * size]) for t in range(cnt)]
                        src = ffi.cast(ffi.getctype(T, '(*)[%d]' % cnt), base + (w.start + a) * size)[0]
                        # a 'T[cnt]' view aliasing elements of the same allocation (possibly overlapping the target)
                        if cnt % 2:
                            src = w.cd[a:a + cnt]
                    else:
                        srckind = 'list'
                if srckind == 'list':
                    src = [to_value(r) for r in raws]
                elif srckind == 'tuple':
                    src = tuple(to_value(r) for r in raws)
                elif srckind == 'iter':
                    src = iter([to_value(r) for r in raws])
                elif srckind == 'cdata':
                    src = ffi.new('%s[]' % T, cnt)
                    ffi.buffer(src)[:] = b''.join(raws)
                elif srckind == 'bytes':
                    src = b''.join(raws)
                elif srckind == 'bytearray':
                    src = bytearray(b''.join(raws))

                def assign():
                    v.cd[sl] = src
                if not accept:
                    expect_index_error(assign, 'slice assignment [%r:%r:%r] on an array of length %d' % (i, j, stp, v.length))
                    ctx.event('setslice-rejected:' + why)
                elif cnt == need:
                    assign()
                    lo = (v.start + i) * size
                    mem[lo:lo + need * size] = b''.join(raws)
                    if v.derived:
                        stats['derived_write'] = True
                    ctx.event('setslice-accepted:' + srckind)
                    if overlap_src is not None and need and overlap_src[0] < v.start + j and v.start + i < overlap_src[0] + cnt:
                        ctx.event('setslice-overlapping-source')
                else:
                    try:
                        assign()
                    except ValueError:
                        stats['rejected'] = True
                    else:
                        fail('slice assignment of %d values to a slice of length %d was accepted' % (cnt, need))
                    # unspecified which of the elements inside the slice were written: resynchronise them
                    lo, hi = (v.start + i) * size, (v.start + j) * size
                    mem[lo:hi] = bytes(wbuf)[lo:hi]
                    ctx.event('setslice-wrong-length:' + ('short' if cnt < need else 'long'))

        elif name in ('add', 'sub', 'radd'):
            v = pick(allviews(), o[1]); i = o[2]
            if name == 'add':
                r = v.cd + i
            elif name == 'radd':
                r = i + v.cd
            else:
                r = v.cd - i
            d = -i if name == 'sub' else i
            add_ptr(r, v.start + d, '%s %s %d' % ('array' if v.length is not None else 'pointer', name, i))
            back = r - ptr_of(v)
            if back != d or type(back) is not int:
                fail('(p%+d) - p is %r' % (d, back))
            if v.length is None:
                back2 = r - v.cd
                if back2 != d:
                    fail('(p%+d) - p is %r' % (d, back2))
            else:
                back3 = r - v.cd                    # pointer minus array
                if back3 != d:
                    fail('(x%+d) - x is %r' % (d, back3))
            ctx.event('arith-from-' + ('array' if v.length is not None else 'pointer'))
            # the same pointer seen as 'void *' / 'char *' moves in bytes (documented: void * arithmetic
            # works like char *)
            for bt in ('void *', 'char *'):
                bp = ffi.cast(bt, v.cd)
                br = (bp + i) if name == 'add' else (i + bp) if name == 'radd' else (bp - i)
                if ffi.typeof(br) is not ffi.typeof(bt) or addr(br) != (addr(bp) + d) % 2 ** 64:
                    fail('(%s)p %s %d is %r, p is %r' % (bt, name, i, br, bp))
                bback = br - bp
                if bback != d or type(bback) is not int:
                    fail('((%s)p%+d) - (%s)p is %r' % (bt, d, bt, bback))
                if abs(i) <= n + G:
                    same = ffi.cast(ptr_t, bp + d * size)
                    if not (same == r) or addr(same) != addr(r):
                        fail('(T *)((%s)p %+d*sizeof(T)) is %r but p%+d is %r' % (bt, d, same, d, r))
            ctx.event('arith-byte-pointers')
            if abs(i) > 100:
                ctx.event('arith-far-offset')

        elif name == 'diff':
            if not ptrs:
                ctx.event('diff-no-pointer-yet')
                continue
            a = pick(ptrs, o[1]); b = pick(allviews(), o[2])
            r = a.cd - b.cd
            if r != a.start - b.start or type(r) is not int:
                fail('pointer difference is %r, expected %d' % (r, a.start - b.start))
            ctx.event('diff-ptr-' + ('array' if b.length is not None else 'ptr'))

        elif name == 'addressof':
            v = pick(allviews(), o[1]); i = o[2]; f = ffis[o[3]]
            r = f.addressof(v.cd, i)
            if not (isinstance(r, ffi.CData) and ffi.typeof(r) is ptr_t):
                fail('addressof(x, %d) is %r, expected a %s' % (i, r, ptr_t.cname))
            s = v.cd + i
            if not (r == s) or addr(r) != addr(s) or addr(r) != (base + (v.start + i) * size) % 2 ** 64:
                fail('addressof(x, %d) is %r but x + %d is %r' % (i, r, i, s))
            if len(ptrs) < 10 and abs(i) < 100:
                ptrs.append(_View(r, v.start + i, None, True))
            ctx.event('addressof-' + o[3] + ('-array' if v.length is not None else '-pointer'))

        elif name == 'offsetof':
            i = o[1]; f = ffis[o[2]]
            r = f.offsetof(open_t, i)
            if r != i * ffi.sizeof(T) or type(r) is not int:
                fail("offsetof('%s[]', %d) is %r, expected %d" % (T, i, r, i * ffi.sizeof(T)))
            if o[2] == 'py' or kind != 'struct':
                r2 = f.offsetof('%s[]' % T, i)
                if r2 != i * size:
                    fail("offsetof('%s[]', %d) is %r, expected %d" % (T, i, r2, i * size))
            ctx.event('offsetof-' + o[2])

        elif name == 'ownptr':
            i = o[1]; raw = value_bytes(o[2])
            own = ffi.new(ptr_t)
            obuf = ffi.buffer(own)
            obuf[:] = raw
            val = to_value(value_bytes(o[2] ^ 0x5555555555555555))
            if i == 0:
                if o[3]:
                    own[0] = val
                    if bytes(obuf) != value_bytes(o[2] ^ 0x5555555555555555):
                        fail('owning pointer: p[0] = v stored %s' % bytes(obuf).hex())
                else:
                    got = own[0]
                    if kind == 'struct':
                        if bytes(ffi.buffer(ffi.addressof(got))) != raw or addr(ffi.addressof(got)) != addr(own):
                            fail('owning pointer: p[0] is %r' % (got,))
                    elif kind == 'ptr':
                        if addr(got) != int.from_bytes(raw, 'little'):
                            fail('owning pointer: p[0] is %r' % (got,))
                    elif kind == 'char':
                        if got != raw:
                            fail('owning pointer: p[0] is %r' % (got,))
                    else:
                        exp = struct.unpack(fmt, raw)[0]
                        if not (got == exp or (got != got and exp != exp)):
                            fail('owning pointer: p[0] is %r, expected %r' % (got, exp))
                ctx.event('ownptr-index-0')
            else:
                fn = (lambda: own.__setitem__(i, val)) if o[3] else (lambda: own[i])
                expect_index_error(fn, 'index %d on an owning %s' % (i, ptr_t.cname))
                if bytes(obuf) != raw:
                    fail('rejected index %d on an owning pointer changed its memory' % i)
                ctx.event('ownptr-index-nonzero-rejected')
        else:
            raise HarnessError('unknown op %r' % (o,))

        check_mem('after the operation')

    nontriv = stats['derived_write'] and stats['rejected']
    ctx.note((kind, n, origin, case['ops']), nontriv,
             ['history:nontrivial' if nontriv else 'history:trivial'])
    for key in ('histories_kind_' + kind, 'histories_origin_' + origin):
        ctx.extra[key] = ctx.extra.get(key, 0) + 1
    ctx.extra['steps_executed'] = ctx.extra.get('steps_executed', 0) + nops
