"""C17 -- cdata equality, ordering and hashing are mutually consistent.

Case: 2-8 object specs; every ordered pair (a, b) with at least one cdata is
evaluated.  Objects:
  prim   : ffi.cast(T, v) for every integer spelling, _Bool, 4 enums, char types,
           float, double, the complex types (v: G-INT / code point / G-FLOAT bits)
  ld     : a long double cdata (no Python value: only the first clause applies)
  py     : plain int / float / bool / 1-byte bytes / 1-char str / complex / other bytes,str
  ptr    : pointer-like cdata on one owned 256-byte block at byte offset k, seen as
           char* (blk+k), void*, int*, struct s_int*, int[3], char[5] (cast to array),
           struct s_int (p[0]), function pointer, p+0, or an element pointer of the array
  forged : pointer / array / function-pointer cdata at an arbitrary 64-bit address
  func   : real functions of the dlopen'ed typezoo

Oracles:
  (1) a == b  =>  hash(a) == hash(b), b in {a}, {a: 1}[b]
  (2) both pointer-like: the six operators give exactly what they give on the
      (unsigned) addresses, known by construction
  (3) a primitive cdata with Python value x (computed by the wrap / rounding models, not
      by cffi): the outcome (bool or exception type) of  a op b  equals that of
      x op y  (y = b's Python value, or b itself when b is not a primitive cdata), the
      reflected b op a likewise, and hash(a) == hash(x).
"""
import ctypes
from hypothesis import strategies as st
from vlib.core import Violation, HarnessError
from vlib import gen, typezoo, gfloat

ID = 'C17'
LEVEL = 'exploration'
RULE = ('One case = 2-8 objects, all ordered pairs with at least one cdata evaluated under ==, !=, <, <=, '
        '>, >=, hash, set/dict membership. Objects: primitive cdata ffi.cast(T, v) of all 47 integer '
        'spellings, 4 enums, 4 char types, float, double, 2 complex types (values from a small shared '
        'pool + G-INT / G-FLOAT / code points so that equal pairs are frequent), long double cdata, plain '
        'Python int/float/bool/bytes/str/complex, pointer-like cdata (pointer, array, struct, function '
        'pointer, p+0, element pointers) on a shared owned block at offsets 0..255 and forged at '
        'arbitrary 64-bit addresses, real function pointers. Oracle: addresses known by construction; '
        'Python value of a primitive cdata from the wrap / round-to-nearest models. An evaluation is one '
        'ordered pair; non-trivial = the pair is equal under an oracle, or mixes cdata with a plain value, '
        'or two primitive cdata of different types; distinct by (spec a, spec b).')
TECHNIQUE = 'property-based testing (Hypothesis) against address and value models'
LEVEL_TEXT = ('Random pairs over every primitive type and every pointer-like kind, biased towards equal '
              'values / shared addresses; each pair checks all six operators, hashing and container '
              'membership against models.  Finds violations, cannot establish absence.')
LEVEL_NOTE = ('Trusted: CPython comparison/hash semantics of int/float/bytes/str/complex as the reference, '
              'ctypes for the address of the owned block, the wrap/rounding models, Hypothesis.')
ASSUMPTIONS = ['pointer comparison is on unsigned 64-bit addresses (x86-64)',
               'long double cdata have no Python value: comparisons may raise NotImplementedError (documented)',
               'hash of NaN values is identity-based in CPython >= 3.10 and is not compared',
               'char32_t / wchar_t values are valid code points (others have no Python value)']
BUDGET = {'quick': 1200, 'thorough': 60000}
TIME = {'quick': 15, 'thorough': 600}
MIN_PER_SHARD = 20

INT_T = [t.name for t in typezoo.TYPES if t.kind in ('int', 'bool', 'enum')]
CHAR_T = ['char', 'wchar_t', 'char16_t', 'char32_t']
PTR_VIEWS = ['char*', 'void*', 'int*', 'struct*', 'int[3]', 'char[5]', 'struct', 'funcptr', 'p+0', 'elem',
             'long double*', 'void(*)(void)']
FORGED_VIEWS = ['void *', 'char *', 'int *', 'struct s_int *', 'int(*)(int)', 'int[3]', 'void(*)(void)']
FUNCS = ['id_int', 'id_long', 'get_int', 'id_int']
OPS = ['==', '!=', '<', '<=', '>', '>=']
BLOCK = 256


class State(object):
    def __init__(self, zoo):
        self.zoo = zoo
        self.blocks = {}

    def flavour(self, k):
        if k == 0:
            return self.zoo.inline()
        if k == 1:
            return self.zoo.abi()
        return self.zoo.api.ffi, self.zoo.api.lib

    def block(self, k):
        if k not in self.blocks:
            ffi, lib = self.flavour(k)
            blk = ffi.new('char[]', BLOCK + 64)
            base = ctypes.addressof(ctypes.c_char.from_buffer(ffi.buffer(blk)))
            self.blocks[k] = (blk, base)
        return self.blocks[k]


def setup(ctx):
    return State(typezoo.get())


# ------------------------------------------------------------------ models

def _int_model(zoo, t, n):
    info = typezoo.BY_NAME[t]
    size, signed = zoo.facts[t]
    if info.kind == 'bool':
        return n != 0
    m = n % (1 << (8 * size))
    if signed and m >= 1 << (8 * size - 1):
        m -= 1 << (8 * size)
    return m


def _narrow(b):
    """binary64 pattern -> the double a float cdata converts to (None: NaN)."""
    fb = gfloat.model_narrow(b)
    return None if fb is None else gfloat.f32_from_bits(fb)


NAN = float('nan')


class Obj(object):
    __slots__ = ('spec', 'value', 'cat', 'pyval', 'addr', 'has_nan', 'label')
    # cat: 'prim' (pyval valid), 'ld', 'py', 'ptr' (addr valid)


def build(S, ffi, lib, flav, spec):
    zoo = S.zoo
    o = Obj()
    o.spec = spec
    o.has_nan = False
    o.addr = None
    o.pyval = None
    kind = spec[0]
    if kind == 'prim':
        t, payload = spec[1], spec[2]
        info = typezoo.BY_NAME.get(t)
        if info is None:
            raise HarnessError('unknown type %r' % (t,))
        o.cat = 'prim'
        o.label = 'prim-' + info.kind
        if info.kind in ('int', 'bool', 'enum'):
            o.value = ffi.cast(t, payload)
            o.pyval = _int_model(zoo, t, payload)
        elif info.kind == 'char':
            limit = {'char': 0xff, 'char16_t': 0xffff}.get(t, 0x10ffff)
            if not (0 <= payload <= limit):
                raise HarnessError('code %r out of range for %s' % (payload, t))
            o.value = ffi.cast(t, payload)
            o.pyval = bytes([payload]) if t == 'char' else chr(payload)
        elif info.kind == 'float':
            x = gfloat.from_bits(payload)
            o.value = ffi.cast(t, x)
            if t == 'float':
                y = _narrow(payload)
                o.pyval = NAN if y is None else y
            else:
                o.pyval = x
            o.has_nan = o.pyval != o.pyval
        elif info.kind == 'complex':
            re, im = gfloat.from_bits(payload[0]), gfloat.from_bits(payload[1])
            o.value = ffi.cast(t, complex(re, im))
            if t.startswith('float'):
                re, im = _narrow(payload[0]), _narrow(payload[1])
                re = NAN if re is None else re
                im = NAN if im is None else im
            o.pyval = complex(re, im)
            o.has_nan = re != re or im != im
        else:
            raise HarnessError('not a primitive with a Python value: %r' % (t,))
    elif kind == 'ld':
        o.cat = 'ld'
        o.label = 'long-double'
        o.value = ffi.cast('long double', gfloat.from_bits(spec[1]))
    elif kind == 'py':
        o.cat = 'py'
        k, payload = spec[1], spec[2]
        o.label = 'py-' + k
        if k == 'int':
            o.value = payload
        elif k == 'float':
            o.value = gfloat.from_bits(payload)
        elif k == 'bool':
            o.value = bool(payload)
        elif k == 'bytes':
            o.value = bytes(payload)
        elif k == 'str':
            o.value = ''.join(chr(c) for c in payload)
        elif k == 'complex':
            o.value = complex(gfloat.from_bits(payload[0]), gfloat.from_bits(payload[1]))
        elif k == 'none':
            o.value = None
        else:
            raise HarnessError('unknown python kind %r' % (k,))
        v = o.value
        o.has_nan = (isinstance(v, float) and v != v) or (isinstance(v, complex) and v != v)
    elif kind == 'ptr':
        view, off = spec[1], spec[2]
        if not (0 <= off < BLOCK):
            raise HarnessError('offset out of the block')
        blk, base = S.block(flav)
        o.cat = 'ptr'
        o.addr = base + off
        o.label = 'ptr-' + view
        p = blk + off
        if view == 'char*':
            o.value = p
        elif view == 'void*':
            o.value = ffi.cast('void *', p)
        elif view == 'int*':
            o.value = ffi.cast('int *', p)
        elif view == 'long double*':
            o.value = ffi.cast('long double *', p)
        elif view == 'struct*':
            o.value = ffi.cast('struct s_int *', p)
        elif view == 'int[3]':
            o.value = ffi.cast('int[3]', p)
        elif view == 'char[5]':
            o.value = ffi.cast('char[5]', p)
        elif view == 'struct':
            o.value = ffi.cast('struct s_int *', p)[0]
        elif view == 'funcptr':
            o.value = ffi.cast('int(*)(int)', p)
        elif view == 'void(*)(void)':
            o.value = ffi.cast('void(*)(void)', p)
        elif view == 'p+0':
            o.value = ffi.cast('short *', p) + 0
        elif view == 'elem':
            # &blk[off] through addressof / pointer arithmetic from the start of the block
            o.value = ffi.addressof(blk, off)
        else:
            raise HarnessError('unknown view %r' % (view,))
        if view == 'char*' and off == 0:
            o.value = blk                      # the owning array object itself
    elif kind == 'forged':
        o.cat = 'ptr'
        o.addr = spec[2] % (1 << 64)
        o.label = 'forged'
        o.value = ffi.cast(FORGED_VIEWS[spec[1]], spec[2])
    elif kind == 'func':
        name = FUNCS[spec[1]]
        o.cat = 'ptr'
        o.label = 'function'
        dlib = zoo.inline()[1] if flav == 2 else lib
        o.value = getattr(dlib, name)
        o.addr = ctypes.cast(getattr(zoo.cdll, name), ctypes.c_void_p).value
    else:
        raise HarnessError('unknown object kind %r' % (kind,))
    return o


# ------------------------------------------------------------------ strategies

def strategy(ctx):
    zoo = ctx.state.zoo
    pool_int = st.sampled_from([0, 1, 2, 3, 65, 97, 127, 128, 255, 256, -1, -128, 2 ** 31 - 1, 2 ** 31, 2 ** 32,
                                2 ** 53, 2 ** 53 + 1, 2 ** 63 - 1, 2 ** 63, 2 ** 64 - 1, -2 ** 63, 0x1f600])
    any_int = st.one_of(pool_int, pool_int, gen.ints_for_range(-2 ** 63, 2 ** 64 - 1), st.integers(-300, 300))
    fbits = gfloat.double_bits()
    pool_float = st.one_of(pool_int.map(lambda n: gfloat.to_bits(float(n))),
                           st.sampled_from([gfloat.to_bits(x) for x in
                                            (0.0, -0.0, 0.5, 1.5, 0.1, 65.0, 1e300, float('inf'), float('nan'),
                                             16777217.0, 9007199254740993.0)]))
    any_float = st.one_of(pool_float, pool_float, fbits)
    code = st.one_of(st.sampled_from([0, 1, 65, 97, 127, 128, 255]), st.integers(0, 255))
    wcode16 = st.one_of(code, st.sampled_from([0x100, 0xd800, 0xdfff, 0xffff]), st.integers(0, 0xffff))
    wcode32 = st.one_of(wcode16, st.sampled_from([0x10000, 0x1f600, 0x10ffff]), st.integers(0, 0x10ffff))
    offs = st.one_of(st.sampled_from([0, 0, 1, 4, 8, 16, 255]), st.integers(0, BLOCK - 1))
    addr = st.one_of(st.sampled_from([0, 1, 8, 2 ** 63 - 1, 2 ** 63, 2 ** 63 + 8, 2 ** 64 - 1, 2 ** 32, 4096]),
                     st.integers(0, 2 ** 64 - 1), st.integers(4090, 4100))
    specs = {
        'int': st.tuples(st.just('prim'), st.sampled_from(INT_T + ['_Bool'] * 3), any_int),
        'char': st.one_of(st.tuples(st.just('prim'), st.just('char'), code),
                          st.tuples(st.just('prim'), st.just('char16_t'), wcode16),
                          st.tuples(st.just('prim'), st.sampled_from(['wchar_t', 'char32_t']), wcode32)),
        'float': st.tuples(st.just('prim'), st.sampled_from(['float', 'double']), any_float),
        'complex': st.tuples(st.just('prim'), st.sampled_from(['float _Complex', 'double _Complex']),
                             st.tuples(any_float, st.one_of(st.just(0), any_float)).map(list)),
        'ld': st.tuples(st.just('ld'), any_float),
        'pyint': st.tuples(st.just('py'), st.just('int'), any_int),
        'pyfloat': st.tuples(st.just('py'), st.just('float'), any_float),
        'pybool': st.tuples(st.just('py'), st.just('bool'), st.integers(0, 1)),
        'pybytes': st.tuples(st.just('py'), st.just('bytes'),
                             st.one_of(code.map(lambda c: [c]), st.lists(code, max_size=3))),
        'pystr': st.tuples(st.just('py'), st.just('str'),
                           st.one_of(wcode32.map(lambda c: [c]), st.lists(wcode16, max_size=3))),
        'pycomplex': st.tuples(st.just('py'), st.just('complex'),
                               st.tuples(any_float, st.one_of(st.just(0), any_float)).map(list)),
        'pynone': st.tuples(st.just('py'), st.just('none'), st.just(0)),
        'ptr': st.tuples(st.just('ptr'), st.sampled_from(PTR_VIEWS), offs),
        'forged': st.tuples(st.just('forged'), st.integers(0, len(FORGED_VIEWS) - 1), addr),
        'func': st.tuples(st.just('func'), st.integers(0, len(FUNCS) - 1)),
    }
    weights = (['int'] * 6 + ['char'] * 3 + ['float'] * 4 + ['complex'] * 2 + ['ld'] + ['pyint'] * 3 +
               ['pyfloat'] * 2 + ['pybool', 'pybytes', 'pybytes', 'pystr', 'pystr', 'pycomplex', 'pynone'] +
               ['ptr'] * 6 + ['forged'] * 3 + ['func'])
    spec = st.sampled_from(weights).flatmap(lambda k: specs[k]).map(list)
    raw = st.fixed_dictionaries({'flav': st.integers(0, 2),
                                 'objs': st.lists(spec, min_size=2, max_size=8),
                                 'links': st.lists(st.tuples(st.integers(0, 7), st.integers(0, 7)), max_size=10)})
    return raw.map(_link)


def _number_of(spec):
    """The integer an object spec stands for (None if it is not integer-like)."""
    if spec[0] == 'prim' and typezoo.BY_NAME[spec[1]].kind in ('int', 'enum', 'char'):
        return spec[2]
    if spec[0] == 'py' and spec[1] == 'int':
        return spec[2]
    if spec[0] == 'py' and spec[1] in ('bytes', 'str') and len(spec[2]) == 1:
        return spec[2][0]
    return None


def _fbits_of(spec):
    if spec[0] == 'prim' and spec[1] in ('float', 'double'):
        return spec[2]
    if spec[0] == 'py' and spec[1] == 'float':
        return spec[2]
    if spec[0] == 'ld':
        return spec[1]
    return None


def _link(case):
    """Make some objects of the case carry the value / address of another one (in the
    representation of their own kind), so that equal pairs across types are frequent.
    The result is a plain explicit case; 'links' does not survive."""
    objs = [list(o) for o in case['objs']]
    n = len(objs)
    for i, j in case['links']:
        src, dst = objs[i % n], objs[j % n]
        if src is dst:
            continue
        num, fb = _number_of(src), _fbits_of(src)
        if num is None and fb is not None:
            x = gfloat.from_bits(fb)
            if x == x and abs(x) < 2.0 ** 80 and x == int(x):
                num = int(x)
        if fb is None and num is not None and abs(num) < 2 ** 1000:
            fb = gfloat.to_bits(float(num))
        k = dst[0]
        if k == 'prim':
            kind = typezoo.BY_NAME[dst[1]].kind
            if kind in ('int', 'bool', 'enum') and num is not None:
                dst[2] = num
            elif kind == 'char' and num is not None:
                limit = {'char': 0xff, 'char16_t': 0xffff}.get(dst[1], 0x10ffff)
                if 0 <= num <= limit:
                    dst[2] = num
            elif kind == 'float' and fb is not None:
                dst[2] = fb
            elif kind == 'complex' and fb is not None:
                dst[2] = [fb, 0]
        elif k == 'ld' and fb is not None:
            dst[1] = fb
        elif k == 'py':
            if dst[1] == 'int' and num is not None:
                dst[2] = num
            elif dst[1] == 'float' and fb is not None:
                dst[2] = fb
            elif dst[1] == 'complex' and fb is not None:
                dst[2] = [fb, 0]
            elif dst[1] == 'bytes' and num is not None and 0 <= num <= 255:
                dst[2] = [num]
            elif dst[1] == 'str' and num is not None and 0 <= num <= 0x10ffff:
                dst[2] = [num]
            elif dst[1] == 'bool' and num in (0, 1):
                dst[2] = num
        elif k == 'ptr' and src[0] == 'ptr':
            dst[2] = src[2]
        elif k == 'forged' and src[0] == 'forged':
            dst[2] = src[2]
    return {'flav': case['flav'], 'objs': objs}


# ------------------------------------------------------------------ property

def _outcome(op, a, b):
    try:
        if op == '==':
            r = a == b
        elif op == '!=':
            r = a != b
        elif op == '<':
            r = a < b
        elif op == '<=':
            r = a <= b
        elif op == '>':
            r = a > b
        else:
            r = a >= b
    except TypeError:
        return ('exc', 'TypeError')
    except NotImplementedError:
        return ('exc', 'NotImplementedError')
    return ('ok', r)


def _addr_outcome(op, x, y):
    return ('ok', {'==': x == y, '!=': x != y, '<': x < y, '<=': x <= y, '>': x > y, '>=': x >= y}[op])


def prop(case, ctx):
    S = ctx.state
    flav = case['flav']
    ffi, lib = S.flavour(flav)
    objs = [build(S, ffi, lib, flav, spec) for spec in case['objs']]
    # a second, separately constructed instance of every object (a vs. its twin)
    twins = [build(S, ffi, lib, flav, spec) for spec in case['objs']]
    for i, a in enumerate(objs):
        if a.cat == 'prim' and not a.has_nan:
            ha = hash(a.value)
            if ha != hash(a.pyval):
                ctx.fail('hash(%r) == %d but hash(%r) == %d' % (a.value, ha, a.pyval, hash(a.pyval)),
                         spec=a.spec)
        for j in range(len(objs)):
            b = twins[j] if i == j else objs[j]
            if a.cat == 'py' and b.cat == 'py':
                continue
            _pair(ctx, a, b)


def _pair(ctx, a, b):
    A, B = a.value, b.value
    equal_by_oracle = False
    eq = _outcome('==', A, B)
    if eq[0] == 'exc':
        if eq[1] == 'NotImplementedError' and 'ld' in (a.cat, b.cat) and \
                a.cat in ('ld', 'prim', 'py') and b.cat in ('ld', 'prim', 'py'):
            ctx.note((a.spec, b.spec), False, ['pair=%s/%s' % (a.cat, b.cat), 'long-double-not-comparable'])
            return
        ctx.fail('%r == %r raised %s' % (A, B, eq[1]), a=a.spec, b=b.spec)
    if type(eq[1]) is not bool:
        ctx.fail('%r == %r returned %r (not a bool)' % (A, B, eq[1]), a=a.spec, b=b.spec)

    # (2) pointer-likes compare as their addresses
    if a.cat == 'ptr' and b.cat == 'ptr':
        for op in OPS:
            got, want = _outcome(op, A, B), _addr_outcome(op, a.addr, b.addr)
            if got != want:
                ctx.fail('%r %s %r gives %r; addresses %#x %s %#x gives %r'
                         % (A, op, B, got, a.addr, op, b.addr, want), a=a.spec, b=b.spec)
        equal_by_oracle = a.addr == b.addr

    # (3) primitive cdata compare as the Python value they convert to
    if a.cat == 'prim':
        y = b.pyval if b.cat == 'prim' else B
        for op in OPS:
            got, want = _outcome(op, A, B), _outcome(op, a.pyval, y)
            if got != want:
                ctx.fail('%r %s %r gives %r; the Python values %r %s %r give %r'
                         % (A, op, B, got, a.pyval, op, y, want), a=a.spec, b=b.spec)
            if b.cat != 'prim':
                # reflected: b on the left
                got, want = _outcome(op, B, A), _outcome(op, B, a.pyval)
                if got != want:
                    ctx.fail('%r %s %r gives %r; with the Python value %r %s %r gives %r'
                             % (B, op, A, got, B, op, a.pyval, want), a=a.spec, b=b.spec)
        if b.cat in ('prim', 'py'):
            equal_by_oracle = _outcome('==', a.pyval, y) == ('ok', True)
    elif b.cat == 'prim':
        # a is py / ptr / ld on the left, primitive cdata on the right
        for op in OPS:
            got, want = _outcome(op, A, B), _outcome(op, A, b.pyval)
            if a.cat == 'ld' and 'NotImplementedError' in (got[1], want[1]):
                continue
            if got != want:
                ctx.fail('%r %s %r gives %r; with the Python value %r %s %r gives %r'
                         % (A, op, B, got, A, op, b.pyval, want), a=a.spec, b=b.spec)
        if a.cat == 'py':
            equal_by_oracle = _outcome('==', A, b.pyval) == ('ok', True)

    # (1) equality implies equal hashes and container membership
    if eq[1] is True:
        ha, hb = hash(A), hash(B)
        if ha != hb:
            ctx.fail('%r == %r but hash %d != %d' % (A, B, ha, hb), a=a.spec, b=b.spec)
        if B not in {A} or {A: 1}.get(B) != 1:
            ctx.fail('%r == %r but set/dict membership disagrees' % (A, B), a=a.spec, b=b.spec)
    elif equal_by_oracle:
        ctx.fail('%r == %r is False but the oracle says they are equal' % (A, B), a=a.spec, b=b.spec)
    mixed = (a.cat == 'py') != (b.cat == 'py')
    difftype = a.cat == 'prim' and b.cat == 'prim' and a.spec[1] != b.spec[1]
    ctx.note((a.spec, b.spec), bool(eq[1]) or equal_by_oracle or mixed or difftype,
             ['pair=%s/%s' % (a.cat, b.cat), 'a=' + a.label,
              ('equal-different-spec' if a.spec != b.spec else 'equal-twin') if eq[1] else 'unequal'])
