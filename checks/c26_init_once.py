"""C26 -- ffi.init_once(f, tag) under any interleaving.

Python FFI (cffi.api.FFI.init_once): a deterministic scheduler owns the
interleaving.  Real threads run one at a time; schedule points are every source
line of FFI.init_once (sys.settrace 'line' events in that code object), every
operation of the lock that init_once allocates (cffi.api.allocate_lock is replaced
by a simulated lock whose blocking is known to the scheduler), and initialiser
entry/exit.  Which runnable thread continues at each point is part of the
generated case, so a failing interleaving replays exactly and shrinks.

C FFI (_cffi_backend.FFI.init_once, also through the ffi of a generated
out-of-line module): the harness gates the points it can intercept (call entry,
initialiser entry/exit, Python-level __hash__/__eq__ of the tag); a thread that
does not reach its next gate within a grace period is taken to be blocked in the C
lock.  The oracle is an invariant of the event trace and therefore sound for
whatever interleaving really happened.
"""
import sys, threading, time, itertools
from hypothesis import strategies as st
from vlib.core import Violation, HarnessError

ID = 'C26'
LEVEL = 'exploration'
TECHNIQUE = 'schedule-owning PBT: Hypothesis-generated interleavings executed by a deterministic line-level scheduler (Python FFI) and a gate-based scheduler (C FFI), trace checked against a specification automaton; preemption-bounded schedule enumeration'
RULE = ('Case = 2-3 threads x 1-3 init_once calls each (1-2 tags; each initialiser returns a unique value or '
        'raises) x a schedule (random pick list, or preemption-bounded switch points). Python FFI: every line '
        'of init_once and every lock operation is a schedule point. C FFI: gates at call entry, initialiser '
        'entry/exit and tag __hash__/__eq__. pre(): enumeration of all schedules with <=2 preemptions for '
        '2 threads x 1 tag (ok/raise combinations). Oracle: trace automaton (<=1 initialiser active per tag, '
        '<=1 normal completion, all normal returns equal it, no start after it, own exception propagated and '
        'nothing cached, no deadlock). Non-trivial = two calls on the same tag overlap in the trace (second '
        'call begins before the first returns); distinct by (program, schedule).')
LEVEL_TEXT = ('Controlled-schedule exploration of the real implementations: exact line-granularity interleavings for the '
              'Python implementation (replayable), gate-granularity for the C implementation; no exhaustive claim '
              'beyond the preemption-bounded enumeration reported in the evidence.')
LEVEL_NOTE = ('Trusted: the scheduler (only one managed thread runs at a time), the simulated lock standing in for '
              'cffi.lock.allocate_lock (same acquire/release/context-manager protocol), CPython GIL build. '
              'Interleavings inside the C function other than at the gates are sampled by real scheduling only. '
              'Liveness is decided by "no runnable thread while some are unfinished" (Python leg) and a 30 s '
              'no-progress deadline with all gates open (C leg).')
ASSUMPTIONS = ['GIL build of CPython 3.12', 'simulated lock models cffi.lock.allocate_lock (non-reentrant mutex)']
BUDGET = {'quick': 1600, 'thorough': 160000}
TIME = {'quick': 30, 'thorough': 900}
MIN_PER_SHARD = 50


# ------------------------------------------------------------------ strategy

def strategy(ctx):
    @st.composite
    def case(draw):
        nthreads = draw(st.integers(2, 3))
        ntags = draw(st.sampled_from([1, 1, 1, 2]))
        threads = []
        for t in range(nthreads):
            calls = []
            for c in range(draw(st.integers(1, 3 if nthreads == 2 else 2))):
                calls.append([draw(st.integers(0, ntags - 1)),
                              draw(st.sampled_from(['ret', 'ret', 'raise']))])
            threads.append(calls)
        impl = draw(st.sampled_from(['py', 'py', 'py', 'c', 'cmod']))
        if impl != 'py' and draw(st.booleans()):
            sched = {'kind': 'macro', 'picks': draw(st.lists(st.integers(0, nthreads - 1), min_size=2, max_size=12))}
        elif draw(st.booleans()):
            sched = {'kind': 'random', 'picks': draw(st.lists(st.integers(0, 5), max_size=150))}
        else:
            sched = {'kind': 'preempt',
                     'switch_at': sorted(draw(st.lists(st.integers(0, 120), max_size=4))),
                     'order': draw(st.lists(st.integers(0, nthreads - 1), min_size=1, max_size=6))}
        return {'impl': impl, 'threads': threads, 'sched': sched}
    return case()


# ------------------------------------------------------------------ trace oracle

class InitErr(Exception):
    pass


def check_trace(events, ctx, case):
    """events: list of (kind, tid, callidx, tag, payload)"""
    active = {}         # tag -> (tid, callidx) of running initialiser
    completed = {}      # tag -> value
    raised_own = set()  # (tid, callidx) whose own f raised
    ran_own = set()
    open_calls = {}     # (tid, callidx) -> tag
    overlap = False
    for ev in events:
        kind, tid, ci, tag, payload = ev
        if kind == 'call_begin':
            if any(t == tag for t in open_calls.values()):
                overlap = True
            open_calls[(tid, ci)] = tag
        elif kind == 'f_start':
            if tag in active:
                ctx.fail('two initialisers active at once for tag %r' % (tag,), events=events)
            if tag in completed:
                ctx.fail('an initialiser started after a normal completion for tag %r' % (tag,), events=events)
            active[tag] = (tid, ci)
            ran_own.add((tid, ci))
        elif kind == 'f_end':
            if active.get(tag) != (tid, ci):
                ctx.fail('initialiser end without matching start', events=events)
            del active[tag]
            if tag in completed:
                ctx.fail('two initialisers completed normally for tag %r' % (tag,), events=events)
            completed[tag] = payload
        elif kind == 'f_raise':
            if active.get(tag) != (tid, ci):
                ctx.fail('initialiser raise without matching start', events=events)
            del active[tag]
            raised_own.add((tid, ci))
        elif kind == 'call_return':
            open_calls.pop((tid, ci), None)
            if (tid, ci) in raised_own:
                ctx.fail('call whose own initialiser raised returned normally (%r)' % (payload,), events=events)
            if tag not in completed:
                ctx.fail('call returned %r although no initialiser completed for tag %r' % (payload, tag),
                         events=events)
            if completed[tag] != payload:
                ctx.fail('call returned %r, the completed initialiser returned %r' % (payload, completed[tag]),
                         events=events)
        elif kind == 'call_raise':
            open_calls.pop((tid, ci), None)
            if (tid, ci) not in raised_own:
                ctx.fail('call raised %s although its own initialiser did not raise' % (payload,), events=events)
            if payload != 'InitErr:%d.%d' % (tid, ci):
                ctx.fail('call raised %s instead of its own initialiser\'s exception' % (payload,), events=events)
        elif kind == 'deadlock':
            ctx.fail('no call can make progress although no initialiser is blocked (%s)' % (payload,),
                     events=events)
    return overlap


# ------------------------------------------------------------------ Python FFI leg

class Sched(object):
    def __init__(self, nthreads, policy):
        self.cv = threading.Condition()
        self.current = None
        self.state = dict((t, 'new') for t in range(nthreads))
        self.blocked_on = dict((t, None) for t in range(nthreads))
        self.policy = policy
        self.events = []
        self.steps = 0
        self.local = threading.local()
        self.failed = None

    def tid(self):
        return getattr(self.local, 'tid', None)

    def yield_point(self):
        tid = self.tid()
        if tid is None:
            return
        with self.cv:
            self.current = None
            self.cv.notify_all()
            while self.current != tid:
                self.cv.wait()

    def finish(self, tid):
        with self.cv:
            self.state[tid] = 'done'
            self.current = None
            self.cv.notify_all()

    def run(self):
        last = None
        while True:
            with self.cv:
                deadline = time.time() + 60
                while self.current is not None:
                    self.cv.wait(1.0)
                    if time.time() > deadline:
                        raise HarnessError('scheduler: managed thread did not reach a schedule point in 60 s')
                runnable = [t for t in sorted(self.state) if self.state[t] == 'ready' and
                            not (self.blocked_on[t] is not None and self.blocked_on[t].held)]
                if not runnable:
                    if all(s == 'done' for s in self.state.values()):
                        return
                    self.events.append(('deadlock', -1, -1, None,
                                        'states=%r' % (sorted(self.state.items()),)))
                    return
                pick = self.policy(self.steps, runnable, last)
                self.steps += 1
                last = pick
                self.current = pick
                self.cv.notify_all()


class SimLock(object):
    """stands in for cffi.lock.allocate_lock(): a non-reentrant mutex whose
    blocking is visible to the scheduler."""
    sched = None

    def __init__(self):
        self.held = False

    def acquire(self, blocking=True, timeout=-1):
        s = SimLock.sched
        if s is None or s.tid() is None:
            self.held = True
            return True
        s.yield_point()
        while self.held:
            s.blocked_on[s.tid()] = self
            s.yield_point()
        s.blocked_on[s.tid()] = None
        self.held = True
        return True

    def release(self):
        self.held = False
        s = SimLock.sched
        if s is not None and s.tid() is not None:
            s.yield_point()

    def locked(self):
        return self.held

    def __enter__(self):
        self.acquire()
        return self

    def __exit__(self, *a):
        self.release()


def make_policy(sched_desc, nthreads):
    if sched_desc['kind'] in ('random', 'macro'):
        picks = sched_desc['picks']

        def policy(step, runnable, last):
            if step < len(picks):
                return runnable[picks[step] % len(runnable)]
            return runnable[0] if last not in runnable else last
        return policy
    switch_at = list(sched_desc['switch_at'])
    order = [o % nthreads for o in sched_desc['order']]
    st_ = {'pos': 0}

    def policy(step, runnable, last):
        want = order[st_['pos'] % len(order)]
        while switch_at and step >= switch_at[0]:
            switch_at.pop(0)
            st_['pos'] += 1
            want = order[st_['pos'] % len(order)]
        if want in runnable:
            return want
        if last in runnable:
            return last
        return runnable[0]
    return policy


def run_python_leg(case, ctx):
    import cffi
    import cffi.api as api
    ffi = cffi.FFI()
    nthreads = len(case['threads'])
    sched = Sched(nthreads, make_policy(case['sched'], nthreads))
    code = api.FFI.init_once.__code__

    def local_trace(frame, event, arg):
        if event == 'line':
            sched.yield_point()
        return local_trace

    def tracer(frame, event, arg):
        if event == 'call' and frame.f_code is code:
            return local_trace
        return None

    def body(tid, calls):
        sched.local.tid = tid
        with sched.cv:
            sched.state[tid] = 'ready'
            sched.cv.notify_all()
            while sched.current != tid:
                sched.cv.wait()
        sys.settrace(tracer)
        try:
            for ci, (tag, beh) in enumerate(calls):
                def f(tid=tid, ci=ci, tag=tag, beh=beh):
                    sched.events.append(('f_start', tid, ci, tag, None))
                    sched.yield_point()
                    if beh == 'raise':
                        sched.events.append(('f_raise', tid, ci, tag, None))
                        raise InitErr('%d.%d' % (tid, ci))
                    val = 'v%d.%d' % (tid, ci)
                    sched.events.append(('f_end', tid, ci, tag, val))
                    return val
                sched.events.append(('call_begin', tid, ci, tag, None))
                try:
                    r = ffi.init_once(f, 'tag%d' % tag)
                except InitErr as e:
                    sched.events.append(('call_raise', tid, ci, tag, 'InitErr:%s' % e))
                except BaseException as e:
                    sched.events.append(('call_raise', tid, ci, tag, '%s:%s' % (type(e).__name__, e)))
                else:
                    sched.events.append(('call_return', tid, ci, tag, r))
                sched.yield_point()
        finally:
            sys.settrace(None)
            sched.finish(tid)

    saved = api.allocate_lock
    SimLock.sched = sched
    api.allocate_lock = SimLock
    threads = []
    try:
        for tid, calls in enumerate(case['threads']):
            th = threading.Thread(target=body, args=(tid, calls))
            th.daemon = True
            threads.append(th)
            th.start()
        # wait until every thread is parked at its first point
        with sched.cv:
            while any(s == 'new' for s in sched.state.values()):
                sched.cv.wait(1.0)
        sched.run()
    finally:
        api.allocate_lock = saved
        SimLock.sched = None
    deadlocked = any(e[0] == 'deadlock' for e in sched.events)
    if not deadlocked:
        for th in threads:
            th.join(30)
            if th.is_alive():
                raise HarnessError('managed thread did not finish')
    return sched.events, sched.steps


# ------------------------------------------------------------------ C FFI leg

def _thread_sleeping(native_id):
    """True iff the OS thread is in state S (sleeping): used to tell "blocked in the C
    lock" from "still running towards its next gate"."""
    try:
        with open('/proc/self/task/%d/stat' % native_id) as f:
            st_ = f.read()
        return st_[st_.rindex(')') + 2] == 'S'
    except (OSError, ValueError, IndexError):
        return False


class Gates(object):
    """Threads stop at gates; the driver opens one thread's gate at a time and
    waits until that thread parks at its next gate, finishes, or is seen sleeping
    outside a gate (then it is taken to be blocked in the C lock).  A wrong guess
    only changes which interleaving is explored, never the verdict."""

    def __init__(self, nthreads, grace):
        self.cv = threading.Condition()
        self.parked = dict((t, False) for t in range(nthreads))
        self.where = dict((t, None) for t in range(nthreads))
        self.tokens = dict((t, 0) for t in range(nthreads))
        self.done = dict((t, False) for t in range(nthreads))
        self.native = dict((t, None) for t in range(nthreads))
        self.free_run = False
        self.local = threading.local()
        self.events = []
        self.grace = grace
        self.progress = 0

    def gate(self, kind='hash'):
        tid = getattr(self.local, 'tid', None)
        if tid is None:
            return
        with self.cv:
            self.progress += 1
            if self.free_run:
                return
            self.parked[tid] = True
            self.where[tid] = kind
            self.cv.notify_all()
            while self.tokens[tid] == 0 and not self.free_run:
                self.cv.wait()
            if self.tokens[tid] > 0:
                self.tokens[tid] -= 1
            self.parked[tid] = False

    def open(self, tid):
        """-> 'parked' | 'done' | 'blocked' | 'noop'"""
        with self.cv:
            if self.done[tid]:
                return 'noop'
            if not self.parked[tid]:
                return 'noop'     # blocked inside C (lock) or still running: nothing to open
            self.tokens[tid] += 1
            self.cv.notify_all()
            end = time.time() + self.grace
            sleeping = 0
            # wait until it consumed the token and parked again / finished / blocks in C
            while True:
                if self.done[tid]:
                    return 'done'
                if self.tokens[tid] == 0 and self.parked[tid]:
                    return 'parked'
                if time.time() >= end:
                    return 'blocked'
                self.cv.wait(0.001)        # releases the GIL: the thread can run if it is able to
                if self.tokens[tid] == 0 and not self.parked[tid] and not self.done[tid] \
                        and self.native[tid] and _thread_sleeping(self.native[tid]):
                    sleeping += 1
                    if sleeping >= 3:
                        return 'blocked'
                else:
                    sleeping = 0

    def advance(self, tid):
        """macro step: let the thread run until it is inside an initialiser, blocked, or done"""
        first = True
        for _ in range(40):
            with self.cv:
                if self.done[tid] or not self.parked[tid]:
                    return
                if self.where[tid] == 'f' and not first:
                    return
            first = False
            if self.open(tid) != 'parked':
                return


class GatedTag(object):
    def __init__(self, n, gates):
        self.n = n
        self.gates = gates

    def __hash__(self):
        self.gates.gate()
        return hash(('gtag', self.n))

    def __eq__(self, other):
        self.gates.gate()
        return isinstance(other, GatedTag) and other.n == self.n


def run_c_leg(case, ctx, use_module):
    import _cffi_backend
    if use_module:
        ffi = ctx.state['oolffi']()
    else:
        ffi = _cffi_backend.FFI()
    nthreads = len(case['threads'])
    g = Gates(nthreads, 0.25)
    tags = {}

    def body(tid, calls):
        g.local.tid = tid
        g.native[tid] = threading.get_native_id()
        try:
            for ci, (tag, beh) in enumerate(calls):
                def f(tid=tid, ci=ci, tag=tag, beh=beh):
                    g.events.append(('f_start', tid, ci, tag, None))
                    g.gate('f')
                    if beh == 'raise':
                        g.events.append(('f_raise', tid, ci, tag, None))
                        raise InitErr('%d.%d' % (tid, ci))
                    val = 'v%d.%d' % (tid, ci)
                    g.events.append(('f_end', tid, ci, tag, val))
                    return val
                g.gate('call')
                g.events.append(('call_begin', tid, ci, tag, None))
                try:
                    r = ffi.init_once(f, GatedTag(tag, g))
                except InitErr as e:
                    g.events.append(('call_raise', tid, ci, tag, 'InitErr:%s' % e))
                except BaseException as e:
                    g.events.append(('call_raise', tid, ci, tag, '%s:%s' % (type(e).__name__, e)))
                else:
                    g.events.append(('call_return', tid, ci, tag, r))
        finally:
            with g.cv:
                g.done[tid] = True
                g.cv.notify_all()

    threads = []
    for tid, calls in enumerate(case['threads']):
        th = threading.Thread(target=body, args=(tid, calls))
        th.daemon = True
        threads.append(th)
        th.start()
    # wait for all to park at their first gate
    with g.cv:
        end = time.time() + 30
        while not all(g.parked[t] or g.done[t] for t in range(nthreads)):
            g.cv.wait(0.5)
            if time.time() > end:
                raise HarnessError('C leg: threads did not reach their first gate')
    sd = case['sched']
    # steps: (thread, 'adv' = run until inside an initialiser / blocked / done; 'gate' = one gate)
    if sd['kind'] == 'random':
        steps = [(p % nthreads, 'adv' if (p // nthreads) % 2 == 0 else 'gate') for p in sd['picks'][:60]]
    elif sd['kind'] == 'macro':
        steps = [(t % nthreads, 'adv') for t in sd['picks']]
    else:
        order = [o % nthreads for o in sd['order']]
        steps, pos, prev = [], 0, 0
        for sw in sd['switch_at'] + [sd['switch_at'][-1] + 8 if sd['switch_at'] else 8]:
            steps += [(order[pos % len(order)], 'gate')] * max(1, min(12, sw - prev))
            prev = sw
            pos += 1
    picks = steps
    for tid, kind in steps:
        if kind == 'adv':
            g.advance(tid)
        else:
            g.open(tid)
        if all(g.done.values()):
            break
    with g.cv:
        g.free_run = True
        g.cv.notify_all()
    # liveness: every call finishes once all gates are open
    last, t_last = -1, time.time()
    while not all(g.done.values()):
        time.sleep(0.01)
        with g.cv:
            p = g.progress + len(g.events)
        if p != last:
            last, t_last = p, time.time()
        elif time.time() - t_last > 30:
            g.events.append(('deadlock', -1, -1, None, 'no progress for 30 s with all gates open'))
            break
    return list(g.events), len(picks)


def setup(ctx):
    import os
    state = {}

    def oolffi():
        # a fresh compiled-style FFI object each time: re-exec the generated module
        import cffi
        if 'src' not in state:
            f = cffi.FFI()
            f.cdef('typedef int c26_t;')
            f.set_source('_c26_ool', None)
            path = os.path.join(ctx.tmp, '_c26_ool_%d.py' % os.getpid())
            f.emit_python_code(path)
            with open(path) as fp:
                state['src'] = compile(fp.read(), path, 'exec')
        ns = {}
        exec(state['src'], ns)
        return ns['ffi']
    state['oolffi'] = oolffi
    return state


def prop(case, ctx):
    impl = case['impl']
    if impl == 'py':
        events, steps = run_python_leg(case, ctx)
    else:
        events, steps = run_c_leg(case, ctx, impl == 'cmod')
    overlap = check_trace(events, ctx, case)
    raises = any(b == 'raise' for calls in case['threads'] for _, b in calls)
    ctx.note(case, overlap, [impl, 'overlap' if overlap else 'no-overlap',
                             'with-raise' if raises else 'no-raise', case['sched']['kind'],
                             '%d-threads' % len(case['threads'])])


# ------------------------------------------------------------------ enumeration

def pre(ctx):
    """All schedules with at most P preemptions, 2 threads x 1 call x 1 tag, for
    the four ok/raise combinations, Python FFI (exact scheduler)."""
    maxpre = 1 if ctx.tier == 'quick' else 2
    horizon = 40
    n = 0
    for b0, b1 in itertools.product(['ret', 'raise'], repeat=2):
        threads = [[[0, b0]], [[0, b1]]]
        for first in (0, 1):
            for k in range(maxpre + 1):
                for sw in itertools.combinations(range(0, horizon, 1 if ctx.tier != 'quick' else 2), k):
                    case = {'impl': 'py', 'threads': threads,
                            'sched': {'kind': 'preempt', 'switch_at': list(sw),
                                      'order': [first, 1 - first] * 3}}
                    try:
                        prop(case, ctx)
                    except Violation as v:
                        v.detail['case'] = case
                        raise
                    n += 1
    ctx.extra['enumerated_preemption_bounded_schedules'] = n
    # C FFI: all macro-step schedules (first step = thread 0) of length L over 3 threads x 1 call x
    # 1 tag, for every ok/raise combination with at least one raise
    L = 5 if ctx.tier == 'quick' else 7
    m = 0
    for behs in itertools.product(['ret', 'raise'], repeat=3):
        if 'raise' not in behs:
            continue
        threads = [[[0, b]] for b in behs]
        for rest in itertools.product(range(3), repeat=L - 1):
            case = {'impl': 'c', 'threads': threads, 'sched': {'kind': 'macro', 'picks': [0] + list(rest)}}
            try:
                prop(case, ctx)
            except Violation as v:
                v.detail['case'] = case
                raise
            m += 1
    ctx.extra['enumerated_c_macro_schedules'] = m
    ctx.extra['enumeration'] = ('2 threads x 1 call x 1 tag x {ret,raise}^2 x first thread x all switch-point sets '
                                'of size <= %d over the first %d schedule points' % (maxpre, horizon))
