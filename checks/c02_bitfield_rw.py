"""C02 -- bitfield reads/writes are range-exact, round-trip, isolated, and
agree with what C code reads from the same storage.

Case: one struct with 1..6 bitfields (random explicit-sign integer types and
_Bool, widths 1..bits, optional plain members in between), random prefill
bytes, and a list of (field, value) stores.

Oracles:
 * range model (accept iff fmin <= v <= fmax; signed 1-bit also accepts 1),
 * C leg: getters/setters compiled by gcc from the identical declaration give
   (a) the bit mask each field occupies, (b) the value C reads after a cffi
   store, (c) the value cffi reads after a C store,
 * isolation: the buffer changes only inside the field's mask.
"""
import ctypes
from hypothesis import strategies as st
from vlib.core import Violation, HarnessError
from vlib import gen, cc

ID = 'C02'
LEVEL = 'exploration'
RULE = ('Hypothesis-generated structs of 1-6 bitfields (11 types x widths 1..bits, at the bit '
        'positions that result from preceding bitfields/plain members) x G-INT values; oracle = '
        'range model + gcc-compiled getter/setter on the same storage + byte-diff isolation. '
        'An evaluation is one store (or one C->cffi read); non-trivial = width not in {8,16,32} '
        'or bitshift%8 != 0 or value within 1 of a range boundary; distinct by '
        '(type, width, bitshift, value).')
BUDGET = {'quick': 160, 'thorough': 6400}
BATCH = {'quick': 12, 'thorough': 24}
MIN_PER_SHARD = 4
TIME = {'quick': 40, 'thorough': 900}
ASSUMPTIONS = ['gcc -O0 x86-64 bitfield layout and access as the reference for "what C reads"',
               'field bit masks are taken from the C side (all-ones store into zeroed object)']


def strategy(ctx):
    @st.composite
    def field(draw):
        tname, bits, signed = draw(st.sampled_from(gen.BITFIELD_TYPES))
        if tname == '_Bool':
            w = 1
        else:
            w = draw(st.one_of(st.integers(1, bits), st.sampled_from([1, bits, bits - 1])))
            w = max(1, w)
        return [tname, w]

    @st.composite
    def case(draw):
        n = draw(st.integers(1, 6))
        members = []
        for i in range(n):
            if draw(st.integers(0, 5)) == 0:
                members.append(['plain', draw(st.sampled_from(['char', 'short', 'int', 'long']))])
            members.append(['bf'] + draw(field()))
        nbf = [m for m in members if m[0] == 'bf']
        prefill = draw(st.binary(min_size=64, max_size=64)).hex()
        stores = []
        for _ in range(draw(st.integers(1, 12))):
            idx = draw(st.integers(0, len(nbf) - 1))
            tname, w = nbf[idx][1], nbf[idx][2]
            _, bits, signed = [t for t in gen.BITFIELD_TYPES if t[0] == tname][0]
            lo, hi = gen.int_range(w, signed)
            stores.append([idx, draw(gen.ints_for_range(lo, hi)),
                           draw(st.sampled_from(['cffi', 'cffi', 'cffi', 'c']))])
        # cdef(..., packed=True) against __attribute__((packed)): bitfields may then start in the middle
        # of what would otherwise be padding
        return {'members': members, 'prefill': prefill, 'stores': stores,
                'packed': draw(st.integers(0, 3)) == 0, 'union': draw(st.integers(0, 3)) == 0}
    # one gcc invocation per Hypothesis case: process creation is the scarce resource here
    return st.lists(case(), min_size=1, max_size=BATCH[ctx.tier])


def _decl(members, k='', kw='struct'):
    lines, names = [], []
    j = 0
    for m in members:
        if m[0] == 'plain':
            lines.append('%s p%d;' % (m[1], j))
        else:
            lines.append('%s f%d:%d;' % (m[1], len(names), m[2]))
            names.append('f%d' % len(names))
        j += 1
    return '%s s%s { %s };' % (kw, k, ' '.join(lines)), names


def _c_source(decl, names, members, k, packed=False, kw='struct'):
    bf = [m for m in members if m[0] == 'bf']
    if packed:
        decl = decl[:-1] + ' __attribute__((packed));'
    out = [decl, 'int size_s%s(void) { return (int)sizeof(%s s%s); }' % (k, kw, k)]
    for i, n in enumerate(names):
        signed = not (bf[i][1].startswith('unsigned') or bf[i][1] == '_Bool')
        rt = 'long long' if signed else 'unsigned long long'
        out.append('%s get%s_%d(%s s%s *p) { return p->%s; }' % (rt, k, i, kw, k, n))
        out.append('void set%s_%d(%s s%s *p, %s v) { p->%s = v; }' % (k, i, kw, k, rt, n))
    return '\n'.join(out) + '\n'


def _kw(case):
    return 'union' if case.get('union') else 'struct'


def prop(batch, ctx):
    import os
    src = ''.join(_c_source(_decl(c['members'], k, _kw(c))[0], _decl(c['members'], k, _kw(c))[1], c['members'], k,
                            c.get('packed', False), _kw(c))
                  for k, c in enumerate(batch))
    so = cc.compile_shared(src, ctx.tmp)
    lib = ctypes.CDLL(so)
    try:
        for k, c in enumerate(batch):
            _one(c, k, lib, ctx)
    finally:
        h = lib._handle
        del lib
        try:
            ctypes.CDLL(None).dlclose(ctypes.c_void_p(h))
        except Exception:
            pass
        try:
            os.unlink(so)
        except OSError:
            pass


def _one(case, k, lib, ctx):
    import cffi
    members = case['members']
    kw = _kw(case)
    decl, names = _decl(members, k, kw)
    bf = [m for m in members if m[0] == 'bf']
    if kw == 'union':
        ctx.event('union: every member starts at bit 0')
    ffi = cffi.FFI()
    if case.get('packed'):
        ffi.cdef(decl, packed=True)
        try:
            size = ffi.sizeof('%s s%d' % (kw, k))
        except NotImplementedError:
            # cffi declines some packed bitfield layouts outright (not a wrong answer)
            ctx.event('packed: layout declined by cffi (NotImplementedError)')
            return
        ctx.event('packed struct')
    else:
        ffi.cdef(decl)
    size = ffi.sizeof('%s s%d' % (kw, k))
    if 1:
        if getattr(lib, 'size_s%d' % k)() != size:
            # layout is C01's subject; without equal sizes the storage cannot be shared
            ctx.fail('sizeof(struct s): cffi %d, gcc %d' % (size, getattr(lib, 'size_s%d' % k)()), decl=decl)
        p = ffi.new('%s s%d *' % (kw, k))
        buf = ffi.buffer(p)
        addr = int(ffi.cast('uintptr_t', p))
        # bit masks from the C side
        masks = []
        for i in range(len(bf)):
            buf[:] = b'\0' * size
            signed = not (bf[i][1].startswith('unsigned') or bf[i][1] == '_Bool')
            setter = getattr(lib, 'set%d_%d' % (k, i))
            setter.argtypes = [ctypes.c_void_p, ctypes.c_longlong if signed else ctypes.c_ulonglong]
            setter.restype = None
            getter = getattr(lib, 'get%d_%d' % (k, i))
            getter.argtypes = [ctypes.c_void_p]
            getter.restype = ctypes.c_longlong if signed else ctypes.c_ulonglong
            setter(addr, -1 if signed else (1 if bf[i][1] == '_Bool' else (1 << 64) - 1))
            m = int.from_bytes(bytes(buf), 'little')
            if bin(m).count('1') != bf[i][2]:
                raise HarnessError('mask popcount %d != width %d for %s' % (bin(m).count('1'), bf[i][2], decl))
            masks.append(m)
        pre = bytes.fromhex(case['prefill'])[:size].ljust(size, b'\xa5')
        buf[:] = pre
        for idx, v, how in case['stores']:
            tname, w = bf[idx][1], bf[idx][2]
            signed = not (tname.startswith('unsigned') or tname == '_Bool')
            lo, hi = gen.int_range(w, signed)
            name = names[idx]
            mask = masks[idx]
            shift = (mask & -mask).bit_length() - 1
            before = int.from_bytes(bytes(buf), 'little')
            inrange = lo <= v <= hi or (signed and w == 1 and v == 1)
            expect_read = -1 if (signed and w == 1 and v == 1) else v
            nontriv = (w not in (8, 16, 32)) or shift % 8 != 0 or min(abs(v - lo), abs(v - hi)) <= 1
            if w == 64 and ctx.skip_known('bitfield-width-64'):
                continue
            bits = [t for t in gen.BITFIELD_TYPES if t[0] == tname][0][1]
            ctx.note((tname, w, shift, v, how), nontriv,
                     ['width=1' if w == 1 else 'width=full' if w == bits else 'width=mid',
                      'in-range' if inrange else 'out-of-range', 'store-by-' + how,
                      'byte-aligned' if shift % 8 == 0 else 'unaligned-shift'])
            if how == 'c':
                # C stores (value reduced into range by C semantics); cffi must read the same
                if not inrange:
                    continue
                getattr(lib, 'set%d_%d' % (k, idx))(addr, v)
                cval = getattr(lib, 'get%d_%d' % (k, idx))(addr)
                got = getattr(p, name)
                if got != cval:
                    ctx.fail('cffi reads %r, C reads %r from the same storage' % (got, cval),
                             decl=decl, field=name, stored_by='C', value=v)
                continue
            try:
                setattr(p, name, v)
            except OverflowError:
                if inrange:
                    ctx.fail('in-range value %d rejected for %s:%d' % (v, tname, w), decl=decl, field=name)
                after = int.from_bytes(bytes(buf), 'little')
                if after != before:
                    ctx.fail('rejected store changed memory', decl=decl, field=name, value=v)
                continue
            if not inrange:
                ctx.fail('out-of-range value %d accepted for %s:%d [%d,%d]' % (v, tname, w, lo, hi),
                         decl=decl, field=name)
            after = int.from_bytes(bytes(buf), 'little')
            if (after ^ before) & ~mask:
                ctx.fail('store changed bits outside the field', decl=decl, field=name, value=v,
                         changed=hex((after ^ before) & ~mask))
            if (after & mask) >> shift != v % (1 << w):
                ctx.fail('stored bits %#x != v mod 2**w %#x' % ((after & mask) >> shift, v % (1 << w)),
                         decl=decl, field=name, value=v)
            got = getattr(p, name)
            if got != expect_read or type(got) is not int:
                ctx.fail('read back %r after storing %d into %s:%d' % (got, v, tname, w), decl=decl, field=name)
            cval = getattr(lib, 'get%d_%d' % (k, idx))(addr)
            if cval != got:
                ctx.fail('cffi reads %r, C reads %r from the same storage' % (got, cval),
                         decl=decl, field=name, value=v)
