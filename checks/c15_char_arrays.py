"""C15 -- character arrays and strings round-trip, including the terminator.

Case: element type T, a string s (list of code points / byte values), an
array shape (T[] or T[n] with n = units(s)+d, d in -1..3), an operation that
stores s into the array (ffi.new initializer on zeroed memory, ffi.new
initializer through a non-clearing allocator, item assignment q[0] = s with q
a 'T(*)[n]', field assignment p.a = s) over random previous content followed
by a guard zone, then ffi.string (with/without maxlen, through the array or a
plain pointer) and ffi.unpack reads.

Oracle: a code-unit model.  Expected units are the UTF-16/UTF-32
(surrogatepass) encoding computed by Python's codecs; after storing m units
into n > m: units[0:m] = string, units[m] = 0, every later unit (rest of the
array and the guard zone) unchanged; m == n: n units, nothing else touched;
ffi.string = decode(units before the first zero within the limit);
ffi.unpack(p, k) = decode(exactly k units).  All comparisons of memory go
through ffi.buffer.
"""
from hypothesis import strategies as st
from vlib.core import Violation, HarnessError

ID = 'C15'
LEVEL = 'exploration'
RULE = ('Hypothesis-generated (element type in {char, signed char, unsigned char, wchar_t, char16_t, '
        'char32_t}) x string of 0-7 characters (ASCII, Latin-1, BMP, astral, lone/adjacent surrogates, '
        'rarely an embedded zero) x array shape (T[] or T[n], n = units-1 .. units+3) x store operation '
        '(ffi.new, ffi.new via non-clearing allocator, item assignment, field assignment) over random '
        'previous content and a 4-unit guard zone x ffi.string (maxlen absent / 0..n+4, array or pointer '
        'view) and ffi.unpack(k) reads; oracle = code-unit model built on Python\'s utf-16/utf-32 '
        'surrogatepass codecs, memory observed through ffi.buffer. An evaluation is one store or one '
        'read. A store is non-trivial iff the string has astral or surrogate characters, or '
        'units in {n-1, n}, or the previous content is longer than the new string; a read is non-trivial '
        'iff the limit (maxlen / array length / k) cuts before the first zero unit or the units read '
        'contain a surrogate. Distinct by (type, n, units, op, content class, previous-longer) for stores '
        'and (type, kind, view, limit, position of first zero, content class) for reads.')
TECHNIQUE = 'property-based testing against a code-unit reference model (in-process, ASan build in the thorough tier)'
LEVEL_TEXT = ('Randomised exploration: every generated store/read agreed with an independent code-unit model '
              '(Python codecs as the UTF-16/32 reference), including bytes adjacent to the array; no proof of '
              'absence beyond the explored strings (0-7 characters, arrays up to 18 units).')
LEVEL_NOTE = ('Trusted: CPython utf-16-le/utf-32-le surrogatepass codecs as the meaning of "code units"; '
              'ffi.buffer/ffi.cast used to observe and prefill memory; x86-64 Linux (wchar_t is 4 bytes).')
ASSUMPTIONS = ['CPython utf-16-le / utf-32-le codecs with surrogatepass define the expected code units',
               'a lone high surrogate immediately followed by a lone low surrogate is the same UTF-16 text as '
               'the astral character (expected value = codec round trip) for 16-bit element types',
               'ffi.buffer and ffi.cast are correct for raw byte access (subject of C19/C04)',
               'explicit maxlen larger than the array is only used where the memory behind it is owned by the test']
BUDGET = {'quick': 25000, 'thorough': 500000}
TIME = {'quick': 20, 'thorough': 800}
CRASHY = True
ASAN_TIERS = ('thorough',)

TYPES = {'char': 1, 'signed char': 1, 'unsigned char': 1,
         'wchar_t': 4, 'char16_t': 2, 'char32_t': 4}
G = 4               # guard units behind the array
NPREV = 24          # previous-content draws (>= max n + G)

_SPECIAL = [1, 0x7f, 0x80, 0xff, 0x100, 0xd7ff, 0xe000, 0xfffe, 0xffff, 0x10000, 0x10001,
            0x10ffff, 0xd800, 0xdbff, 0xdc00, 0xdfff]


def strategy(ctx):
    cp = st.one_of(st.integers(0x20, 0x7e), st.integers(0x20, 0x7e),
                   st.sampled_from(_SPECIAL),
                   st.integers(1, 0xffff), st.integers(0x10000, 0x10ffff),
                   st.integers(0xd800, 0xdbff), st.integers(0xdc00, 0xdfff))
    cp0 = st.one_of(cp, cp, cp, cp, cp, cp, cp, cp, cp, cp, cp, st.just(0))     # rare embedded zero
    prevu = st.one_of(cp, cp, cp, st.just(0))

    @st.composite
    def case(draw):
        T = draw(st.sampled_from(sorted(TYPES)))
        s = draw(st.lists(cp0, min_size=0, max_size=7))
        shape = draw(st.sampled_from(['open', -1, 0, 0, 1, 1, 2, 3]))
        if shape == 'open':
            op = draw(st.sampled_from(['new', 'new_dirty']))
        else:
            op = draw(st.sampled_from(['new', 'new_dirty', 'item', 'field', 'item', 'field']))
        prev = draw(st.lists(prevu, min_size=NPREV, max_size=NPREV))
        maxlens = draw(st.lists(st.one_of(st.none(), st.integers(0, 22)), min_size=0, max_size=3))
        ks = draw(st.lists(st.integers(0, 22), min_size=0, max_size=3))
        views = draw(st.lists(st.sampled_from(['array', 'ptr']), min_size=6, max_size=6))
        return {'T': T, 's': s, 'shape': shape, 'op': op, 'prev': prev,
                'maxlens': maxlens, 'ks': ks, 'views': views}
    return case()


# ---------------------------------------------------------------- model ----

def _tobytes(units, sz):
    return b''.join(u.to_bytes(sz, 'little') for u in units)


def _tounits(b, sz):
    return [int.from_bytes(b[i:i + sz], 'little') for i in range(0, len(b), sz)]


def _pystr(T, cps):
    if TYPES[T] == 1:
        return bytes(c & 0xff for c in cps)
    return ''.join(chr(c) for c in cps)


def _enc(T, pys):
    sz = TYPES[T]
    if sz == 1:
        return list(pys)
    if sz == 2:
        return _tounits(pys.encode('utf-16-le', 'surrogatepass'), 2)
    return _tounits(pys.encode('utf-32-le', 'surrogatepass'), 4)


def _dec(T, units):
    sz = TYPES[T]
    if sz == 1:
        return bytes(units)
    if sz == 2:
        return _tobytes(units, 2).decode('utf-16-le', 'surrogatepass')
    return _tobytes(units, 4).decode('utf-32-le', 'surrogatepass')


def _prev_units(T, prev, count):
    sz = TYPES[T]
    out = []
    i = 0
    while len(out) < count:
        v = prev[i % len(prev)]
        i += 1
        if sz == 1:
            out.append(v & 0xff)
        elif sz == 2 and v > 0xffff:
            v -= 0x10000
            out += [0xd800 | (v >> 10), 0xdc00 | (v & 0x3ff)]
        else:
            out.append(v)
    return out[:count]


def _content_class(T, cps, units):
    if not cps:
        return 'empty'
    if TYPES[T] == 1:
        return 'bytes-high' if any(c & 0x80 for c in cps) else 'bytes-ascii'
    sur = [0xd800 <= c <= 0xdfff for c in cps]
    if any(0xd800 <= cps[i] <= 0xdbff and 0xdc00 <= cps[i + 1] <= 0xdfff for i in range(len(cps) - 1)):
        return 'hi-lo-surrogates-adjacent'
    if any(sur):
        return 'lone-surrogate'
    if any(c > 0xffff for c in cps):
        return 'astral'
    if any(c > 0x7f for c in cps):
        return 'bmp'
    return 'ascii'


def _first_zero(units, limit):
    for i in range(min(limit, len(units))):
        if units[i] == 0:
            return i
    return None


# ----------------------------------------------------------------- setup ----

def setup(ctx):
    import cffi
    ffi = cffi.FFI()
    decls = []
    for T in sorted(TYPES):
        for n in range(0, 20):
            decls.append('struct s_%s_%d { %s a[%d]; %s g[%d]; };' % (T.replace(' ', '_'), n, T, n, T, G))
    ffi.cdef('\n'.join(decls))
    return {'ffi': ffi}


# ------------------------------------------------------------------ prop ----

def prop(case, ctx):
    ffi = ctx.state['ffi']
    T = case['T']; sz = TYPES[T]
    cps = case['s']
    op = case['op']
    pys = _pystr(T, cps)
    sunits = _enc(T, pys)
    m = len(sunits)
    is_open = case['shape'] == 'open'
    if is_open:
        n = m + 1
        tname = '%s[]' % T
    else:
        n = max(0, m + case['shape'])
        tname = '%s[%d]' % (T, n)
    if n > 19:
        raise HarnessError('array length %d outside the prepared struct table' % n)
    cclass = _content_class(T, cps, sunits)
    if op == 'field' and n == 0:
        # cffi reads a zero-length array *field* as a pointer (it is how a variable-length
        # trailing array is spelled); the fixed-size-array clause is exercised through 'item'
        op = 'item'

    # --- memory before the store -------------------------------------
    if op == 'new':
        avail = n
        before = [0] * n
    else:
        avail = n + G
        before = _prev_units(T, case['prev'], avail)
        before[-1] = 0          # a zero unit the test owns, so pointer reads without maxlen terminate
    prevlen = _first_zero(before, n)
    prev_longer = (prevlen if prevlen is not None else n) > m

    keep = []
    arr = None
    raised = None
    try:
        if op == 'new':
            arr = ffi.new(tname, pys)
            getraw = lambda: _tounits(bytes(ffi.buffer(arr)), sz)
        elif op == 'new_dirty':
            backing = ffi.new('char[]', avail * sz)
            ffi.buffer(backing)[:] = _tobytes(before, sz)
            getraw = lambda: _tounits(bytes(ffi.buffer(backing)), sz)
            alloc = ffi.new_allocator(lambda size: backing, None, should_clear_after_alloc=False)
            arr = alloc(tname, pys)
        elif op == 'item':
            backing = ffi.new('%s[]' % T, avail)
            ffi.buffer(backing)[:] = _tobytes(before, sz)
            getraw = lambda: _tounits(bytes(ffi.buffer(backing)), sz)
            q = ffi.cast('%s(*)[%d]' % (T, n), backing)
            keep.append(q)
            try:
                q[0] = pys
            finally:
                arr = q[0]
        elif op == 'field':
            p = ffi.new('struct s_%s_%d *' % (T.replace(' ', '_'), n))
            ffi.buffer(p)[:] = _tobytes(before, sz)
            getraw = lambda: _tounits(bytes(ffi.buffer(p)), sz)
            try:
                p.a = pys
            finally:
                arr = p.a
        else:
            raise HarnessError('unknown op %r' % (op,))
    except IndexError as e:
        raised = e

    rel = 'units>n' if m > n else 'units==n' if m == n else 'units==n-1' if m == n - 1 else 'units<n-1'
    nontriv = (cclass in ('astral', 'lone-surrogate', 'hi-lo-surrogates-adjacent')
               or m in (n - 1, n) or prev_longer)
    ctx.note(('store', T, n, m, op, cclass, prev_longer), nontriv,
             ['type=' + T, 'op=' + op, rel, 'content=' + cclass, 'open-array' if is_open else 'fixed-array']
             + (['previous-content-longer'] if prev_longer and op != 'new' else []))

    if m > n:
        # the statement is silent about over-long strings; cffi raises IndexError.  Only
        # memory safety is checked: nothing behind the array may change.
        if op in ('item', 'field', 'new_dirty'):
            raw = getraw()
            if raw[n:] != before[n:]:
                ctx.fail('over-long string changed memory behind the array', type=tname, op=op,
                         string=repr(pys), before=before, after=raw)
        if arr is None:
            return
    elif raised is not None:
        ctx.fail('%s of %d units into %s raised IndexError: %s' % (op, m, tname, raised),
                 type=tname, op=op, string=repr(pys))
    else:
        # --- the store itself ----------------------------------------
        raw = getraw()
        if len(arr) != n:
            ctx.fail('len(array) is %d, expected %d' % (len(arr), n), type=tname, op=op, string=repr(pys))
        if len(raw) != avail:
            raise HarnessError('observed %d units, expected %d' % (len(raw), avail))
        if raw[:m] != sunits:
            ctx.fail('stored units differ from the encoding of the string', type=tname, op=op,
                     string=repr(pys), expected=sunits, got=raw[:m])
        if m < n:
            if sz > 1 and op != 'new' and before[m] != 0:
                # the class that used to fail (fixed in /repo by 4f86825: the wide-char converters
                # ignored the room requested for the terminator)
                ctx.event('wide-terminator-over-nonzero-unit')
            if raw[m] != 0:
                ctx.fail('no terminating zero unit written after a string of %d units into %s (%s): '
                         'unit[%d] is %#x' % (m, tname, op, m, raw[m]),
                         type=tname, op=op, string=repr(pys), before=before, after=raw)
        if raw[m + 1:] != before[m + 1:]:
            ctx.fail('units after the terminator changed', type=tname, op=op, string=repr(pys),
                     before=before, after=raw)
        if m == n and raw[m:] != before[m:]:
            ctx.fail('exact-fit store changed memory behind the array', type=tname, op=op,
                     string=repr(pys), before=before, after=raw)

    # --- reads: the model is the memory as it now is ------------------
    raw = getraw()
    ptr = ffi.cast('%s *' % T, arr)
    views = case['views']
    vi = 0

    def rd_class(units_read, limit_hit):
        c = ['read-limit-hit' if limit_hit else 'read-zero-hit']
        if sz > 1 and any(0xd800 <= u <= 0xdfff for u in units_read):
            c.append('read-has-surrogate-units')
        return c

    # ffi.string without maxlen: array -> bounded by the array length; pointer -> up to the first zero
    for L in [None] + list(case['maxlens']):
        view = views[vi % len(views)]; vi += 1
        if L is None:
            if view == 'array':
                limit = n
            else:
                if _first_zero(raw, avail) is None:
                    continue            # unterminated: reading through a bare pointer is the caller's error
                limit = avail
        else:
            limit = L
            if limit > avail and _first_zero(raw, avail) is None:
                continue                # would read memory the test does not own
        z = _first_zero(raw, limit)
        units_read = raw[:z] if z is not None else raw[:limit]
        expected = _dec(T, units_read)
        obj = arr if view == 'array' else ptr
        got = ffi.string(obj) if L is None else ffi.string(obj, L)
        limit_hit = z is None
        surr = sz > 1 and any(0xd800 <= u <= 0xdfff for u in units_read)
        ctx.note(('string', T, view, L if L is not None else 'absent', z, n, surr), limit_hit or surr,
                 ['ffi.string', 'view=' + view, 'maxlen-absent' if L is None else 'maxlen-given']
                 + rd_class(units_read, limit_hit))
        if got != expected or type(got) is not type(expected):
            ctx.fail('ffi.string(%s%s) returned %r, model %r' % (view, '' if L is None else ', %d' % L, got, expected),
                     type=tname, op=op, string=repr(pys), units=raw, maxlen=L, view=view)

    # round trip (the first clause of the statement) for strings without a zero
    if op == 'new' and is_open and 0 not in sunits:
        want = pys if sz != 2 else pys.encode('utf-16-le', 'surrogatepass').decode('utf-16-le', 'surrogatepass')
        got = ffi.string(arr)
        ctx.note(('roundtrip', T, m, cclass), cclass not in ('ascii', 'bytes-ascii', 'empty'), ['round-trip-T[]'])
        if got != want:
            ctx.fail("ffi.string(ffi.new('%s', s)) != s: %r vs %r" % (tname, got, want), type=tname, string=repr(pys))

    for k in case['ks']:
        if k > avail:
            continue
        view = views[vi % len(views)]; vi += 1
        obj = arr if view == 'array' else ptr
        units_read = raw[:k]
        if T == 'signed char':
            expected = [u - 256 if u >= 128 else u for u in units_read]
        elif T == 'unsigned char':
            expected = list(units_read)
        else:
            expected = _dec(T, units_read)
        got = ffi.unpack(obj, k)
        surr = sz > 1 and any(0xd800 <= u <= 0xdfff for u in units_read)
        splits = sz == 2 and 0 < k < avail and 0xd800 <= raw[k - 1] <= 0xdbff and 0xdc00 <= raw[k] <= 0xdfff
        zero_inside = 0 in units_read
        ctx.note(('unpack', T, view, k, _first_zero(raw, k), n, surr, splits), zero_inside or surr or k == 0,
                 ['ffi.unpack', 'view=' + view]
                 + (['unpack-spans-zero'] if zero_inside else [])
                 + (['unpack-splits-surrogate-pair'] if splits else [])
                 + (['read-has-surrogate-units'] if surr else []))
        if got != expected or type(got) is not type(expected):
            ctx.fail('ffi.unpack(%s, %d) returned %r, model %r' % (view, k, got, expected),
                     type=tname, op=op, string=repr(pys), units=raw, k=k, view=view)
