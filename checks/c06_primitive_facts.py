"""C06 -- primitive type facts agree with the compiler and across all type tables.

Exhaustive over G-PRIM: every key of PrimitiveType.ALL_PRIMITIVE_TYPES, the aliases
bool / float _Complex / double _Complex, and every permutation of every specifier
multiset that names a standard C type (short int, long unsigned int, signed, ...).
A spelling is in the domain iff the in-line FFI accepts it (typeof and
'typedef <spelling> t;' in cdef).

Compiler leg (one gcc program): sizeof, _Alignof, (T)-1 < 0, min/max from
<limits.h>/<stdint.h>/<wchar.h>, integer/floating/complex classification, and
__builtin_types_compatible_p(spelling, canonical) for the multi-word spellings.
cffi must report the same size, alignment, signedness (int(ffi.cast(T, -1)) < 0),
kind (which Python values a store accepts; model.py's kind letter) and integer range
(min/max stored and read back, min-1/max+1 refused).

Cross-table leg: for every spelling the ctype objects obtained from
  L1 cffi.FFI().typeof(s)                       (pycparser -> model -> new_primitive_type)
  L1' cdef('typedef s t;') of an in-line FFI
  L2 _cffi_backend.FFI().typeof(s)              (parse_c_type.c -> _CFFI_PRIM_* -> primitive_name[])
  L3 'typedef s t;' in an out-of-line ABI module (PRIMITIVE_TO_INDEX -> opcode -> build_primitive_type)
  L3' that module's ffi.typeof(s)
  L4 the same in a compiled API module          (opcode table compiled by gcc)
  L5 _cffi_backend.new_primitive_type(canonical)
must all be the same object, named `canonical`.
"""
import itertools
from vlib.core import Violation, HarnessError
from vlib import cc

ID = 'C06'
LEVEL = 'exploration'
RULE = ('Exhaustive enumeration of primitive spellings: all keys of ALL_PRIMITIVE_TYPES, the aliases bool, '
        'float _Complex, double _Complex, and all permutations of all specifier multisets of the standard '
        'integer/floating types; in the domain iff the in-line FFI accepts the spelling.  Oracle = one gcc '
        'program (sizeof, _Alignof, sign, limits macros, type compatibility) + object identity of the ctype '
        'across 7 routes (in-line typeof/cdef, C-backend parser, out-of-line ABI module, API module, '
        'new_primitive_type).  An evaluation is one accepted spelling checked on all legs; every accepted '
        'spelling is non-trivial (rule: the name resolves); distinct by spelling.  In addition every '
        'sequence of 1-4 of the 8 specifier keywords (4680) is given to the C-backend parser: what it accepts '
        'must be accepted by the in-line parser as the same ctype object and be one of the spellings judged '
        'against gcc (counted in specifier_sequences_*).')
TECHNIQUE = 'exhaustive enumeration of the finite name set against gcc + cross-table identity'
LEVEL_TEXT = ('The finite set of primitive names is enumerated completely on this platform; each is compared '
              'with what gcc reports and resolved through every name<->index table.')
LEVEL_NOTE = ('Trusted: gcc 12 x86-64 with glibc headers.  Plain char is a character type in cffi '
              '(int() is ord()): its signedness is not observable and is not compared.  Spellings that the '
              'in-line FFI rejects (e.g. "int long") are outside the property (counted, not judged).')
ASSUMPTIONS = ['gcc 12 / glibc x86-64 is the platform C compiler',
               'kind is observed through which Python values a store accepts (int / bytes-or-str / float / complex)',
               "plain 'char': signedness and integer range not compared (character type in cffi)"]
BUDGET = {'quick': 0, 'thorough': 0}

STDINT = ['int8_t', 'uint8_t', 'int16_t', 'uint16_t', 'int32_t', 'uint32_t', 'int64_t', 'uint64_t',
          'int_least8_t', 'uint_least8_t', 'int_least16_t', 'uint_least16_t', 'int_least32_t',
          'uint_least32_t', 'int_least64_t', 'uint_least64_t', 'int_fast8_t', 'uint_fast8_t',
          'int_fast16_t', 'uint_fast16_t', 'int_fast32_t', 'uint_fast32_t', 'int_fast64_t',
          'uint_fast64_t', 'intptr_t', 'uintptr_t', 'intmax_t', 'uintmax_t', 'ptrdiff_t', 'size_t',
          'ssize_t']

# canonical cffi name -> specifier multisets that denote it in C
MULTISETS = {
    'char': [['char']],
    'signed char': [['signed', 'char']],
    'unsigned char': [['unsigned', 'char']],
    'short': [['short'], ['short', 'int'], ['signed', 'short'], ['signed', 'short', 'int']],
    'unsigned short': [['unsigned', 'short'], ['unsigned', 'short', 'int']],
    'int': [['int'], ['signed'], ['signed', 'int']],
    'unsigned int': [['unsigned'], ['unsigned', 'int']],
    'long': [['long'], ['long', 'int'], ['signed', 'long'], ['signed', 'long', 'int']],
    'unsigned long': [['unsigned', 'long'], ['unsigned', 'long', 'int']],
    'long long': [['long', 'long'], ['long', 'long', 'int'], ['signed', 'long', 'long'],
                  ['signed', 'long', 'long', 'int']],
    'unsigned long long': [['unsigned', 'long', 'long'], ['unsigned', 'long', 'long', 'int']],
    'float': [['float']],
    'double': [['double']],
    'long double': [['long', 'double']],
    '_cffi_float_complex_t': [['float', '_Complex']],
    '_cffi_double_complex_t': [['double', '_Complex']],
    '_Bool': [['_Bool']],
}

# name -> (min expression, max expression) from the headers
LIMITS = {
    'signed char': ('SCHAR_MIN', 'SCHAR_MAX'), 'unsigned char': ('0', 'UCHAR_MAX'),
    'short': ('SHRT_MIN', 'SHRT_MAX'), 'unsigned short': ('0', 'USHRT_MAX'),
    'int': ('INT_MIN', 'INT_MAX'), 'unsigned int': ('0', 'UINT_MAX'),
    'long': ('LONG_MIN', 'LONG_MAX'), 'unsigned long': ('0', 'ULONG_MAX'),
    'long long': ('LLONG_MIN', 'LLONG_MAX'), 'unsigned long long': ('0', 'ULLONG_MAX'),
    '_Bool': ('false', 'true'),
    'intptr_t': ('INTPTR_MIN', 'INTPTR_MAX'), 'uintptr_t': ('0', 'UINTPTR_MAX'),
    'intmax_t': ('INTMAX_MIN', 'INTMAX_MAX'), 'uintmax_t': ('0', 'UINTMAX_MAX'),
    'ptrdiff_t': ('PTRDIFF_MIN', 'PTRDIFF_MAX'), 'size_t': ('0', 'SIZE_MAX'),
    'ssize_t': ('(-SSIZE_MAX-1)', 'SSIZE_MAX'),
    'wchar_t': ('WCHAR_MIN', 'WCHAR_MAX'),
}
for _b in (8, 16, 32, 64):
    for _k, _K in (('', ''), ('_least', '_LEAST'), ('_fast', '_FAST')):
        LIMITS['int%s%d_t' % (_k, _b)] = ('INT%s%d_MIN' % (_K, _b), 'INT%s%d_MAX' % (_K, _b))
        LIMITS['uint%s%d_t' % (_k, _b)] = ('0', 'UINT%s%d_MAX' % (_K, _b))

CHAR_KIND = ('char', 'wchar_t', 'char16_t', 'char32_t')


def spellings(tier):
    """-> list of (spelling, canonical cffi name, C spelling)"""
    out = []
    seen = set()

    def add(s, canon, cs=None):
        if s not in seen:
            seen.add(s)
            out.append((s, canon, cs or s))
    from cffi import model, commontypes
    for name in model.PrimitiveType.ALL_PRIMITIVE_TYPES:
        add(name, name)
    for alias, target in sorted(commontypes.COMMON_TYPES.items()):
        if isinstance(target, str) and target in model.PrimitiveType.ALL_PRIMITIVE_TYPES and alias != target:
            add(alias, target)
    add('bool', '_Bool')
    for canon, sets in MULTISETS.items():
        for ms in sets:
            for perm in sorted(set(itertools.permutations(ms))):
                add(' '.join(perm), canon)
    return out


def _c_name(canon):
    return {'_cffi_float_complex_t': 'float _Complex', '_cffi_double_complex_t': 'double _Complex'}.get(canon, canon)


def _gcc_facts(items, ctx):
    """items: list of (spelling, canonical, c spelling) -> {spelling: dict}"""
    src = ['#include <stddef.h>\n#include <stdint.h>\n#include <stdbool.h>\n#include <limits.h>\n'
           '#include <wchar.h>\n#include <uchar.h>\n#include <sys/types.h>\n#include <stdio.h>\n'
           'typedef float _Complex _cffi_float_complex_t;\ntypedef double _Complex _cffi_double_complex_t;\n'
           '#define CPLX(T) (__builtin_types_compatible_p(T, float _Complex) || '
           '__builtin_types_compatible_p(T, double _Complex) || '
           '__builtin_types_compatible_p(T, long double _Complex))\n'
           'int main(void) {\n']
    for k, (s, canon, cs) in enumerate(items):
        src.append('{ typedef %s T; int cplx = CPLX(T);\n' % cs)
        src.append('  printf("%d %%zu %%zu %%d %%d %%d ", sizeof(T), (size_t)_Alignof(T), cplx, '
                   '__builtin_types_compatible_p(T, %s), (int)((T)1.5 != (T)1));\n' % (k, _c_name(canon)))
        if 'omplex' in cs:
            src.append('  printf("0 - -\\n"); }\n')
        else:
            lim = LIMITS.get(canon)
            src.append('  printf("%d ", (int)((T)-1 < (T)0));\n')
            if lim:
                src.append('  if ((T)-1 < (T)0) printf("%%lld %%lld\\n", (long long)(%s), (long long)(%s));'
                           ' else printf("%%llu %%llu\\n", (unsigned long long)(%s), (unsigned long long)(%s)); }\n'
                           % (lim[0], lim[1], lim[0], lim[1]))
            else:
                src.append('  printf("- -\\n"); }\n')
    src.append('return 0; }\n')
    out = cc.compile_and_run(''.join(src), ctx.tmp)
    facts = {}
    for line in out.splitlines():
        w = line.split()
        s = items[int(w[0])][0]
        facts[s] = {'size': int(w[1]), 'align': int(w[2]), 'complex': int(w[3]), 'compatible': int(w[4]),
                    'floating': int(w[5]), 'negative': int(w[6]),
                    'min': None if w[7] == '-' else int(w[7]), 'max': None if w[8] == '-' else int(w[8])}
    if len(facts) != len(items):
        raise HarnessError('oracle program printed %d lines for %d spellings' % (len(facts), len(items)))
    return facts


def _kind_observed(ffi, ct):
    """which Python values does a store into this type accept?"""
    import _cffi_backend
    pt = _cffi_backend.new_pointer_type(ct)

    def ok(v):
        try:
            ffi.new(pt, v)
            return True
        except (TypeError, OverflowError):
            return False
    if ok(1j):
        return 'complex'
    if ok(1.5):
        return 'float'
    if ok(b'a') or ok(u'a'):
        return 'char'
    if ok(1):
        return 'int'
    return 'none'


def _accepts(fn):
    try:
        return fn(), None
    except Exception as e:
        return None, e


def _check(items, ctx, tier):
    import cffi, _cffi_backend
    from cffi import model, cffi_opcode
    FFIError = cffi.FFIError
    # ---- which spellings are in the domain ----
    inline = cffi.FFI()
    accepted, l1 = [], {}
    for it in items:
        s = it[0]
        t, err = _accepts(lambda: inline.typeof(s))
        if err is not None:
            if not isinstance(err, (FFIError, cffi.CDefError)):
                ctx.fail('in-line typeof(%r) raised %s: %s' % (s, type(err).__name__, err), case={'names': [s]})
            ctx.event('rejected-by-in-line-FFI (outside the domain)')
            # a spelling of specifier keywords that the in-line FFI rejects must not be a primitive
            # name for the C backend's typeof() either (it would be a name "accepted by typeof()"
            # for which the compiler reports nothing)
            t2, err2 = _accepts(lambda: _cffi_backend.FFI().typeof(s))
            if err2 is None:
                ctx.fail('%r is rejected by the in-line FFI (%s) but the C backend typeof() accepts it as %r'
                         % (s, err, t2), case={'names': [s]})
            continue
        accepted.append(it)
        l1[s] = t
    if not accepted:
        return
    facts = _gcc_facts(accepted, ctx)
    # ---- modules: one in-line FFI with typedefs, one out-of-line ABI module, one API module ----
    cdef_lines = ['typedef %s c06_t%d;' % (s, k) for k, (s, canon, cs) in enumerate(accepted)]
    csrc_lines = ['typedef %s c06_t%d;' % (cs, k) for k, (s, canon, cs) in enumerate(accepted)]
    inl2 = cffi.FFI()
    try:
        inl2.cdef('\n'.join(cdef_lines))
    except Exception as e:
        # find the culprit
        for k, line in enumerate(cdef_lines):
            f = cffi.FFI()
            try:
                f.cdef(line)
            except Exception as e2:
                ctx.fail('typeof(%r) is accepted but cdef(%r) raises %s: %s'
                         % (accepted[k][0], line, type(e2).__name__, e2), case={'names': [accepted[k][0]]})
        raise
    import os, sys
    ool = cffi.FFI()
    ool.cdef('\n'.join(cdef_lines))
    ool.set_source('c06_ool_%d' % os.getpid(), None)
    pyfile = os.path.join(ctx.tmp, 'c06_ool_%d.py' % os.getpid())
    ool.emit_python_code(pyfile)
    ns = {}
    with open(pyfile) as f:
        exec(compile(f.read(), pyfile, 'exec'), ns)
    ool_ffi = ns['ffi']
    api = cffi.FFI()
    api.cdef('\n'.join(cdef_lines))
    modname = 'c06_api_%d_%d' % (os.getpid(), len(accepted))
    api.set_source(modname, '#include <stddef.h>\n#include <stdint.h>\n#include <stdbool.h>\n#include <wchar.h>\n'
                   '#include <uchar.h>\n#include <sys/types.h>\n' + '\n'.join(csrc_lines) + '\n')
    try:
        mod = cc.build_api_module(api, modname, ctx.tmp)
    except cc.CompileFailed as e:
        raise HarnessError('API module for the primitive typedefs does not compile:\n%s' % e)
    api_ffi = mod.ffi
    backend_ffi = _cffi_backend.FFI()

    for k, (s, canon, cs) in enumerate(accepted):
        g = facts[s]
        case = {'names': [s]}
        multi = ' ' in s
        ctx.note(s, True, ['multi-word' if multi else ('stdint-name' if s.endswith('_t') else 'keyword'),
                           'kind=' + ('complex' if g['complex'] else 'float' if g['floating'] else
                                      'char' if canon in CHAR_KIND else 'int')])
        ctx.sample({'spelling': s, 'canonical': canon, 'gcc': g})
        if not g['compatible']:
            raise HarnessError('gcc says %r and %r are different types: the G-PRIM table is wrong' % (cs, canon))
        t1 = l1[s]
        # ---- cross-table identity ----
        legs = [('cffi.FFI().typeof', lambda: inline.typeof(s)),
                ("in-line cdef 'typedef'", lambda: inl2.typeof('c06_t%d' % k)),
                ('_cffi_backend.FFI().typeof (C parser)', lambda: backend_ffi.typeof(s)),
                ('out-of-line ABI module typedef', lambda: ool_ffi.typeof('c06_t%d' % k)),
                ('out-of-line ABI module typeof(name)', lambda: ool_ffi.typeof(s)),
                ('API module typedef', lambda: api_ffi.typeof('c06_t%d' % k)),
                ('API module typeof(name)', lambda: api_ffi.typeof(s)),
                ('new_primitive_type(canonical)', lambda: _cffi_backend.new_primitive_type(canon))]
        for label, fn in legs:
            t, err = _accepts(fn)
            if err is not None:
                ctx.fail('%r: %s raised %s: %s' % (s, label, type(err).__name__, err), case=case)
            if t is not t1:
                ctx.fail('%r denotes %r via %s but %r via cffi.FFI().typeof' % (s, t, label, t1), case=case)
        if t1.kind != 'primitive' or t1.cname != canon:
            ctx.fail('%r resolves to <ctype %r> (kind %s), expected primitive %r' % (s, t1.cname, t1.kind, canon),
                     case=case)
        if canon not in cffi_opcode.PRIMITIVE_TO_INDEX or canon not in model.PrimitiveType.ALL_PRIMITIVE_TYPES:
            ctx.fail('%r missing from PRIMITIVE_TO_INDEX / ALL_PRIMITIVE_TYPES' % canon, case=case)
        # ---- compiler facts ----
        for f in (inline, backend_ffi, ool_ffi, api_ffi):
            if f.sizeof(t1) != g['size'] or f.sizeof(s) != g['size']:
                ctx.fail('sizeof(%r): cffi %d / %d, gcc %d' % (s, f.sizeof(t1), f.sizeof(s), g['size']), case=case)
            if f.alignof(t1) != g['align'] or f.alignof(s) != g['align']:
                ctx.fail('alignof(%r): cffi %d, gcc %d' % (s, f.alignof(t1), g['align']), case=case)
        exp_kind = ('complex' if g['complex'] else 'float' if g['floating'] else
                    'char' if canon in CHAR_KIND else 'int')
        got_kind = _kind_observed(inline, t1)
        if got_kind != exp_kind:
            ctx.fail('%r: stores behave like kind %r, the compiler says %r' % (s, got_kind, exp_kind), case=case)
        letter = model.PrimitiveType.ALL_PRIMITIVE_TYPES[canon]
        if letter != {'int': 'i', 'char': 'c', 'float': 'f', 'complex': 'j'}[exp_kind]:
            ctx.fail('%r: model.py kind letter %r, the compiler says %s' % (s, letter, exp_kind), case=case)
        if exp_kind == 'complex':
            continue
        if canon != 'char':
            neg = int(inline.cast(t1, -1)) < 0
            if neg != bool(g['negative']):
                ctx.fail('%r: int(cast(T, -1)) < 0 is %r, gcc says (T)-1 < 0 is %r' % (s, neg, bool(g['negative'])),
                         case=case)
        if exp_kind == 'int':
            if g['min'] is None:
                raise HarnessError('no limits macro known for %r' % canon)
            pt = _cffi_backend.new_pointer_type(t1)
            p = inline.new(pt)
            for v in (g['min'], g['max']):
                try:
                    p[0] = v
                except OverflowError:
                    ctx.fail('%r refuses %d, which is within [%d, %d] per the compiler' % (s, v, g['min'], g['max']),
                             case=case)
                if p[0] != v or int(inline.cast(t1, v)) != v:
                    ctx.fail('%r: stored %d, read %r' % (s, v, p[0]), case=case)
            for v in (g['min'] - 1, g['max'] + 1):
                try:
                    p[0] = v
                except OverflowError:
                    pass
                else:
                    ctx.fail('%r accepts %d, outside [%d, %d] per the compiler' % (s, v, g['min'], g['max']),
                             case=case)
        elif canon == 'wchar_t':
            # the integer range of wchar_t as seen through cast
            for v in (g['min'], g['max']):
                if int(inline.cast(t1, v)) != v:
                    ctx.fail('wchar_t: int(cast(%d)) = %d' % (v, int(inline.cast(t1, v))), case=case)


def prop(case, ctx):
    """replay entry: case = {'names': [spelling, ...]}"""
    table = dict((s, (s, c, cs)) for s, c, cs in spellings('thorough'))
    items = []
    for s in case['names']:
        if s not in table:
            raise HarnessError('unknown spelling %r' % s)
        items.append(table[s])
    _check(items, ctx, 'thorough')


def pre(ctx):
    items = spellings(ctx.tier)
    _check(items, ctx, ctx.tier)
    # the tables must not contain names the enumeration missed
    from cffi import cffi_opcode, model
    listed = set(c for _, c, _ in items)
    for name in cffi_opcode.PRIMITIVE_TO_INDEX:
        if name not in listed:
            ctx.fail('PRIMITIVE_TO_INDEX has %r, which ALL_PRIMITIVE_TYPES lacks' % name, case={'names': [name]})
    if sorted(cffi_opcode.PRIMITIVE_TO_INDEX.values()) != list(range(1, cffi_opcode._NUM_PRIM)):
        ctx.fail('PRIMITIVE_TO_INDEX does not cover the indices 1..%d exactly once' % (cffi_opcode._NUM_PRIM - 1),
                 case={'names': []})
    # every sequence of 1-4 specifier keywords that the C backend's typeof() accepts must be a name the
    # in-line FFI accepts too, for the same ctype (a name only the C parser knows would be "accepted by
    # typeof()" without the compiler or the other tables knowing it)
    import itertools, cffi, _cffi_backend
    bare, inl = _cffi_backend.FFI(), cffi.FFI()
    judged = set(sp for sp, _, _ in items)
    words = ['signed', 'unsigned', 'short', 'long', 'int', 'char', 'double', 'float']
    nseq = nacc = 0
    for n in range(1, 5):
        for seq in itertools.product(words, repeat=n):
            s = ' '.join(seq)
            nseq += 1
            try:
                t = bare.typeof(s)
            except Exception:
                continue
            nacc += 1
            try:
                t1 = inl.typeof(s)
            except Exception as e:
                ctx.fail('%r is accepted by the C backend typeof() as %r but rejected by the in-line FFI (%s: %s)'
                         % (s, t, type(e).__name__, e), case={'names': [s]})
            if t1 is not t:
                ctx.fail('%r: C backend typeof() gives %r, the in-line FFI %r' % (s, t, t1), case={'names': [s]})
            if s not in judged:
                # accepted by both parsers but not among the spellings compared with gcc above
                try:
                    cc.compile_shared('typedef %s verif_t;\n' % s, ctx.tmp, stem='c06seq%d' % nseq)
                except cc.CompileFailed:
                    ctx.fail('%r is accepted by both type-string parsers (as %r) but is not a type name in C '
                             '(gcc rejects it)' % (s, t), case={'names': [s]})
                raise HarnessError('%r is valid C and accepted by cffi but missing from the enumeration' % s)
    ctx.extra['specifier_sequences_enumerated'] = nseq
    ctx.extra['specifier_sequences_accepted_by_c_parser'] = nacc
    ctx.extra['exhaustive'] = True
    ctx.extra['spellings_enumerated'] = len(items)
