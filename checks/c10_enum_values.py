"""C10 -- enum values and underlying integer type match the C compiler.

Case: a batch of enum declarations.  Each enumerator is implicit (previous + 1),
an explicit literal (decimal or hex; values from G-INT over [-2**63, 2**64)), or
refers to an earlier enumerator of the same enum (`A`, `A + k`, `A - k`).  Only
what gcc accepts is generated: all values representable in long or in unsigned
long, no implicit increment out of INT_MAX / LONG_MAX / ULONG_MAX (gcc:
"overflow in enumeration values"), `A + k` without overflow in A's C type.

Oracle: a separate C translation unit per batch (compiled in the same gcc
invocation as the API module, never seen by cffi, read through ctypes) exports
every enumerator value, sizeof(enum e) and ((enum e)-1 < 0).  Compared in three modes, all built from
the same text: in-line FFI, out-of-line ABI module (emit_python_code), API module
(emit_c_code + gcc): lib.NAME, ffi.sizeof, int(ffi.cast(T, -1)) < 0.
ffi.string(ffi.cast(T, v)) is compared with a model (first declared name with
that value, else the decimal number) for every enumerator value, its
neighbours and the limits of the underlying type.
"""
import os
from hypothesis import strategies as st
from vlib.core import HarnessError
from vlib import cc

ID = 'C10'
LEVEL = 'exploration'
RULE = ('Hypothesis-generated enum declarations of 1-12 enumerators: implicit runs, explicit decimal/hex '
        'literals drawn from boundary-heavy G-INT over [-2**63, 2**64) (INT/UINT/LONG/ULONG limits +-2, '
        'small values for duplicates), references to earlier enumerators with +-k; tagged and '
        'typedef-anonymous forms; restricted to what gcc accepts.  Oracle = gcc -O0 (values, sizeof, '
        'sign) in in-line, out-of-line ABI and API mode + first-declared-name model for ffi.string.  '
        'An evaluation is one enum checked in all three modes; non-trivial = values reach outside the int '
        'range (min < 0 counts only together with max > INT_MAX) or are not all in [0, INT_MAX], or a duplicate '
        'value, or an implicit enumerator after an explicit one; distinct by (form, value tuple, which are implicit).')
TECHNIQUE = 'property-based differential testing against gcc in three cffi modes + reference model for ffi.string'
LEVEL_TEXT = ('Random search over enumerator value sequences concentrated on the int/unsigned/long/unsigned long '
              'decision boundaries; every value, size and sign is taken from gcc.')
LEVEL_NOTE = ('Trusted: gcc 12 x86-64 enum extension semantics (values beyond int), the generated text being '
              'accepted by gcc (generator-side rules), the ffi.string model written from the statement.')
ASSUMPTIONS = ['gcc 12 x86-64 is the platform C compiler (enumerators beyond int are a GNU extension)',
               'declarations that gcc rejects (implicit increment out of INT_MAX/LONG_MAX/ULONG_MAX, mixed negative '
               'and > LONG_MAX values) are outside the property and not generated']
BUDGET = {'quick': 48, 'thorough': 1920}
BATCH = {'quick': 40, 'thorough': 50}
MIN_PER_SHARD = 3
TIME = {'quick': 30, 'thorough': 720}

I31, U32, I63, U64 = 2 ** 31 - 1, 2 ** 32 - 1, 2 ** 63 - 1, 2 ** 64 - 1
NO_IMPLICIT_AFTER = (I31, I63, U64)
BOUNDARIES = sorted(set(
    [b + d for b in (0, I31, -I31 - 1, U32, I63, -I63 - 1, U64, 2 ** 15, 2 ** 16, 255) for d in (-2, -1, 0, 1, 2)]))
BOUNDARIES = [v for v in BOUNDARIES if -2 ** 63 <= v <= U64]


def _ctype_range(v):
    """range of the C type gcc gives to an enumerator whose value is v"""
    if -I31 - 1 <= v <= I31:
        return -I31 - 1, I31
    if -I63 - 1 <= v <= I63:
        return -I63 - 1, I63
    return 0, U64


def strategy(ctx):
    @st.composite
    def enum(draw):
        n = draw(st.integers(1, 12))
        flavour = draw(st.sampled_from(['small', 'small', 'boundary', 'boundary', 'edge', 'edge', 'wide']))
        if flavour == 'small':
            val = st.integers(-6, 20)
        elif flavour == 'edge':
            # one extreme value that decides the underlying type, the rest small (maybe negative)
            b = draw(st.sampled_from([I31, I31 + 1, U32, U32 + 1, I63, I63 + 1, U64, -I31 - 1, -I31 - 2, -I63 - 1]))
            val = st.one_of(st.just(b), st.integers(-2, 6), st.integers(0, 6))
        elif flavour == 'boundary':
            val = st.one_of(st.sampled_from(BOUNDARIES), st.sampled_from(BOUNDARIES), st.integers(-3, 12))
        else:
            val = st.one_of(st.integers(-2 ** 63, U64), st.integers(-2 ** 40, 2 ** 40), st.sampled_from(BOUNDARIES))
        # sign regime: with a negative value nothing may exceed LONG_MAX
        entries, values = [], []

        def admissible(v):
            lo = min(values + [v])
            hi = max(values + [v])
            return -2 ** 63 <= v <= U64 and not (lo < 0 and hi > I63)
        for i in range(n):
            c = draw(st.integers(0, 9))
            prev = values[-1] if values else -1
            if c < 4 and (not values or prev not in NO_IMPLICIT_AFTER) and admissible(prev + 1):
                entries.append(['imp'])
                values.append(prev + 1)
                continue
            if c < 6 and values:
                j = draw(st.integers(0, len(values) - 1))
                k = draw(st.integers(-20, 20))
                lo, hi = _ctype_range(values[j])
                if lo <= values[j] + k <= hi and admissible(values[j] + k):
                    entries.append(['ref', j, k])
                    values.append(values[j] + k)
                    continue
            if c == 7 and draw(st.booleans()):
                # a character constant (type int in C): plain characters, among them the letters and digits
                # that also name escape sequences, and the simple escapes themselves
                ch = draw(st.sampled_from(list("ntrabfv01234567") + list("Az9 !~#x\"{") + ['\\n', '\\t', '\\0', '\\\\', "\\'", '\\a', '\\7']))
                v = _CHAR_VALUES[ch] if ch in _CHAR_VALUES else ord(ch)
                if admissible(v):
                    entries.append(['chr', ch])
                    values.append(v)
                    continue
            if c == 6:
                # a quotient or remainder, of an earlier enumerator or of a literal (operands of one sign
                # regime, so that the C value is the truncating mathematical one whatever the C types are)
                op = draw(st.sampled_from(['/', '%']))
                d = draw(st.one_of(st.integers(1, 12), st.sampled_from([1, 2, 3, 7, 10, 255, 2 ** 16, 2 ** 32, 10 ** 9,
                                                                           2 ** 32 + 1, 2 ** 53 + 1, 2 ** 62 - 1])))
                if values and draw(st.booleans()):
                    j = draw(st.integers(0, len(values) - 1))
                    a, ent = values[j], ['refdiv', j, op, d]
                else:
                    a = draw(st.one_of(st.sampled_from([U64, U64 - 1, I63, I63 + 1, 2 ** 53 + 1, 2 ** 60 + 3, -I63,
                                                        -(2 ** 53) - 1, -(2 ** 62) - 5, 10 ** 18 + 7]),
                                       st.integers(2 ** 53, U64), st.integers(-I63, -(2 ** 53)), st.integers(-50, 50)))
                    ent = ['litdiv', a, op, d]
                v = _cdivmod(a, d, op)
                if admissible(v):
                    entries.append(ent)
                    values.append(v)
                    continue
            v = draw(val)
            if not admissible(v):
                v = draw(st.integers(0, 9))
            hexok = 0 <= v <= I31 or v > U32
            entries.append(['lit', v, 'hex' if hexok and draw(st.integers(0, 3)) == 2 else 'dec'])
            values.append(v)
        return {'typedef': draw(st.integers(0, 3)) == 1, 'entries': entries}
    # explicit batch size (st.lists alone averages ~6 elements whatever max_size is): one gcc
    # invocation per Hypothesis case, so batches should be large; still shrinks to a single enum
    return st.integers(1, BATCH[ctx.tier]).flatmap(lambda n: st.lists(enum(), min_size=n, max_size=n))


_CHAR_VALUES = {'\\n': 10, '\\t': 9, '\\0': 0, '\\\\': 92, "\\'": 39, '\\a': 7, '\\7': 7}


def _cdivmod(a, d, op):
    """C's truncating division / its remainder (d > 0)"""
    q = abs(a) // d
    if a < 0:
        q = -q
    return q if op == '/' else a - q * d


def values_of(e):
    vals = []
    for ent in e['entries']:
        if ent[0] == 'imp':
            vals.append(vals[-1] + 1 if vals else 0)
        elif ent[0] == 'lit':
            vals.append(ent[1])
        elif ent[0] == 'chr':
            vals.append(_CHAR_VALUES[ent[1]] if ent[1] in _CHAR_VALUES else ord(ent[1]))
        elif ent[0] == 'refdiv':
            vals.append(_cdivmod(vals[ent[1]], ent[3], ent[2]))
        elif ent[0] == 'litdiv':
            vals.append(_cdivmod(ent[1], ent[3], ent[2]))
        else:
            vals.append(vals[ent[1]] + ent[2])
    return vals


def _lit(v, style):
    if style == 'hex':
        return hex(v)
    if v == -2 ** 63:
        return '-9223372036854775807-1'
    return str(v)


def render(e, k):
    parts = []
    for i, ent in enumerate(e['entries']):
        name = 'E%d_%d' % (k, i)
        if ent[0] == 'imp':
            parts.append(name)
        elif ent[0] == 'lit':
            parts.append('%s = %s' % (name, _lit(ent[1], ent[2])))
        elif ent[0] == 'chr':
            parts.append("%s = '%s'" % (name, ent[1]))
        elif ent[0] == 'refdiv':
            parts.append('%s = E%d_%d %s %d' % (name, k, ent[1], ent[2], ent[3]))
        elif ent[0] == 'litdiv':
            a = ent[1]
            lit = ('-' + _lit(-a, 'dec')) if a < 0 else (hex(a) if a > I63 else str(a))
            parts.append('%s = %s %s %d' % (name, lit, ent[2], ent[3]))
        else:
            base = 'E%d_%d' % (k, ent[1])
            if ent[2] == 0:
                parts.append('%s = %s' % (name, base))
            else:
                parts.append('%s = %s %s %d' % (name, base, '+' if ent[2] > 0 else '-', abs(ent[2])))
    if e['typedef']:
        return 'typedef enum { %s } te%d;' % (', '.join(parts), k), 'te%d' % k
    return 'enum e%d { %s };' % (k, ', '.join(parts)), 'enum e%d' % k


def _oracle_source(batch):
    """C file (compiled by the same gcc invocation as the API module, as a separate translation
    unit that cffi never sees) exporting what the compiler makes of the declarations"""
    src, tt, vv, nn = [], [], [], []
    index = {}
    for k, e in enumerate(batch):
        txt, T = render(e, k)
        src.append(txt + '\n')
        tt.append('(int)sizeof(%s), (int)((%s)-1 < 0)' % (T, T))
        for i in range(len(e['entries'])):
            index[(k, i)] = len(vv)
            vv.append('(unsigned long long)E%d_%d' % (k, i))
            nn.append('(int)(E%d_%d < 0)' % (k, i))
    src.append('const int c10_types[] = { %s };\n' % ', '.join(tt))
    src.append('const unsigned long long c10_vals[] = { %s };\n' % ', '.join(vv))
    src.append('const int c10_neg[] = { %s };\n' % ', '.join(nn))
    return ''.join(src), index


def _read_oracle(so_path, batch, index):
    import ctypes
    lib = ctypes.CDLL(so_path)
    tt = (ctypes.c_int * (2 * len(batch))).in_dll(lib, 'c10_types')
    vv = (ctypes.c_ulonglong * len(index)).in_dll(lib, 'c10_vals')
    nn = (ctypes.c_int * len(index)).in_dll(lib, 'c10_neg')
    T = dict((k, (tt[2 * k], bool(tt[2 * k + 1]))) for k in range(len(batch)))
    V = {}
    for key, j in index.items():
        V[key] = vv[j] - 2 ** 64 if nn[j] else vv[j]
    return T, V


def prop(batch, ctx):
    import cffi
    text = '\n'.join(render(e, k)[0] for k, e in enumerate(batch))
    # ---- API module + compiler oracle: one gcc invocation (process creation is the scarce resource) ----
    osrc, oindex = _oracle_source(batch)
    opath = os.path.join(ctx.tmp, 'c10_oracle_%d_%d.c' % (os.getpid(), _counter()))
    with open(opath, 'w') as fp:
        fp.write(osrc)
    f3 = cffi.FFI()
    try:
        f3.cdef(text)
        modname = 'c10_api_%d_%d' % (os.getpid(), _counter())
        f3.set_source(modname, text)
        mod = cc.build_api_module(f3, modname, ctx.tmp, extra_flags=[opath])
    except cc.CompileFailed as e:
        if 'c10_oracle' in str(e):
            raise HarnessError('gcc rejected the oracle translation unit:\n%s\n%s' % (e, osrc))
        ctx.fail('the API-mode module generated for these enums does not compile: %s' % str(e)[-600:], cdef=text)
    except Exception as e:
        _blame(batch, 'API module generation', e, ctx)
    finally:
        os.unlink(opath)
    T, V = _read_oracle(mod.__file__, batch, oindex)
    # generator/model sanity against the compiler
    for k, e in enumerate(batch):
        vals = values_of(e)
        for i, v in enumerate(vals):
            if V[(k, i)] != v:
                raise HarnessError('model value of E%d_%d is %d, gcc says %d\n%s' % (k, i, v, V[(k, i)], render(e, k)[0]))
    modes = []
    # ---- in-line ----
    try:
        f1 = cffi.FFI()
        f1.cdef(text)
        modes.append(('in-line', f1, f1.dlopen(None)))
    except Exception as e:
        _blame(batch, 'in-line cdef', e, ctx)
    # ---- out-of-line ABI ----
    try:
        f2 = cffi.FFI()
        f2.cdef(text)
        name = 'c10_ool_%d_%d' % (os.getpid(), _counter())
        f2.set_source(name, None)
        py = os.path.join(ctx.tmp, name + '.py')
        f2.emit_python_code(py)
        ns = {}
        with open(py) as fp:
            exec(compile(fp.read(), py, 'exec'), ns)
        os.unlink(py)
        modes.append(('out-of-line ABI', ns['ffi'], ns['ffi'].dlopen(None)))
    except Exception as e:
        _blame(batch, 'out-of-line ABI module generation', e, ctx)
    modes.append(('API', mod.ffi, mod.lib))

    for k, e in enumerate(batch):
        txt, Tn = render(e, k)
        vals = values_of(e)
        gsize, gneg = T[k]
        lo, hi = min(vals), max(vals)
        implicit_after_explicit = any(ent[0] == 'imp' and i > 0 and any(x[0] != 'imp' for x in e['entries'][:i])
                                      for i, ent in enumerate(e['entries']))
        dup = len(set(vals)) != len(vals)
        beyond_int = lo < -I31 - 1 or hi > I31
        cls = ['underlying=%s%d' % ('int' if gneg else 'uint', gsize * 8),
               'typedef' if e['typedef'] else 'tagged']
        if dup:
            cls.append('duplicate-values')
        if implicit_after_explicit:
            cls.append('implicit-after-explicit')
        if any(ent[0] == 'chr' for ent in e['entries']):
            cls.append('character-constant')
        if any(ent[0] in ('refdiv', 'litdiv') for ent in e['entries']):
            cls.append('quotient-or-remainder-expression')
            if any(ent[0] == 'litdiv' and abs(ent[1]) > 2 ** 53 or
                   ent[0] == 'refdiv' and abs(values_of(e)[ent[1]]) > 2 ** 53 for ent in e['entries']):
                cls.append('division-operand-beyond-2**53')
        if any(ent[0] == 'ref' for ent in e['entries']):
            cls.append('refers-to-earlier')
        if any(ent[0] == 'lit' and ent[2] == 'hex' for ent in e['entries']):
            cls.append('hex-literal')
        for name, b in (('INT_MAX', I31), ('INT_MAX+1', I31 + 1), ('UINT_MAX', U32), ('UINT_MAX+1', U32 + 1),
                        ('LONG_MAX', I63), ('LONG_MAX+1', I63 + 1), ('ULONG_MAX', U64), ('INT_MIN', -I31 - 1),
                        ('INT_MIN-1', -I31 - 2), ('LONG_MIN', -I63 - 1)):
            if hi == b or lo == b:
                cls.append('extreme=' + name)
        ctx.note([e['typedef'], vals, [ent[0] == 'imp' for ent in e['entries']]],
                 beyond_int or dup or implicit_after_explicit, cls)
        tmin, tmax = (-(1 << (gsize * 8 - 1)), (1 << (gsize * 8 - 1)) - 1) if gneg else (0, (1 << (gsize * 8)) - 1)
        probe = set()
        for v in vals:
            probe.update((v - 1, v, v + 1))
        probe.update((tmin, tmax, 0, 1, tmax - 1, tmin + 1))
        probe = sorted(v for v in probe if tmin <= v <= tmax)
        first = {}
        for i, v in enumerate(vals):
            first.setdefault(v, 'E%d_%d' % (k, i))
        for label, ffi, lib in modes:
            where = '%s mode, %s' % (label, txt)
            try:
                size = ffi.sizeof(Tn)
                neg = int(ffi.cast(Tn, -1)) < 0
            except Exception as ex:
                ctx.fail('%s: sizeof/cast raised %s: %s' % (where, type(ex).__name__, ex))
            if size != gsize:
                ctx.fail('%s: ffi.sizeof = %d, gcc sizeof = %d' % (where, size, gsize), values=vals)
            if neg != gneg:
                ctx.fail('%s: int(cast(T, -1)) < 0 is %r, gcc says %r' % (where, neg, gneg), values=vals)
            for i, v in enumerate(vals):
                try:
                    got = getattr(lib, 'E%d_%d' % (k, i))
                except Exception as ex:
                    ctx.fail('%s: reading lib.E%d_%d raised %s: %s' % (where, k, i, type(ex).__name__, ex), values=vals)
                if got != v or type(got) is not int:
                    ctx.fail('%s: lib.E%d_%d = %r, gcc says %d' % (where, k, i, got, v), values=vals)
            for v in probe:
                try:
                    s = ffi.string(ffi.cast(Tn, v))
                except Exception as ex:
                    ctx.fail('%s: ffi.string(cast(T, %d)) raised %s: %s' % (where, v, type(ex).__name__, ex))
                exp = first.get(v, str(v))
                if s != exp:
                    ctx.fail('%s: ffi.string(cast(T, %d)) = %r, expected %r' % (where, v, s, exp), values=vals)
                ctx.event('ffi.string-compared')


_n = [0]


def _counter():
    _n[0] += 1
    return _n[0]


def _blame(batch, what, exc, ctx):
    """a whole-batch step failed: find the single enum that triggers it"""
    import cffi
    for k, e in enumerate(batch):
        txt = render(e, k)[0]
        try:
            f = cffi.FFI()
            f.cdef(txt)
            if 'ABI' in what:
                f.set_source('c10_blame', None)
                f.emit_python_code(os.path.join(ctx.tmp, 'c10_blame.py'))
        except Exception as e2:
            ctx.fail('%s raised %s: %s' % (what, type(e2).__name__, e2), cdef=txt, values=values_of(e))
    ctx.fail('%s raised %s: %s' % (what, type(exc).__name__, exc), cdef='(whole batch)')
