"""C31 -- comments, white space, backslash-newline continuations (in #define lines)
and '# N "file"' line directives inserted between the tokens of a cdef do not
change its meaning (metamorphic).

Case: {'spec': G-CDEF spec, 'extras': [indices of extra declaration forms that
exercise the "..." / extern "Python" / __stdcall rewriting], 'plan': [[pos, kind,
a, b], ...]} (pos: an integer taken modulo the weighted gap list, or [line, gap]).  The cdef is tokenised line by line (vlib/cdefdeco.py); every plan
entry inserts one piece of C white space (kind, text selected by a, b) into the
gap selected by pos.  Kinds that are not legal C at that gap (a raw newline or a
line directive inside a #define line, ...) are mapped to legal ones.

Oracle: the decorated cdef must be accepted, and compared with the plain cdef
 * ffi._parser._declarations: same keys, same structural description of every
   declared type / constant, same _int_constants;
 * emit_c_code() text byte-identical (set_source(name, <C source>));
 * if the cdef has no API-only form: emit_python_code() text byte-identical and
   typeof/sizeof/alignof/fields of every named type equal in the two FFIs.
No compiler is involved.
"""
import io, re, warnings, contextlib
from hypothesis import strategies as st
from vlib.core import Violation, HarnessError, h64
from vlib import cdefgen, cdefdeco
from vlib.typecmp import TypeCmp, named_types

ID = 'C31'
LEVEL = 'exploration'
RULE = ('Hypothesis-generated G-CDEF cdefs (plus extra lines with "..." partial forms, variadic functions, '
        'extern "Python" / "Python+C" (single and block), __stdcall) x plans of 0-12 insertions at token gaps: '
        '/* */ comments (one-line and multi-line, text containing comment openers, quotes, #define, "...", '
        'directive-like lines), // comments (also continued with backslash-newline), blanks / tabs / newlines / '
        'form feed / vertical tab / CR, backslash-newline inside #define lines, # N "file" directives (file names '
        'containing /* // */ and quotes).  An evaluation is one (cdef, plan); non-trivial = >= 3 insertions of '
        '>= 2 kinds with at least one inside a #define line or between the tokens of a declaration; distinct by '
        '(cdef text, rendered decoration).')
TECHNIQUE = 'metamorphic: plain vs decorated cdef -> declarations, layouts, emit_c_code/emit_python_code text'
LEVEL_TEXT = ('random search over (cdef, insertion plan); every insertion kind is tried at every kind of gap '
              '(class histogram); equality of parser declarations and of the generated module sources')
LEVEL_NOTE = ('the plain cdef is the reference; insertions are restricted to what a C compiler treats as white '
              'space at that position (no raw newline or line directive inside a #define line, // only at its end)')
ASSUMPTIONS = ['the value of a cdef "#define NAME NUMBER" is one token (a sign belongs to the NUMBER)',
               'line directives occupy a line of their own',
               'the tokeniser of vlib/cdefdeco.py splits generated cdef lines exactly at C token boundaries']
BUDGET = {'quick': 1600, 'thorough': 100000}
MIN_PER_SHARD = 50
TIME = {'quick': 15, 'thorough': 800}

FEATURES = cdefgen.DEFAULT_FEATURES | frozenset(['anon', 'anon_td', 'file', 'gvar_any', 'variadic'])

TAG_BS = 'define-continuation-before-name'
TAG_CM = 'multiline-comment-inside-define'
TAG_WS = 'formfeed-vtab-cr-whitespace'
TAG_LDPH = 'line-directive-inside-regex-rewritten-form'
TAG_CDIR = 'comment-closing-on-directive-like-line'
_DIRECTIVE_LIKE = re.compile(r'^[ \t]*#[ \t]*(?:line|\d+)\b')
_INTISH = ('int', 'long', 'short', 'signed', 'unsigned', 'char', 'float', 'double')

# extra declaration forms (text, is_define, api_only); %d = a unique number
EXTRAS = [
    ('int xfv%d(int, ...);', False, False),
    ('extern int xga%d[...];', False, True),
    ('enum xep%d { XEPA%d, XEPB%d = ..., XEPC%d, ... };', False, True),
    ('typedef int... xti%d;', False, True),
    ('struct xsp%d { int a; ...; };', False, True),
    ('#define XDP%d ...', True, True),
    ('extern "Python" int xcb%d(int, long);', False, True),
    ('extern "Python+C" void xcc%d(void);', False, True),
    ('extern "Python" { int xcd%d(int); void xce%d(char *); }', False, True),
    ('typedef struct { int a; ...; } xtsp%d;', False, True),
    ('static const int XKP%d;', False, True),
    ('int __stdcall xfs%d(int);', False, False),
    ('typedef int (__stdcall *xfst%d)(int);', False, False),
    ('typedef float... xtf%d;', False, True),
    ('void xfw%d(const char *, ...);', False, False),
    ('#define XDN%d 0x7fffffffffffffff', True, False),
    ('#define XDM%d -12', True, False),
    ('#define XDO%d 017', True, False),
]


def strategy(ctx):
    ins = st.tuples(st.integers(0, 99999), st.integers(0, len(cdefdeco.KINDS) - 1),
                    st.integers(0, 199), st.integers(0, 199)).map(list)
    return st.fixed_dictionaries({
        'spec': cdefgen.specs(FEATURES, 1, 8),
        'extras': st.lists(st.integers(0, len(EXTRAS) - 1), max_size=3),
        'plan': st.lists(ins, min_size=1, max_size=12),
    })


# ---------------------------------------------------------------- description of parser state

def _describe(tp, memo):
    from cffi import model
    if not isinstance(tp, model.BaseTypeByIdentity):
        if isinstance(tp, tuple):
            return [_describe(x, memo) for x in tp]
        return tp                               # int / str / None
    if id(tp) in memo:
        return ['ref', memo[id(tp)]]
    memo[id(tp)] = len(memo)
    d = [tp.__class__.__name__]
    for name, v in tp._get_items():
        d.append([name, _describe(v, memo)])
    if isinstance(tp, model.StructOrUnion):
        d.append(['forcename', tp.forcename])
        d.append(['fldnames', tp.fldnames])
        d.append(['fldtypes', _describe(tp.fldtypes, memo) if tp.fldtypes is not None else None])
        d.append(['fldbitsize', tp.fldbitsize])
        d.append(['fldquals', tp.fldquals])
        d.append(['partial', tp.partial])
        d.append(['packed', tp.packed])
    elif isinstance(tp, model.EnumType):
        d.append(['forcename', tp.forcename])
        d.append(['enumerators', tp.enumerators])
        d.append(['enumvalues', tp.enumvalues])
        d.append(['partial', tp.partial])
    return d


def _parser_state(ffi):
    p = ffi._parser
    out = {}
    for key in sorted(p._declarations):
        tp, quals = p._declarations[key]
        out[key] = [quals, _describe(tp, {})]
    return out, dict(p._int_constants)


def _emit(ffi, how):
    f = io.StringIO()
    with contextlib.redirect_stdout(io.StringIO()):
        if how == 'c':
            ffi.emit_c_code(f)
        else:
            ffi.emit_python_code(f)
    return f.getvalue()


def _btype(ffi, key):
    with ffi._lock:
        return ffi._get_cached_btype(ffi._parser._declarations[key][0])


def _make(cdef, name, csrc):
    import cffi
    f = cffi.FFI()
    f.cdef(cdef)
    f.set_source(name, csrc)
    return f


# ---------------------------------------------------------------- the property

def build(case):
    """-> lines, plain text, decorated text, insertions {(line, gap): [(kind, a, b)]}, gap kinds, api_only"""
    spec = case['spec']
    lines = [(t, bool(d)) for t, d in cdefgen.decl_lines(spec)]
    api_only = False
    for j, e in enumerate(case.get('extras', [])):
        text, is_define, api = EXTRAS[e % len(EXTRAS)]
        lines.append((text.replace('%d', str(j)), is_define))
        api_only = api_only or api
    gaps = cdefdeco.all_gaps(lines)
    # gaps inside #define lines and next to '...' / string tokens are rarer but more interesting
    weighted = []
    toks = [cdefdeco.tokenize(t, d) for t, d in lines]
    for i, g, gk in gaps:
        w = 1
        if gk in ('d#', 'dname', 'dvalue', 'dend'):
            w = 8
        elif gk == 'inner' and any(t == '...' or t.startswith('"') or t in ('__stdcall', 'extern')
                                   for t in toks[i][max(0, g - 1):g + 1]):
            w = 4
        weighted += [(i, g, gk)] * w
    insertions = {}
    gk_of = dict(((i, g), gk) for i, g, gk in gaps)
    for pos, kind_i, a, b in case['plan']:
        if isinstance(pos, list):            # explicit [line, gap] address (hand-written cases)
            i, g = pos
            gk = gk_of[(i, g)]
        else:
            i, g, gk = weighted[pos % len(weighted)]
        kind = cdefdeco.effective_kind(cdefdeco.KINDS[kind_i % len(cdefdeco.KINDS)], gk)
        insertions.setdefault((i, g), []).append((kind, a, b))
    return lines, toks, insertions, gk_of, api_only


def _known_filter(insertions, gk_of, toks, ctx):
    """remove the insertions that fall under a listed known finding"""
    def drop(pred, tag):
        hit = [(key, x) for key, lst in insertions.items() for x in lst if pred(key, x)]
        if hit and ctx.skip_known(tag):
            for key, x in hit:
                insertions[key].remove(x)
    drop(lambda key, x: x[0] == 'bs' and gk_of[key] in ('d#', 'dname'), TAG_BS)

    def cm_cuts_define(key, x):
        # a comment with a newline inside a #define line, with more of the directive after it
        # (the value, or a backslash-newline at the end)
        if x[0] != 'cm':
            return False
        if gk_of[key] == 'dvalue':
            return True
        lst = insertions[key]
        return gk_of[key] == 'dend' and any(y[0] == 'bs' for y in lst[lst.index(x) + 1:])
    drop(cm_cuts_define, TAG_CM)
    drop(lambda key, x: x[0] == 'ws' and any(c in cdefdeco.render_insertion(*x) for c in ('\f', '\v', '\r')),
         TAG_WS)

    def inside_rewritten_form(key, x):
        # cparser cuts line directives out (leaving a '#line@N' placeholder line) and then rewrites
        #   extern "Python" ..   X \s* ... \s* Y  (enum / array / 'int...' forms)   ( \s* __stdcall
        # with regular expressions for which the placeholder is not white space
        i, g = key
        if x[0] != 'ld' or not 0 < g < len(toks[i]):
            return False
        a, b = toks[i][g - 1], toks[i][g]
        return (a.startswith('"Python') or b.startswith('"Python') or
                (b == '...' and (a in ('=', '[') or a in _INTISH)) or
                (a == '...' and b in (',', '}', ']')) or
                (a == '(' and b in ('__stdcall', 'WINAPI')))
    drop(inside_rewritten_form, TAG_LDPH)

    def closes_on_directive_like_line(key, x):
        if x[0] != 'cm':
            return False
        text = cdefdeco.render_insertion(*x)
        return bool(_DIRECTIVE_LIKE.match(text.split('\n')[-1]))
    drop(closes_on_directive_like_line, TAG_CDIR)
    for key in [k for k, v in insertions.items() if not v]:
        del insertions[key]


def prop(case, ctx):
    lines, toks, insertions, gk_of, api_only = build(case)
    _known_filter(insertions, gk_of, toks, ctx)
    plain = ''.join(t + '\n' for t, _ in lines)
    deco = cdefdeco.decorate(lines, insertions)
    csrc = cdefgen.c_source(case['spec'])
    detail = {'plain': plain, 'decorated': deco}

    with warnings.catch_warnings():
        warnings.simplefilter('ignore')
        try:
            p_c = _make(plain, 'c31mod', csrc)
        except Exception as e:
            raise HarnessError('the plain cdef is rejected (%s: %s):\n%s' % (type(e).__name__, e, plain))
        try:
            d_c = _make(deco, 'c31mod', csrc)
        except Exception as e:
            ctx.fail('the decorated cdef is rejected: %s: %s' % (type(e).__name__, str(e)[:300]), **detail)

        s1, k1 = _parser_state(p_c)
        s2, k2 = _parser_state(d_c)
        if sorted(s1) != sorted(s2):
            ctx.fail('declaration keys differ: only plain %r, only decorated %r'
                     % (sorted(set(s1) - set(s2)), sorted(set(s2) - set(s1))), **detail)
        for key in sorted(s1):
            if s1[key] != s2[key]:
                ctx.fail('declaration %r differs: plain %r, decorated %r' % (key, s1[key], s2[key]), **detail)
        if k1 != k2:
            ctx.fail('integer constants differ: plain %r, decorated %r' % (k1, k2), **detail)

        c1, c2 = _emit(p_c, 'c'), _emit(d_c, 'c')
        if c1 != c2:
            ctx.fail('emit_c_code() output differs', **detail)

        if not api_only:
            p_py, d_py = _make(plain, 'c31mod', None), _make(deco, 'c31mod', None)
            y1, y2 = _emit(p_py, 'py'), _emit(d_py, 'py')
            if y1 != y2:
                ctx.fail('emit_python_code() output differs', plain_module=y1, decorated_module=y2, **detail)

            def fail(what, path, a, b):
                ctx.fail('%s differs at %s: plain %s, decorated %s' % (what, path, a, b), **detail)
            cmp = TypeCmp(p_py, d_py, fail)
            names = named_types(case['spec']['decls'])
            names += [n for n in ('xfst0', 'xfst1', 'xfst2') if ('typedef ' + n) in s1]
            for n in names:
                cmp.same(p_py.typeof(n), d_py.typeof(n), 'typeof(%r)' % n)
            for key in sorted(s1):
                kind, name = key.split(' ', 1)
                if kind in ('function', 'variable'):
                    cmp.same(_btype(p_py, key), _btype(d_py, key), key)

    # ---- accounting
    flat = [(gk_of[key], x[0]) for key, lst in sorted(insertions.items()) for x in lst]
    kinds = set(k for _, k in flat)
    deep = any(gk in ('d#', 'dname', 'dvalue', 'dend', 'inner') for gk, _ in flat)
    cls = ['%s@%s' % (k, gk) for gk, k in flat]
    cls.append('api-only-forms' if api_only else 'abi-compatible')
    for e in case.get('extras', []):
        cls.append('extra:' + EXTRAS[e % len(EXTRAS)][0].split('%d')[0].strip())
    if not flat:
        cls.append('no-insertion')
    ctx.note([h64(plain), h64(deco)], len(flat) >= 3 and len(kinds) >= 2 and deep, cls)
