"""C25 -- every declared name is found by the runtime lookup of the generated
tables, resolves to its own entry, and no undeclared name is found.

(a) pre(): exhaustive small scope against the real search_sorted().  A C
    harness #includes parse_c_type.c from the tree under test.  ALL sets of at
    most 4 identifiers among the 63 identifiers of length <= 3 over the alphabet
    {A, a, _, 0} (4 places of the byte order: '0' < 'A' < '_' < 'a') are laid
    out as a table in the order of Python's sorted() -- the order
    recompiler.collect_step_tables() gives the generated tables -- and probed,
    through search_in_typenames / globals / struct_unions / enums (four different
    strides), with all 63 identifiers, each probe embedded in a longer buffer
    (the lookup gets (pointer, length), not a NUL-terminated string).  Expected:
    the index of the probe in the set, or -1.

(b) Hypothesis: sets of 1-60 identifiers built to collide (shared prefixes, one
    a prefix of another, differing in the last character, case variants, '_' /
    digit neighbours, long common prefixes), each name being at the same time
    an integer constant, a struct tag, an enum tag and a typedef name of an
    out-of-line ABI module (thorough tier: for some cases also an API-mode
    module, where C forces one role per name).  Every declared name must
    resolve to *its own* entry (constant value, struct size, enumerator value,
    typedef'ed array length are all index+1), also when followed by more text
    ('NAME *'); every undeclared probe (prefixes, extensions by one character,
    last-character neighbours) must not be found in any of the four tables.
"""
import os, sys, io, types, warnings, contextlib
from hypothesis import strategies as st
from vlib.core import Violation, HarnessError
from vlib import cc, env

ID = 'C25'
LEVEL = 'exploration'
RULE = ('(a) exhaustive: all 637,392 sets of 1-4 identifiers out of the 63 identifiers of length <= 3 over '
        '{A,a,_,0}, in sorted() order, each probed with all 63 identifiers through the four search_in_* functions '
        'compiled from parse_c_type.c (one evaluation per set; the counts measured by the harness are in '
        'coverage.exhaustive).  (b) Hypothesis-generated colliding identifier sets (1-60 names over {a,b,A,B,_,0,1}, '
        'length <= 40) realised as generated modules; an evaluation is one module; non-trivial = the set contains '
        'two names one of which is a prefix of the other; distinct by the name set.')
TECHNIQUE = ('exhaustive small-scope enumeration against the compiled search_sorted + random colliding name sets '
             'through generated out-of-line modules')
LEVEL_TEXT = ('part (a) is a complete enumeration of its finite scope (exhaustive: true); part (b) is random search '
              'over larger name sets through the full generator -> loader -> lookup path')
LEVEL_NOTE = ('the small scope has <= 4 names of <= 3 characters; longer names and larger tables are covered only by '
              'the random part.  Names are ASCII identifiers that cannot spell a C keyword or a common type.')
ASSUMPTIONS = ['Python sorted() on the names is the order of the generated tables (recompiler.collect_step_tables)',
               'the harness calls the static search_in_* functions of parse_c_type.c by #including the file',
               'ABI-mode modules may use one identifier as constant, struct tag, enum tag and typedef at once '
               '(cffi keeps four tables); API-mode modules get one role per name']
BUDGET = {'quick': 480, 'thorough': 30000}
MIN_PER_SHARD = 10
CRASHY = True      # a lookup that loses a struct ends in Py_FatalError: reported as a violation of the case
TIME = {'quick': 15, 'thorough': 800}

ALPHA = 'abAB_01'
SMALL_ALPHA = 'Aa_0'


# ---------------------------------------------------------------- (a) exhaustive small scope

def small_identifiers():
    ids = []
    for n in (1, 2, 3):
        def rec(prefix):
            if len(prefix) == n:
                ids.append(prefix)
                return
            for c in SMALL_ALPHA:
                if prefix == '' and c == '0':
                    continue
                rec(prefix + c)
        rec('')
    return sorted(ids)                 # Python's order, as in collect_step_tables()


HARNESS = r'''
#include <stdint.h>
#include <stdio.h>
#include <string.h>
#include "parse_c_type.c"
static const char *get_common_type(const char *search, size_t search_len)
{ (void)search; (void)search_len; return NULL; }

#define NIDS %(nids)d
static const char *ids[NIDS] = { %(ids)s };     /* in Python sorted() order */
static char probes[NIDS][8];                    /* identifier followed by junk, no NUL right after */
static size_t plen[NIDS];

static struct _cffi_typename_s     t_tn[4];
static struct _cffi_global_s       t_gl[4];
static struct _cffi_struct_union_s t_su[4];
static struct _cffi_enum_s         t_en[4];
static struct _cffi_type_context_s ctx;
static unsigned long long nsets, nlookups, nmismatch, nprefixsets;
static char first[256];

static void check(const int *sel, int n)
{
    int i, j, k;
    int prefix = 0;
    memset(t_tn, 0, sizeof t_tn); memset(t_gl, 0, sizeof t_gl);
    memset(t_su, 0, sizeof t_su); memset(t_en, 0, sizeof t_en);
    for (i = 0; i < n; i++) {
        t_tn[i].name = t_gl[i].name = t_su[i].name = t_en[i].name = ids[sel[i]];
        for (j = 0; j < n; j++)
            if (i != j && strlen(ids[sel[i]]) < strlen(ids[sel[j]]) &&
                !strncmp(ids[sel[i]], ids[sel[j]], strlen(ids[sel[i]])))
                prefix = 1;
    }
    ctx.typenames = t_tn; ctx.globals = t_gl; ctx.struct_unions = t_su; ctx.enums = t_en;
    ctx.num_typenames = ctx.num_globals = ctx.num_struct_unions = ctx.num_enums = n;
    nsets++; nprefixsets += prefix;
    for (k = 0; k < NIDS; k++) {
        int expect = -1, got[4];
        for (i = 0; i < n; i++)
            if (sel[i] == k) expect = i;
        got[0] = search_in_typenames(&ctx, probes[k], plen[k]);
        got[1] = search_in_globals(&ctx, probes[k], plen[k]);
        got[2] = search_in_struct_unions(&ctx, probes[k], plen[k]);
        got[3] = search_in_enums(&ctx, probes[k], plen[k]);
        nlookups += 4;
        for (j = 0; j < 4; j++)
            if (got[j] != expect) {
                if (!nmismatch) {
                    char *p = first;
                    p += sprintf(p, "table=%%d probe=%%s expect=%%d got=%%d names=", j, ids[k], expect, got[j]);
                    for (i = 0; i < n; i++) p += sprintf(p, "%%s%%s", i ? "," : "", ids[sel[i]]);
                }
                nmismatch++;
            }
    }
}

int main(void)
{
    int a, b, c, d, sel[4], k;
    for (k = 0; k < NIDS; k++) {
        plen[k] = strlen(ids[k]);
        memset(probes[k], 'z', 7); probes[k][7] = 0;
        memcpy(probes[k], ids[k], plen[k]);
        /* the byte right after the probe: a character that also occurs in identifiers */
        probes[k][plen[k]] = "Aa_0z"[k %% 5];
    }
    check(sel, 0);
    for (a = 0; a < NIDS; a++) {
        sel[0] = a; check(sel, 1);
        for (b = a + 1; b < NIDS; b++) {
            sel[1] = b; check(sel, 2);
            for (c = b + 1; c < NIDS; c++) {
                sel[2] = c; check(sel, 3);
                for (d = c + 1; d < NIDS; d++) { sel[3] = d; check(sel, 4); }
            }
        }
    }
    printf("sets=%%llu lookups=%%llu prefixsets=%%llu mismatches=%%llu\n", nsets, nlookups, nprefixsets, nmismatch);
    if (nmismatch) printf("first: %%s\n", first);
    return 0;
}
'''


def pre(ctx):
    ids = small_identifiers()
    if len(ids) != 63:
        raise HarnessError('expected 63 identifiers, got %d' % len(ids))
    src = HARNESS % {'nids': len(ids), 'ids': ', '.join('"%s"' % s for s in ids)}
    out = cc.compile_and_run(src, ctx.tmp, flags=['-O1', '-I' + os.path.join(env.REPO, 'src', 'c')])
    line = out.strip().splitlines()
    vals = dict(kv.split('=') for kv in line[0].split())
    nsets, nlook, npre, nmis = (int(vals[k]) for k in ('sets', 'lookups', 'prefixsets', 'mismatches'))
    if nsets != 1 + 63 + 1953 + 39711 + 595665:
        raise HarnessError('harness enumerated %d sets' % nsets)
    ctx.extra['exhaustively_enumerated_part'] = {'exhaustive': True, 'identifiers': len(ids), 'sets': nsets, 'lookups': nlook,
                               'sets_with_a_name_prefix_of_another': npre, 'mismatches': nmis}
    ctx.note(['exhaustive-small-scope', nsets], True, 'exhaustive:set-of-<=4-small-identifiers', n=nsets)
    if nmis:
        info = dict(kv.split('=', 1) for kv in line[1][len('first: '):].split())
        names = info['names'].split(',') if info.get('names') else []
        case = {'names': names, 'probes': [info['probe']], 'api': False}
        ctx.fail('search_sorted: %d wrong lookups in the exhaustive small scope; first: table %s, names %r, '
                 'probe %r: expected index %s, got %s' % (nmis, 'typenames globals struct_unions enums'.split()[int(info['table'])],
                                                         names, info['probe'], info['expect'], info['got']),
                 case=case)


# ---------------------------------------------------------------- (b) random colliding sets

# identifiers that are not C keywords but are names the runtime knows by itself (standard typedefs, cffi's
# common types) or that begin with a keyword of the type-string tokenizer: a module may declare them, and
# then its own entry is what the lookup has to find (cf. test_override_default_definition)
SPECIAL = ['bool', 'int8_t', 'uint8_t', 'int16_t', 'uint16_t', 'int32_t', 'uint32_t', 'int64_t', 'uint64_t',
           'intptr_t', 'uintptr_t', 'size_t', 'ssize_t', 'ptrdiff_t', 'intmax_t', 'uintmax_t', 'wchar_t',
           'char16_t', 'char32_t', 'FILE', 'off_t', 'int_least8_t', 'uint_least64_t', 'int_fast16_t',
           'uint_fast32_t', 'va_list', '_cffi_float_complex_t', '_cffi_double_complex_t', 'boolean', 'int_',
           'intx', 'longlong', 'shorts', 'chars', 'floats', 'doubles', 'voids', 'signed_', 'unsigned_',
           'structs', 'unions', 'enums', 'consts', 'volatiles', '_Bool_', '_Complexx', '__int128_',
           '__stdcall_', '__cdecl_', 'restrict_', 'complex', 'int8', 'uint', 'Bool', '_bool', '__int128_t',
           'BOOL', 'DWORD', 'HANDLE', 'wint_t', 'time_t', 'pid_t', 'struct_cord', 'union_node', 'enum_info_t',
           'struct_', 'unionx', 'enum0', 'node', 'cord', 'info_t']
SPECIAL_SET = frozenset(SPECIAL)


def _valid(n):
    return n in SPECIAL_SET or (0 < len(n) <= 40 and n[0] not in '01' and all(c in ALPHA for c in n))


def strategy(ctx):
    ch = st.sampled_from(ALPHA)

    @st.composite
    def names(draw):
        stems = draw(st.lists(st.text(ALPHA, min_size=1, max_size=6), min_size=1, max_size=4))
        if draw(st.integers(0, 3)) == 0:
            stems.append(draw(st.text(ALPHA, min_size=20, max_size=36)))
        out = []
        for _ in range(draw(st.integers(1, 60))):
            base = draw(st.sampled_from(stems + out[-6:]))
            op = draw(st.integers(0, 7))
            if op == 0:
                n = base
            elif op == 1:
                n = base + draw(ch)
            elif op == 2:
                n = base[:-1]
            elif op == 3:
                n = base[:-1] + draw(ch)
            elif op == 4:
                n = base.swapcase()
            elif op == 5:
                n = base + draw(st.sampled_from(['_', '0', '1', '__', '_0']))
            elif op == 6:
                k = draw(st.integers(0, len(base)))
                n = base[:k]
            else:
                k = draw(st.integers(0, len(base) - 1))
                n = base[:k] + draw(ch) + base[k + 1:]
            if n and n[0] in '01':
                n = '_' + n
            if _valid(n) and n not in out:
                out.append(n)
        if not out:
            out = ['a']
        if draw(st.integers(0, 2)) == 0:
            for sp in draw(st.lists(st.sampled_from(SPECIAL), min_size=1, max_size=4, unique=True)):
                out.insert(draw(st.integers(0, len(out))), sp)
        return out

    def with_probes(ns):
        return st.fixed_dictionaries({
            'names': st.just(ns),
            'probes': st.lists(st.text(ALPHA, min_size=1, max_size=8), max_size=6),
            # an API-mode build costs a gcc run: about one case in 20, thorough tier only
            'api': (st.sampled_from([False] * 19 + [True]) if ctx.tier == 'thorough' else st.just(False)),
            'file': st.sampled_from([False, False, True]),
        })
    return names().flatmap(with_probes)


def _probes(names, extra):
    s = set(names)
    out = []

    def add(p):
        if _valid(p) and p not in SPECIAL_SET and p not in s and p not in out:      # (bool *is* a type)
            out.append(p)
    for n in names:
        add(n[:-1])
        add(n[:1])
        for c in ALPHA:
            add(n + c)
            add(n[:-1] + c)
        add(n.swapcase())
        add(n.lower())
        add(n.upper())
        add('_' + n)
    for p in extra:
        add(p if p[0] not in '01' else '_' + p)
    return out[:400]


def _anon_td(n):
    """is the typedef named n declared as 'typedef struct { ... } n;' (an anonymous struct known by its
    typedef name only) rather than as an array typedef?"""
    return n.startswith(('struct', 'union', 'enum')) or sum(map(ord, n)) % 4 == 0


def _typedef_line(n, i):
    if _anon_td(n):
        return 'typedef struct { char Qf[%d]; } %s;' % (i + 1, n)
    return 'typedef char %s[%d];' % (n, i + 1)


def _enumerator(i):
    return 'Q%d' % i                      # 'Q' is not in ALPHA: never equal to a generated name


def _abi_module(names, k, tmp, uses_file=False):
    import cffi
    lines = []
    if uses_file:
        # an undeclared 'FILE' makes the generator add table entries of its own (typedef FILE,
        # struct _IO_FILE) after the declared ones were collected
        lines.append('int c25_uses_file(FILE *);')
    for i, n in enumerate(names):
        lines.append('struct %s { char Qf[%d]; };' % (n, i + 1))
        lines.append('enum %s { %s = %d };' % (n, _enumerator(i), i + 1))
    for i, n in enumerate(names):
        lines.append(_typedef_line(n, i))
        lines.append('#define %s %d' % (n, i + 1))
    ffi = cffi.FFI()
    ffi.cdef('\n'.join(lines))
    name = '_c25_%d_%d' % (os.getpid(), k)
    ffi.set_source(name, None)
    f = io.StringIO()
    with contextlib.redirect_stdout(io.StringIO()):
        ffi.emit_python_code(f)
    m = types.ModuleType(name)
    exec(compile(f.getvalue(), name + '.py', 'exec'), m.__dict__)
    return m.ffi, m.ffi.dlopen(None), f.getvalue()


_counter = [0]


def prop(case, ctx):
    names = case['names']
    if len(set(names)) != len(names) or not all(_valid(n) for n in names):
        raise HarnessError('bad name set %r' % (names,))
    probes = _probes(names, case.get('probes', []))
    with warnings.catch_warnings():
        warnings.simplefilter('ignore')
        _counter[0] += 1
        # (a cdef that uses the implicit FILE and then declares a FILE of its own is not valid C)
        uses_file = bool(case.get('file')) and 'FILE' not in names
        ffi, lib, text = _abi_module(names, _counter[0], ctx.tmp, uses_file)
        if uses_file:
            ctx.event('cdef-uses-FILE')
        _check(ffi, lib, names, probes, dict((n, 'ctse') for n in names), ctx, {'names': names, 'mode': 'ABI'})
        api_names = [n for n in names if n not in SPECIAL_SET]     # (the C headers own those names)
        if case.get('api') and api_names:
            roles = dict((n, 'ctse'[i % 4]) for i, n in enumerate(sorted(api_names)))
            ffi2, lib2 = _api_module(api_names, roles, ctx)
            _check(ffi2, lib2, api_names, probes, roles, ctx, {'names': api_names, 'mode': 'API', 'roles': roles})
    s = sorted(names)
    prefix = any(b.startswith(a) for a, b in zip(s, s[1:]))
    cls = ['size<=4' if len(names) <= 4 else 'size<=16' if len(names) <= 16 else 'size>16',
           'API+ABI' if case.get('api') else 'ABI']
    if prefix:
        cls.append('name-is-prefix-of-another')
    if any(a.lower() == b.lower() for a in names for b in names if a != b):
        cls.append('case-variants')
    if any(len(n) > 16 for n in names):
        cls.append('long-names')
    if any(n in SPECIAL_SET for n in names):
        cls.append('standard-or-keyword-like-names')
    ctx.note(sorted(names), prefix, cls)


def _api_module(names, roles, ctx):
    import cffi
    cdef, csrc = [], []
    for i, n in enumerate(names):
        r = roles[n]
        if r == 'c':
            cdef.append('#define %s %d' % (n, i + 1)); csrc.append('#define %s %d' % (n, i + 1))
        elif r == 't':
            cdef.append(_typedef_line(n, i)); csrc.append(_typedef_line(n, i))
        elif r == 's':
            cdef.append('struct %s { char Qf[%d]; };' % (n, i + 1)); csrc.append('struct %s { char Qf[%d]; };' % (n, i + 1))
        else:
            cdef.append('enum %s { %s = %d };' % (n, _enumerator(i), i + 1))
            csrc.append('enum %s { %s = %d };' % (n, _enumerator(i), i + 1))
    ffi = cffi.FFI()
    ffi.cdef('\n'.join(cdef))
    _counter[0] += 1
    name = '_c25api_%d_%d' % (os.getpid(), _counter[0])
    ffi.set_source(name, '\n'.join(csrc))
    try:
        m = cc.build_api_module(ffi, name, ctx.tmp)
    except cc.CompileFailed as e:
        raise HarnessError('API module does not compile: %s' % e)
    return m.ffi, m.lib


def _raises(f, excs):
    try:
        r = f()
    except excs:
        return None
    return ('returned', r)


def _check(ffi, lib, names, probes, roles, ctx, detail):
    err = (ffi.error, AttributeError)
    for i, n in enumerate(names):
        v = i + 1
        r = roles[n]
        try:
            if 't' in r:
                t = ffi.typeof(n)
                if _anon_td(n):
                    # (asking for the fields makes the runtime look the struct up by its name once more)
                    if (t.kind != 'struct' or ffi.sizeof(t) != v or [f for f, _ in t.fields] != ['Qf']
                            or t.fields[0][1].type.length != v):
                        ctx.fail('typedef %r of an anonymous struct resolves to %r (size %d, fields %r), expected '
                                 'a struct with one field char Qf[%d]' % (n, t, ffi.sizeof(t), t.fields, v), **detail)
                elif t.kind != 'array' or t.length != v:
                    ctx.fail('typedef %r resolves to %r, expected char[%d]' % (n, t, v), **detail)
                if ffi.typeof(n + ' *').item is not t or ffi.typeof(n + '*').item is not t:
                    ctx.fail('typedef %r followed by "*" does not resolve to the same entry' % n, **detail)
            if 's' in r:
                if ffi.sizeof('struct ' + n) != v or ffi.sizeof('struct %s[2]' % n) != 2 * v:
                    ctx.fail('struct %r has size %d, expected %d' % (n, ffi.sizeof('struct ' + n), v), **detail)
            if 'e' in r:
                t = ffi.typeof('enum ' + n)
                if t.relements != {_enumerator(i): v} or ffi.typeof('enum %s*' % n).item is not t:
                    ctx.fail('enum %r resolves to %r %r, expected {%s: %d}' % (n, t, t.relements, _enumerator(i), v), **detail)
                if ffi.integer_const(_enumerator(i)) != v or getattr(lib, _enumerator(i)) != v:
                    ctx.fail('enumerator %s of enum %r has a wrong value' % (_enumerator(i), n), **detail)
            if 'c' in r:
                if ffi.integer_const(n) != v:
                    ctx.fail('integer_const(%r) = %r, expected %d' % (n, ffi.integer_const(n), v), **detail)
                if getattr(lib, n) != v:
                    ctx.fail('lib.%s = %r, expected %d' % (n, getattr(lib, n), v), **detail)
                if ffi.typeof('char[%s]' % n).length != v:
                    ctx.fail('array length constant %r resolves to %r' % (n, ffi.typeof('char[%s]' % n).length), **detail)
        except err as e:
            ctx.fail('declared name %r is not found by the lookup: %s: %s' % (n, type(e).__name__, e), **detail)
    undeclared = list(probes)
    for n in names:                       # a declared name must not be found in a table where it has no role
        undeclared.append(n)
    for p in undeclared:
        r = roles.get(p, '')
        checks = []
        if 't' not in r:
            checks += [('typeof(%r)' % p, lambda: ffi.typeof(p)), ('typeof(%r)' % (p + '*'), lambda: ffi.typeof(p + '*'))]
        if 's' not in r:
            checks += [('typeof(%r)' % ('struct ' + p), lambda: ffi.sizeof('struct ' + p)),
                       ('typeof(%r)' % ('union ' + p), lambda: ffi.sizeof('union ' + p))]
        if 'e' not in r:
            checks.append(('typeof(%r)' % ('enum ' + p), lambda: ffi.typeof('enum ' + p)))
        if 'c' not in r:
            checks += [('integer_const(%r)' % p, lambda: ffi.integer_const(p)),
                       ('lib.%s' % p, lambda: getattr(lib, p)),
                       ('typeof(%r)' % ('char[%s]' % p), lambda: ffi.typeof('char[%s]' % p))]
        for what, f in checks:
            got = _raises(f, err)
            if got is not None:
                ctx.fail('undeclared name found: %s -> %r' % (what, got[1]), probe=p, **detail)
